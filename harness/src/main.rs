//! nlh - the implementation side of the correspondence check (DESIGN.md section 3.2).
//! Reads one case per line from a file, runs the real nederlang code on it (built from /repo's
//! working tree with the `verif` feature) and prints one canonical, ASCII-only observation per
//! line.  A panic is caught and reported as an observation of its own.
use nederlang::compiler::Compiler;
use nederlang::object::{Error, FromString, FromVec, Object, Type};
use nederlang::parser::parse;
use nederlang::verif;
use nederlang::vm::VM;
use std::fmt::Write as _;
use std::panic::{catch_unwind, AssertUnwindSafe};

mod gcdrive;
mod render;
use render::*;

fn unhex(s: &str) -> String {
    let bytes: Vec<u8> = (0..s.len() / 2)
        .map(|i| u8::from_str_radix(&s[2 * i..2 * i + 2], 16).unwrap())
        .collect();
    String::from_utf8_lossy(&bytes).into_owned()
}

fn panic_text(e: Box<dyn std::any::Any + Send>) -> String {
    let msg = if let Some(s) = e.downcast_ref::<&str>() {
        s.to_string()
    } else if let Some(s) = e.downcast_ref::<String>() {
        s.clone()
    } else {
        "?".to_string()
    };
    let mut out = String::new();
    for c in msg.chars().take(120) {
        out.push(if c.is_ascii_graphic() { c } else { '_' });
    }
    out
}

/// `word` cases (C15): constructors and accessors of Object called directly
fn cmd_word(line: &str) -> String {
    let parts: Vec<&str> = line.split_whitespace().collect();
    let mut gc = verif::GC::new();
    match parts[0] {
        "int" => {
            let z: isize = parts[1].parse().unwrap();
            let o = Object::int(z);
            format!("{} {} {}", o.verif_raw(), o.tag() as u8, o.as_int())
        }
        "bool" => {
            let o = Object::bool(parts[1] == "1");
            format!("{} {} {}", o.verif_raw(), o.tag() as u8, o.as_bool() as u8)
        }
        "null" => {
            let o = Object::null();
            format!("{} {}", o.verif_raw(), o.tag() as u8)
        }
        "fun" => {
            let ip: u32 = parts[1].parse().unwrap();
            let n: u16 = parts[2].parse().unwrap();
            let o = Object::function(ip, n);
            let [a, b] = o.as_function();
            format!("{} {} {} {}", o.verif_raw(), o.tag() as u8, a, b)
        }
        "float" => {
            let bits = u64::from_str_radix(parts[1], 16).unwrap();
            let o = Object::float(f64::from_bits(bits), &mut gc);
            format!(
                "{} {} {} {:016x}",
                o.verif_raw(),
                o.tag() as u8,
                o.is_heap_allocated() as u8,
                o.as_f64().to_bits()
            )
        }
        "str" => {
            let s = unhex(parts.get(1).copied().unwrap_or(""));
            let o = Object::string(s.as_str(), &mut gc);
            format!(
                "{} {} {} {}",
                o.verif_raw(),
                o.tag() as u8,
                o.is_heap_allocated() as u8,
                cps(o.as_str())
            )
        }
        "arr" => {
            // arr <n>: an array of n integers 0..n
            let n: usize = parts[1].parse().unwrap();
            let v: Vec<Object> = (0..n).map(|i| Object::int(i as isize)).collect();
            let o = Object::array(v, &mut gc);
            format!(
                "{} {} {} {}",
                o.verif_raw(),
                o.tag() as u8,
                o.is_heap_allocated() as u8,
                o.as_vec().len()
            )
        }
        // eq <desc> | <desc> : PartialEq on two values built from descriptors
        "eq" => {
            let rest = line[2..].trim();
            let (l, r) = rest.split_once('|').unwrap();
            let a = build(l.trim(), &mut gc);
            let b = build(r.trim(), &mut gc);
            if a.tag() == Type::Array && b.tag() == Type::Array {
                "array".to_string()
            } else {
                format!("{}", (a == b) as u8)
            }
        }
        _ => "unknown-case".to_string(),
    }
}

/// value descriptors: n | b0 | b1 | i<z> | f<ip>.<n> | F<hexbits> | S<hex utf8>
fn build(d: &str, gc: &mut verif::GC) -> Object {
    let (k, rest) = d.split_at(1);
    match k {
        "n" => Object::null(),
        "b" => Object::bool(rest == "1"),
        "i" => Object::int(rest.parse().unwrap()),
        "f" => {
            let (ip, n) = rest.split_once('.').unwrap();
            Object::function(ip.parse().unwrap(), n.parse().unwrap())
        }
        "F" => Object::float(f64::from_bits(u64::from_str_radix(rest, 16).unwrap()), gc),
        "S" => Object::string(unhex(rest).as_str(), gc),
        _ => panic!("bad descriptor {d}"),
    }
}

/// Runs a whole program text with the observation hooks on.
/// Line: `<budget> <hex source>`
fn cmd_eval(line: &str) -> String {
    let (budget, hex) = line.split_once(' ').unwrap_or((line, ""));
    let budget: u64 = budget.parse().unwrap();
    let src = unhex(hex.trim());
    verif::heap_reset();
    verif::take_output();
    verif::take_gc_log();
    verif::take_float_log();
    verif::set_budget(Some(budget));
    let result = catch_unwind(AssertUnwindSafe(|| nederlang::eval(&src)));
    let steps = verif::steps();
    verif::set_budget(None);
    let output = verif::take_output();
    let mut s = String::new();
    match result {
        Ok(Ok(obj)) => {
            let rendered = catch_unwind(AssertUnwindSafe(|| render_value(obj)));
            match rendered {
                Ok(r) => {
                    write!(s, "OK {r}").unwrap();
                    // release the result graph, each distinct object once
                    let _ = catch_unwind(AssertUnwindSafe(|| release_graph(obj)));
                }
                Err(e) => write!(s, "PANIC-IN-RESULT {}", panic_text(e)).unwrap(),
            }
        }
        Ok(Err(e)) => {
            let budget_hit = matches!(&e, Error::TypeError(m) if m == "verif: budget");
            if budget_hit {
                s.push_str("BUDGET");
            } else {
                write!(s, "ERR {}", error_kind(&e)).unwrap();
            }
        }
        Err(e) => write!(s, "PANIC {}", panic_text(e)).unwrap(),
    }
    let (alloc, freed, live) = verif::heap_stats();
    write!(s, " | OUT {} | STEPS {} | HEAP {} {} {}", cps(&output), steps, alloc, freed, live.len()).unwrap();
    let log = verif::take_gc_log();
    let inexact = log.iter().filter(|r| !r.exact).count();
    write!(s, " | GC {} {}", log.len(), inexact).unwrap();
    let fl = verif::take_float_log();
    s.push_str(" | ORC");
    for e in fl {
        match e {
            verif::FloatOracle::Show(b, t) => write!(s, " show:{:016x}:{}", b, cps(&t)).unwrap(),
            verif::FloatOracle::Parse(t, r) => match r {
                Some(b) => write!(s, " parse:{}:{:016x}", cps(&t), b).unwrap(),
                None => write!(s, " parse:{}:none", cps(&t)).unwrap(),
            },
            verif::FloatOracle::Rem(a, b, r) => write!(s, " rem:{:016x}:{:016x}:{:016x}", a, b, r).unwrap(),
        }
    }
    s
}

/// What a user of the command-line program sees: the printed output, then the value as `{}` displays it, or the
/// error kind.  Line: `<budget> <hex source>`
fn cmd_show(line: &str) -> String {
    let (budget, hex) = line.split_once(' ').unwrap_or((line, ""));
    let budget: u64 = budget.parse().unwrap();
    let src = unhex(hex.trim());
    verif::heap_reset();
    verif::take_output();
    verif::take_gc_log();
    verif::take_float_log();
    verif::set_budget(Some(budget));
    let result = catch_unwind(AssertUnwindSafe(|| nederlang::eval(&src)));
    verif::set_budget(None);
    let output = verif::take_output();
    let mut s = String::new();
    match result {
        Ok(Ok(obj)) => {
            match catch_unwind(AssertUnwindSafe(|| format!("{obj}"))) {
                Ok(r) => write!(s, "OK {}", cps(&r)).unwrap(),
                Err(e) => write!(s, "PANIC-IN-RESULT {}", panic_text(e)).unwrap(),
            }
            let _ = catch_unwind(AssertUnwindSafe(|| release_graph(obj)));
        }
        Ok(Err(e)) => {
            if matches!(&e, Error::TypeError(m) if m == "verif: budget") {
                s.push_str("BUDGET");
            } else {
                write!(s, "ERR {}", error_kind(&e)).unwrap();
            }
        }
        Err(e) => write!(s, "PANIC {}", panic_text(e)).unwrap(),
    }
    verif::take_gc_log();
    verif::take_float_log();
    write!(s, " | OUT {}", cps(&output)).unwrap();
    s
}

fn cmd_tokens(line: &str) -> String {
    let src = unhex(line.trim());
    match catch_unwind(AssertUnwindSafe(|| verif::tokens(&src))) {
        Ok(toks) => {
            let mut s = String::new();
            for (t, end) in toks {
                write!(s, "{}@{};", token_canon(&t), end).unwrap();
            }
            s
        }
        Err(e) => format!("PANIC {}", panic_text(e)),
    }
}

/// every Float token of the source with the bits str::parse::<f64> gives it
fn cmd_floatlits(line: &str) -> String {
    let src = unhex(line.trim());
    let mut s = String::new();
    if let Ok(toks) = catch_unwind(AssertUnwindSafe(|| verif::tokens(&src))) {
        for (t, _) in toks {
            if let Some(rest) = t.strip_prefix("Float(") {
                let lit = unquote_debug(&rest[..rest.len() - 1]);
                match lit.parse::<f64>() {
                    Ok(v) => write!(s, "{}:{:016x} ", cps(&lit), v.to_bits()).unwrap(),
                    Err(_) => write!(s, "{}:none ", cps(&lit)).unwrap(),
                }
            }
        }
    }
    s
}

/// char::is_alphabetic / is_alphanumeric of a code point
fn cmd_unicode(line: &str) -> String {
    let c: u32 = line.trim().parse().unwrap_or(0);
    match char::from_u32(c) {
        Some(ch) => format!("{} {}", ch.is_alphabetic() as u8, ch.is_alphanumeric() as u8),
        None => "0 0".to_string(),
    }
}

fn cmd_parse(line: &str) -> String {
    let src = unhex(line.trim());
    match catch_unwind(AssertUnwindSafe(|| parse(&src))) {
        Ok(Ok(ast)) => format!("OK {}", render_ast(&format!("{ast:?}"))),
        Ok(Err(e)) => format!("ERR {}", error_kind(&e)),
        Err(e) => format!("PANIC {}", panic_text(e)),
    }
}

fn cmd_compile(line: &str) -> String {
    let src = unhex(line.trim());
    verif::heap_reset();
    let r = catch_unwind(AssertUnwindSafe(|| {
        let ast = parse(&src)?;
        let mut c = Compiler::new();
        let code = c.compile_ast(&ast)?;
        let mut s = String::new();
        for b in &code.instructions {
            write!(s, "{:02x}", b).unwrap();
        }
        s.push_str(" K");
        for k in &code.constants {
            write!(s, " {}", render_const(*k)).unwrap();
        }
        for k in &code.constants {
            k.free();
        }
        Ok::<String, Error>(s)
    }));
    match r {
        Ok(Ok(s)) => format!("OK {s}"),
        Ok(Err(e)) => format!("ERR {}", error_kind(&e)),
        Err(e) => format!("PANIC {}", panic_text(e)),
    }
}

/// A retained (Compiler, VM) pair fed line after line.  Case: `<budget>` then lines separated by ' ' as hex.
fn cmd_session(line: &str) -> String {
    let mut parts = line.split_whitespace();
    let budget: u64 = parts.next().unwrap().parse().unwrap();
    verif::heap_reset();
    let mut out = String::new();
    let r = catch_unwind(AssertUnwindSafe(|| {
        let mut compiler = Compiler::new();
        let mut vm = VM::new();
        let mut s = String::new();
        for hex in parts {
            let src = if hex == "-" { String::new() } else { unhex(hex) };
            verif::take_output();
            verif::set_budget(Some(budget));
            let r = parse(&src)
                .and_then(|ast| compiler.compile_ast(&ast))
                .and_then(|code| vm.run(code));
            verif::set_budget(None);
            let printed = verif::take_output();
            match r {
                Ok(obj) => write!(s, "OK {}", render_value(obj)).unwrap(),
                Err(e) => {
                    if matches!(&e, Error::TypeError(m) if m == "verif: budget") {
                        s.push_str("BUDGET")
                    } else {
                        write!(s, "ERR {}", error_kind(&e)).unwrap()
                    }
                }
            }
            let (sl, fl, _g) = vm.verif_state();
            let (il, lc, _k) = compiler.verif_state();
            write!(s, " OUT {} ST {} {} {} {} ;; ", cps(&printed), sl, fl, il, lc).unwrap();
        }
        s
    }));
    match r {
        Ok(s) => out.push_str(&s),
        Err(e) => write!(out, "PANIC {}", panic_text(e)).unwrap(),
    }
    out
}

fn main() {
    let args: Vec<String> = std::env::args().collect();
    if args.len() < 3 {
        eprintln!("usage: nlh <word|eval|tokens|parse|compile|session|gc|tables> <case file>");
        std::process::exit(2);
    }
    // silence the default panic message: panics are observations here
    std::panic::set_hook(Box::new(|_| {}));
    if args[1] == "tables" {
        for (b, n, w) in verif::opcode_table() {
            println!("opcode {b} {n} {}", w.iter().map(|x| x.to_string()).collect::<Vec<_>>().join(","));
        }
        for (b, n) in verif::builtin_table() {
            println!("builtin {b} {n}");
        }
        return;
    }
    let text = std::fs::read_to_string(&args[2]).unwrap();
    use std::io::Write;
    if args[1] == "threads" {
        // C16 (c): the cases of the file evaluated concurrently from 16 threads; which thread takes which case next
        // is decided by a seeded permutation (first line of the file: the seed) and a shared counter
        let mut lines = text.lines();
        let seed: u64 = lines.next().unwrap_or("1").trim().parse().unwrap_or(1);
        let cases: Vec<String> = lines.map(|l| l.to_string()).collect();
        let n = cases.len();
        let mut order: Vec<usize> = (0..n).collect();
        let mut x = seed.wrapping_mul(6364136223846793005).wrapping_add(1442695040888963407);
        for i in (1..n).rev() {
            x = x.wrapping_mul(6364136223846793005).wrapping_add(1442695040888963407);
            let j = (x >> 33) as usize % (i + 1);
            order.swap(i, j);
        }
        let cases = std::sync::Arc::new(cases);
        let order = std::sync::Arc::new(order);
        let next = std::sync::Arc::new(std::sync::atomic::AtomicUsize::new(0));
        let results = std::sync::Arc::new(std::sync::Mutex::new(vec![String::new(); n]));
        let mut handles = Vec::new();
        for _ in 0..16 {
            let (cases, order, next, results) = (cases.clone(), order.clone(), next.clone(), results.clone());
            handles.push(std::thread::Builder::new().stack_size(64 << 20).spawn(move || loop {
                let k = next.fetch_add(1, std::sync::atomic::Ordering::SeqCst);
                if k >= order.len() {
                    break;
                }
                let i = order[k];
                let r = cmd_eval(&cases[i]);
                results.lock().unwrap()[i] = r;
            }).unwrap());
        }
        for h in handles {
            let _ = h.join();
        }
        let stdout = std::io::stdout();
        let mut w = std::io::BufWriter::new(stdout.lock());
        for r in results.lock().unwrap().iter() {
            writeln!(w, "{r}").unwrap();
        }
        return;
    }
    let stdout = std::io::stdout();
    let mut w = std::io::BufWriter::new(stdout.lock());
    for line in text.lines() {
        let r = match args[1].as_str() {
            "word" => catch_unwind(AssertUnwindSafe(|| cmd_word(line)))
                .unwrap_or_else(|e| format!("PANIC {}", panic_text(e))),
            "eval" => cmd_eval(line),
            "show" => cmd_show(line),
            "tokens" => cmd_tokens(line),
            "parse" => cmd_parse(line),
            "floatlits" => cmd_floatlits(line),
            "unicode" => cmd_unicode(line),
            "compile" => cmd_compile(line),
            "session" => cmd_session(line),
            "gc" => catch_unwind(AssertUnwindSafe(|| gcdrive::cmd_gc(line)))
                .unwrap_or_else(|e| format!("PANIC {}", panic_text(e))),
            _ => "unknown-command".to_string(),
        };
        writeln!(w, "{r}").unwrap();
        w.flush().unwrap();
    }
}
