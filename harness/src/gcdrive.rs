//! Drives the collector directly, without the VM (C03/C04 correspondence (a)).
//!
//! Case line: operations separated by blanks over a universe of objects numbered in creation order:
//!   F | S | A        allocate a float / string / empty array (handed to the collector: trace)
//!   Lx,y             push object x onto array y
//!   Ri,j,...         GC::run with the given objects as roots (R alone: no roots)
//!   Ux               GC::untrace(x): hand x and everything reachable from it over to the caller
//!   D                GC::destroy (what Drop does)
//! An operation that mentions a released object (or links into a non-array) is skipped: "skip".
//! Observation per operation: `m<managed ids in the collector's order>a<ids still allocated>x<exact>`.
use nederlang::object::{FromString, FromVec, Object, Type};
use nederlang::verif;
use std::fmt::Write as _;

fn addr(o: Object) -> usize {
    o.verif_raw() & !7usize
}

pub fn cmd_gc(line: &str) -> String {
    verif::heap_reset();
    verif::take_gc_log();
    let mut gc = verif::GC::new();
    let mut uni: Vec<Object> = Vec::new();
    let mut out = String::new();
    let alive = |o: Object| -> bool { verif::heap_stats().2.binary_search(&addr(o)).is_ok() };
    for op in line.split_whitespace() {
        let (k, rest) = op.split_at(1);
        let ids: Vec<usize> = rest
            .split(',')
            .filter(|s| !s.is_empty())
            .map(|s| s.parse().unwrap())
            .collect();
        let mut skipped = false;
        if ids.iter().any(|i| *i >= uni.len() || !alive(uni[*i])) && k != "R" {
            skipped = true;
        } else {
            match k {
                "F" => uni.push(Object::float(uni.len() as f64 + 0.5, &mut gc)),
                "S" => uni.push(Object::string(format!("s{}", uni.len()).as_str(), &mut gc)),
                "A" => uni.push(Object::array(Vec::<Object>::new(), &mut gc)),
                "L" => {
                    let (x, y) = (uni[ids[0]], uni[ids[1]]);
                    if y.tag() == Type::Array {
                        let mut y = y;
                        y.as_vec_mut().push(x);
                    } else {
                        skipped = true;
                    }
                }
                "R" => {
                    // released objects cannot be roots of a well-formed caller: leave them out
                    let roots: Vec<Object> = ids
                        .iter()
                        .filter(|i| **i < uni.len() && alive(uni[**i]))
                        .map(|i| uni[*i])
                        .collect();
                    gc.run(&[&roots]);
                }
                "U" => gc.untrace(uni[ids[0]]),
                "D" => gc.destroy(),
                _ => skipped = true,
            }
        }
        if skipped {
            out.push_str("skip;");
            continue;
        }
        let managed = gc.verif_objects();
        out.push('m');
        for (n, w) in managed.iter().enumerate() {
            let id = uni.iter().position(|o| o.verif_raw() == *w).map(|p| p as i64).unwrap_or(-1);
            write!(out, "{}{}", if n > 0 { "." } else { "" }, id).unwrap();
        }
        out.push('a');
        let live = verif::heap_stats().2;
        let mut first = true;
        for (i, o) in uni.iter().enumerate() {
            if live.binary_search(&addr(*o)).is_ok() {
                write!(out, "{}{}", if first { "" } else { "." }, i).unwrap();
                first = false;
            }
        }
        let log = verif::take_gc_log();
        let inexact = log.iter().filter(|r| !r.exact).count();
        write!(out, "x{};", inexact).unwrap();
    }
    // leave nothing behind: what the collector still manages is freed by its Drop; the rest here
    drop(gc);
    let live = verif::heap_stats().2;
    for o in uni.iter() {
        if live.binary_search(&addr(*o)).is_ok() {
            o.free();
        }
    }
    let (a, f, l) = verif::heap_stats();
    write!(out, " END {} {} {}", a, f, l.len()).unwrap();
    out
}
