//! Drives the collector directly, without the VM (C03/C04 correspondence (a)).
pub fn cmd_gc(_line: &str) -> String {
    "todo".to_string()
}
