//! Canonical, ASCII-only renderings shared by all stages.
use nederlang::object::{Error, Object, Type};
use std::fmt::Write as _;

/// text as decimal code points separated by '.', e.g. "hi" -> 104.105 ; empty -> "-"
pub fn cps(s: &str) -> String {
    if s.is_empty() {
        return "-".to_string();
    }
    s.chars().map(|c| (c as u32).to_string()).collect::<Vec<_>>().join(".")
}

pub fn error_kind(e: &Error) -> &'static str {
    match e {
        Error::TypeError(_) => "Type",
        Error::SyntaxError(_) => "Syntax",
        Error::ReferenceError(_) => "Reference",
        Error::IndexError(_) => "Index",
        Error::ArgumentError(_) => "Argument",
    }
}

/// Value graph with sharing made explicit: heap objects are numbered by first visit.
pub fn render_value(o: Object) -> String {
    let mut seen: Vec<usize> = Vec::new();
    let mut s = String::new();
    walk(o, &mut seen, &mut s, 0);
    s
}

fn walk(o: Object, seen: &mut Vec<usize>, s: &mut String, depth: usize) {
    if depth > 5000 {
        s.push_str("<deep>");
        return;
    }
    match o.tag() {
        Type::Null => s.push('n'),
        Type::Bool => s.push_str(if o.as_bool() { "b1" } else { "b0" }),
        Type::Int => write!(s, "i{}", o.as_int()).unwrap(),
        Type::Function => {
            let [ip, n] = o.as_function();
            write!(s, "f{}.{}", ip, n).unwrap()
        }
        Type::Float | Type::String | Type::Array => {
            let raw = o.verif_raw();
            if let Some(k) = seen.iter().position(|r| *r == raw) {
                write!(s, "#{}", k).unwrap();
                return;
            }
            let k = seen.len();
            seen.push(raw);
            match o.tag() {
                Type::Float => write!(s, "#{}=F{:016x}", k, o.as_f64().to_bits()).unwrap(),
                Type::String => write!(s, "#{}=S{}", k, cps(o.as_str())).unwrap(),
                _ => {
                    write!(s, "#{}=A[", k).unwrap();
                    let items: Vec<Object> = o.as_vec().clone();
                    for (i, v) in items.iter().enumerate() {
                        if i > 0 {
                            s.push(',');
                        }
                        walk(*v, seen, s, depth + 1);
                    }
                    s.push(']');
                }
            }
        }
    }
}

/// Releases every distinct heap object of a result graph exactly once
pub fn release_graph(o: Object) {
    let mut seen: Vec<Object> = Vec::new();
    fn collect(o: Object, seen: &mut Vec<Object>) {
        if !o.is_heap_allocated() {
            return;
        }
        if seen.iter().any(|r| r.verif_raw() == o.verif_raw()) {
            return;
        }
        seen.push(o);
        if o.tag() == Type::Array {
            let items: Vec<Object> = o.as_vec().clone();
            for v in items {
                collect(v, seen);
            }
        }
    }
    collect(o, &mut seen);
    for x in seen {
        x.free();
    }
}

/// a constant of the pool: scalars by value, heap constants by content
pub fn render_const(o: Object) -> String {
    match o.tag() {
        Type::Null => "n".to_string(),
        Type::Bool => (if o.as_bool() { "b1" } else { "b0" }).to_string(),
        Type::Int => format!("i{}", o.as_int()),
        Type::Function => {
            let [ip, n] = o.as_function();
            format!("f{}.{}", ip, n)
        }
        Type::Float => format!("F{:016x}", o.as_f64().to_bits()),
        Type::String => format!("S{}", cps(o.as_str())),
        Type::Array => "A".to_string(),
    }
}

/// `Identifier("ab")` -> Identifier:97.98 ; fixed tokens unchanged
pub fn token_canon(dbg: &str) -> String {
    if let Some(p) = dbg.find('(') {
        let kind = &dbg[..p];
        // the payload is a Debug-quoted &str: undo the quoting
        let inner = &dbg[p + 1..dbg.len() - 1];
        format!("{}:{}", kind, cps(&unquote_debug(inner)))
    } else {
        dbg.to_string()
    }
}

/// Inverse of <str as Debug>::fmt for a complete quoted string
pub fn unquote_debug(q: &str) -> String {
    let body = &q[1..q.len() - 1];
    let mut out = String::new();
    let mut it = body.chars().peekable();
    while let Some(c) = it.next() {
        if c != '\\' {
            out.push(c);
            continue;
        }
        match it.next() {
            Some('n') => out.push('\n'),
            Some('t') => out.push('\t'),
            Some('r') => out.push('\r'),
            Some('0') => out.push('\0'),
            Some('\\') => out.push('\\'),
            Some('"') => out.push('"'),
            Some('\'') => out.push('\''),
            Some('u') => {
                it.next(); // {
                let mut hex = String::new();
                for h in it.by_ref() {
                    if h == '}' {
                        break;
                    }
                    hex.push(h);
                }
                if let Some(ch) = u32::from_str_radix(&hex, 16).ok().and_then(char::from_u32) {
                    out.push(ch);
                }
            }
            Some(other) => out.push(other),
            None => {}
        }
    }
    out
}

/// Canonical S-expression of the Debug rendering of a tree (Vec<Stmt>).
/// The Debug text is re-tokenised: names, braces, brackets, parentheses, commas, quoted strings and
/// numbers; strings become code-point lists and floats their bit patterns.
pub fn render_ast(dbg: &str) -> String {
    let mut out = String::new();
    let chars: Vec<char> = dbg.chars().collect();
    let mut i = 0;
    while i < chars.len() {
        let c = chars[i];
        if c == '"' {
            // quoted string
            let start = i;
            i += 1;
            while i < chars.len() {
                if chars[i] == '\\' {
                    i += 2;
                    continue;
                }
                if chars[i] == '"' {
                    break;
                }
                i += 1;
            }
            let q: String = chars[start..=i].iter().collect();
            write!(out, "\"{}\"", cps(&unquote_debug(&q))).unwrap();
            i += 1;
        } else if c.is_whitespace() {
            i += 1;
        } else if c.is_ascii_digit() || (c == '-' && i + 1 < chars.len() && chars[i + 1].is_ascii_digit()) {
            let start = i;
            i += 1;
            while i < chars.len() && (chars[i].is_ascii_alphanumeric() || chars[i] == '.' || chars[i] == '-' || chars[i] == '+') {
                i += 1;
            }
            let num: String = chars[start..i].iter().collect();
            if num.contains('.') || num.contains('e') || num.contains("inf") || num.contains("NaN") {
                let f: f64 = num.parse().unwrap_or(f64::NAN);
                write!(out, "F{:016x}", f.to_bits()).unwrap();
            } else {
                out.push_str(&num);
            }
        } else if c.is_alphabetic() || c == '_' {
            let start = i;
            while i < chars.len() && (chars[i].is_alphanumeric() || chars[i] == '_') {
                i += 1;
            }
            let w: String = chars[start..i].iter().collect();
            // field names are followed by ':' and dropped
            if i < chars.len() && chars[i] == ':' {
                i += 1;
            } else if w == "inf" {
                write!(out, "F{:016x}", f64::INFINITY.to_bits()).unwrap();
            } else if w == "NaN" {
                write!(out, "F{:016x}", f64::NAN.to_bits()).unwrap();
            } else {
                out.push_str(&w);
            }
        } else {
            match c {
                '{' | '(' | '[' => out.push('('),
                '}' | ')' | ']' => out.push(')'),
                ',' => out.push(' '),
                _ => out.push(c),
            }
            i += 1;
        }
    }
    out
}
