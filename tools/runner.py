import argparse, importlib, json, os, random, sys, time, traceback
import vlib


class Ctx:
    def __init__(self, prop, tier, seed):
        self.prop, self.tier, self.seed = prop, tier, seed
        self.rng = random.Random(seed * 1000003 + int(prop[1:]))
        self.t0 = time.time()
        self.violations = []      # dicts with a concrete failing input on the implementation
        self.disagreements = []   # model vs implementation differences (no judgement yet)
        self.broken = []          # proof obligations / shards that no longer check
        self.known = []           # failures classified by known_findings.json
        self.evaluations = 0
        self.distinct = set()
        self.samples = []
        self.stats = {}
        self.rules = []
        self.notes = []
        self.exhaustive = None
        self.quick = tier == "quick"

    def count(self, key, n=1):
        self.stats[key] = self.stats.get(key, 0) + n

    def seen(self, case, nontrivial=True):
        self.evaluations += 1
        if nontrivial:
            self.distinct.add(hash(case))

    def sample(self, s, limit=6):
        if len(self.samples) < limit:
            self.samples.append(s)

    def violate(self, what, **data):
        d = dict(kind="violation", what=what)
        d.update(data)
        self.violations.append(d)

    def disagree(self, stage, **data):
        d = dict(kind="correspondence", stage=stage)
        d.update(data)
        self.disagreements.append(d)


def main(argv):
    ap = argparse.ArgumentParser()
    ap.add_argument("prop")
    ap.add_argument("--tier", default=os.environ.get("VERIF_TIER", "quick"))
    ap.add_argument("--replay")
    ap.add_argument("--no-build", action="store_true")
    a = ap.parse_args(argv)
    prop = a.prop.upper()
    seed = int(os.environ.get("VERIF_SEED", "1"))
    ctx = Ctx(prop, a.tier, seed)
    mod = importlib.import_module("props." + prop.lower())
    log = lambda *x: print("[%s %6.1fs]" % (prop, time.time() - ctx.t0), *x, flush=True)

    # 1. translator: the declarative tables of the model are regenerated from the source
    rc, out = vlib.translate()
    log(out)
    if rc != 0:
        ctx.broken.append(dict(kind="translator", what=out))

    # 2. proof obligations
    checker_cmds = []
    theorem_status = {}
    obligations = discharged = 0
    if rc == 0:
        targets = getattr(mod, "COQ_TARGETS", ["props/%s.vo" % prop])
        if os.environ.get("VERIF_DEV_SKIP_PROOFS"):   # development only; never used by MANIFEST commands
            targets = [t for t in targets if not t.startswith("props/")]
        for t in targets:
            rc2, out2, cmd = vlib.make_target(t)
            checker_cmds.append("cd coq && " + cmd)
            if rc2 != 0:
                err = out2[-1500:]
                log("proof obligation / model build failed: %s" % t)
                ctx.broken.append(dict(kind="proof", target=t, what=err))
        names = vlib.theorems_of(prop)
        obligations = len(names)
        if not any(b["kind"] == "proof" for b in ctx.broken) and not os.environ.get("VERIF_DEV_SKIP_PROOFS"):
            names, status, raw = vlib.audit_assumptions(prop)
            theorem_status = status
            for n in names:
                if status[n].startswith("closed"):
                    discharged += 1
                else:
                    ctx.broken.append(dict(kind="assumptions", theorem=n, what=status[n]))
            bad = vlib.audit_sources()
            if bad:
                ctx.broken.append(dict(kind="forbidden-construct", what=bad))
        log("theorems: %d stated, %d discharged and closed" % (obligations, discharged))
        if a.tier == "thorough" and not ctx.broken and not os.environ.get("VERIF_DEV_SKIP_PROOFS"):
            ok, axs, txt = vlib.coqchk(prop)
            checker_cmds.append("cd coq && coqchk -o -silent NL.Props.%s" % prop)
            ctx.notes.append("coqchk -o: %s; library axioms/primitives it lists (standard library only): %d" % ("passed" if ok else "FAILED", len(axs)))
            if not ok:
                ctx.broken.append(dict(kind="coqchk", what=txt))
            log("coqchk: %s (%d standard-library axioms/primitives in the loaded libraries)" % ("passed" if ok else "FAILED", len(axs)))

    # 3. harness from the working tree
    if not a.no_build:
        rc3, out3 = vlib.build_harness("release")
        if rc3 != 0:
            log("harness build failed")
            ctx.broken.append(dict(kind="build", what=out3[-1500:]))
        if getattr(mod, "NEEDS_DEBUG", False):
            rc4, out4 = vlib.build_harness("debug")
            if rc4 != 0:
                ctx.broken.append(dict(kind="build-debug", what=out4[-1500:]))

    if not any(b["kind"].startswith("build") for b in ctx.broken):
        for d in vlib.crosscheck_tables():
            ctx.broken.append(dict(kind="translator-crosscheck", what=d))

    # 4./5. correspondence and property oracle
    if not any(b["kind"].startswith("build") for b in ctx.broken):
        try:
            if a.replay:
                mod.replay(ctx, json.load(open(a.replay)), log)
            else:
                mod.run(ctx, log)
        except Exception as e:
            traceback.print_exc()
            ctx.broken.append(dict(kind="check-crashed", what=repr(e)))

    # 5b. a proof obligation or the correspondence no longer checks but no input shows the property failing yet: SEARCH
    # the implementation for one (the model cannot be trusted any more; the specification oracle and the metamorphic
    # checks still can).  Never reached on a tree where everything checks.
    if (ctx.broken or ctx.disagreements) and not ctx.violations and not a.replay and not any(b["kind"].startswith("build") for b in ctx.broken):
        search = getattr(mod, "search", None)
        if search is not None:
            log("no failing input yet for what no longer checks: searching")
            try:
                search(ctx, log)
            except Exception as e:
                traceback.print_exc()
                ctx.broken.append(dict(kind="search-crashed", what=repr(e)))

    # 6. verdict
    known = vlib.known_findings()
    rc_final = 0
    lines = []
    for k in ctx.known:
        lines.append("KNOWN-FINDING: property=%s %s" % (prop, k))
    if ctx.violations:
        for v in ctx.violations[:5]:
            path = vlib.write_replay(prop, dict(property=prop, seed=seed, tier=a.tier, **v))
            lines.append("VIOLATION property=%s replay=%s" % (prop, path))
        rc_final = 1
    elif ctx.broken or ctx.disagreements:
        data = dict(property=prop, seed=seed, tier=a.tier, kind="no-failing-input-found",
                    broken=ctx.broken[:5], disagreements=ctx.disagreements[:5],
                    what="the property is no longer shown to hold: the listed theorem / correspondence no longer checks, and the search found no input on which the implementation contradicts the specification")
        path = vlib.write_replay(prop, data)
        lines.append("VIOLATION property=%s replay=%s no-failing-input-found" % (prop, path))
        rc_final = 1
    for l in sorted(set(lines)):
        print(l, flush=True)

    wall = time.time() - ctx.t0
    shared = []
    fam_text = {
        "scale:": "scale families (the same small programs with N constants / locals / arguments / sibling statements / nesting levels / live objects for N around 127..130, 254..258, 4095..4097 and far beyond in the thorough tier, closed-form expected values)",
        "code-boundary": "every kind of jump and a call placed across byte 65536 of the code (rejected as too large or as at offset 0)",
        "stray-jump:": "stop / volgende under every nesting of loops, functions, blocks and branches to depth 4",
        "failing-line-sessions": "retained sessions with 60 kinds of failing lines (run-time, compile-time at every nesting depth, parse) at two positions and three times over: later lines answer as without them",
        "special-values": "21 special values through every operator, prefix operator, builtin and index position in both build profiles",
        "gen:collide-": "generated programs that borrow names across name spaces (globals, functions, parameters, nested functions)",
        "search_programs": "SEARCH after a broken correspondence / proof obligation (specification oracle only)",
    }
    for key, text in fam_text.items():
        if any(k.startswith(key) for k in ctx.stats):
            shared.append(text)
    coverage = dict(
        obligations=max(obligations, 1),
        discharged=discharged,
        checker_cmd="; ".join(checker_cmds) or "none",
        trusted_base=vlib.TRUSTED_BASE + getattr(mod, "EXTRA_TRUST", []),
        theorems=theorem_status,
        evaluations=ctx.evaluations,
        distinct_nontrivial=len(ctx.distinct),
        rule=("; ".join(ctx.rules) or getattr(mod, "RULE", "")) + (" SHARED FAMILIES ALSO RUN: " + "; ".join(shared) if shared else ""),
        samples=ctx.samples or ["(no case was run)"],
        distribution=ctx.stats,
        traces_validated_against_impl=ctx.evaluations,
        disagreements=len(ctx.disagreements),
        broken=[b.get("kind") + ":" + str(b.get("target", b.get("theorem", ""))) for b in ctx.broken],
        known_findings_hit=len(ctx.known),
        notes=ctx.notes + getattr(mod, "NOTES", []),
    )
    if ctx.exhaustive is not None:
        coverage["exhaustive"] = ctx.exhaustive
    vlib.write_evidence(prop, a.tier, seed, coverage, getattr(mod, "ASSUMPTIONS", []), wall, len(ctx.violations) + (1 if rc_final and not ctx.violations else 0))
    log("done: exit %d, %d evaluations, %d distinct, %d disagreements, %d violations" % (rc_final, ctx.evaluations, len(ctx.distinct), len(ctx.disagreements), len(ctx.violations)))
    return rc_final
