"""Shared by C03 and C04: (a) the collector driven directly through operation sequences, compared
with GC.v inside Coq and judged by a reachability specification; (b) allocating programs under the
VM with the shadow heap, the end-of-collection callback and the instruction budget (abort points)."""
import itertools, re
import vlib, runcorr, genwf, nlast

# ------------------------------------------------------------------ (a) operation sequences


def spec_sim(ops):
    """The SPECIFICATION's view of a sequence (reachability on the object graph), as long as the
    caller keeps the collector's contract (GCInv: what a managed array holds is managed; roots are
    managed).  Returns per operation (skipped?, managed set, alive set, contract_still_ok)."""
    kind, elems = [], {}
    managed, alive = set(), set()
    ok = True
    out = []

    def reach(roots):
        seen, todo = set(), list(roots)
        while todo:
            x = todo.pop()
            if x in seen:
                continue
            seen.add(x)
            todo += elems.get(x, [])
        return seen

    for op in ops:
        k, ids = op[0], op[1]
        skipped = False
        if k in "FSA":
            i = len(kind)
            kind.append(k)
            elems[i] = []
            managed.add(i)
            alive.add(i)
        elif k == "L":
            x, y = ids
            if x >= len(kind) or y >= len(kind) or x not in alive or y not in alive or kind[y] != "A":
                skipped = True
            else:
                elems[y].append(x)
                if y in managed and x not in managed:
                    ok = False
        elif k == "R":
            roots = [i for i in ids if i < len(kind) and i in alive]
            if any(i not in managed for i in roots):
                ok = False
            if managed:
                r = reach(roots)
                # a dangling element (contract already broken) is not followed by the specification either
                surv = managed & r
                alive -= (managed - surv)
                managed = surv
        elif k == "U":
            x = ids[0]
            if x >= len(kind) or x not in alive:
                skipped = True
            else:
                removed = managed & reach([x]) if x in managed else set()
                managed = managed - removed
                for y in managed:
                    if any(e in removed for e in elems.get(y, [])):
                        ok = False
        elif k == "D":
            alive -= managed
            managed = set()
        out.append((skipped, set(managed), set(alive), ok))
    return out


def op_text(op):
    k, ids = op
    return k + ",".join(str(i) for i in ids)


def op_coq(op):
    k, ids = op
    if k in "FSA":
        return "G" + k
    if k == "L":
        return "(GL %d %d)" % tuple(ids)
    if k == "R":
        return "(GR [%s])" % "; ".join("%d%%nat" % i for i in ids)
    if k == "U":
        return "(GU %d)" % ids[0]
    return "GD"


def gen_sequence(rng, max_len=12, universe=8, wild=0.15):
    """Random sequence; mostly contract-respecting (so that the specification judges it), sometimes wild."""
    ops = []
    n = 0
    is_wild = rng.random() < wild
    sim_managed, sim_alive, kinds = set(), set(), []
    for _ in range(rng.randint(3, max_len)):
        st = spec_sim(ops)
        if st:
            _, sim_managed, sim_alive, _ = st[-1]
        c = rng.random()
        arrays = [i for i in sim_alive if kinds[i] == "A"]
        if n < 2 or (c < 0.3 and n < universe):
            k = rng.choice("FSAAA")
            ops.append((k, []))
            kinds.append(k)
            n += 1
        elif c < 0.6 and arrays:
            y = rng.choice(arrays)
            pool = sorted(sim_alive) if (is_wild or y not in sim_managed) else sorted(sim_managed)
            if pool:
                ops.append(("L", [rng.choice(pool), y]))
        elif c < 0.88:
            pool = sorted(sim_alive if is_wild else sim_managed)
            k = rng.randint(0, min(3, len(pool)))
            ops.append(("R", sorted(rng.sample(pool, k))))
        elif c < 0.96 and sim_alive:
            ops.append(("U", [rng.choice(sorted(sim_alive))]))
        else:
            ops.append(("D", []))
    return ops


def enum_sequences(prefix, length, universe):
    """All sequences prefix ++ s with |s| = length over the non-allocating operations on `universe` objects."""
    alpha = []
    for x in range(universe):
        for y in range(universe):
            alpha.append(("L", [x, y]))
    for r in range(universe + 1):
        for c in itertools.combinations(range(universe), r):
            alpha.append(("R", list(c)))
    for x in range(universe):
        alpha.append(("U", [x]))
    alpha.append(("D", []))
    for s in itertools.product(alpha, repeat=length):
        yield list(prefix) + list(s)


def parse_gc_obs(o):
    """-> list of (skipped, managed list, alive set, inexact) per op, and the END triple"""
    body, _, end = o.partition(" END")
    res = []
    for part in body.split(";"):
        part = part.strip()
        if not part:
            continue
        if part == "skip":
            res.append((True, None, None, 0))
            continue
        m = re.match(r"m([\d.\-]*)a([\d.]*)x(\d+)$", part)
        if not m:
            return None, None
        man = [int(x) for x in m.group(1).split(".") if x != ""]
        al = {int(x) for x in m.group(2).split(".") if x != ""}
        res.append((False, man, al, int(m.group(3))))
    e = [int(x) for x in end.split()] if end.strip() else None
    return res, e


def run_sequences(ctx, seqs, log, want, label="gcseq"):
    """want: 'C03' (nothing reachable is freed, nothing freed twice) or 'C04' (exactly the reachable
    survive; nothing is left at the end)."""
    lines = [" ".join(op_text(o) for o in s) for s in seqs]
    obs = vlib.nlh("gc", lines, tag=ctx.prop.lower() + "g")
    items = []
    judged = 0
    for s, line, o in zip(seqs, lines, obs):
        ctx.seen(line)
        for op in s:
            ctx.count("gcop:" + op[0])
        items.append("GCase [%s] %s" % ("; ".join(op_coq(x) for x in s), vlib.coq_hash(o)))
        if o.startswith("PANIC") or o.startswith("CRASH") or o.startswith("TIMEOUT"):
            ctx.violate("the collector crashed / hit a shadow-heap probe (use after free, double free) on an operation sequence",
                        ops=line, observed=o[:300])
            continue
        per, end = parse_gc_obs(o)
        if per is None:
            ctx.broken.append(dict(kind="harness-output", what=o[:200]))
            continue
        spec = spec_sim(s)
        for n, ((skipped, man, al, inexact), (sk2, sman, salive, ok)) in enumerate(zip(per, spec)):
            if not ok:
                ctx.count("gcseq:contract-left")
                break
            if skipped != sk2:
                ctx.violate("operation skipped/not skipped against the specification (an object's liveness differs)", ops=line, at=n, observed=o[:300])
                break
            if skipped:
                continue
            judged += 1
            if want == "C03":
                dead_reach = salive - al
                if dead_reach:
                    ctx.violate("a reachable (or unmanaged) object was reclaimed: objects %s should still be allocated" % sorted(dead_reach), ops=line, at=n, observed=o[:300])
                    break
            else:
                if set(man) != sman or al != salive or inexact:
                    ctx.violate("after the operation the collector should manage %s with %s allocated; it manages %s with %s allocated (inexact=%d)" % (sorted(sman), sorted(salive), sorted(man), sorted(al), inexact), ops=line, at=n, observed=o[:300])
                    break
        if end is not None and want == "C04" and (end[2] != 0 or end[0] != end[1]):
            ctx.violate("after dropping the collector and releasing what was handed over, %d of %d objects remain / freed %d" % (end[2], end[0], end[1]), ops=line, observed=o[:300])
    ctx.sample(dict(ops=lines[0], impl=obs[0][:200]))
    header = "From NL.Corr Require Import CorrGC.\nOpen Scope Z_scope."
    footer = lambda: "Eval vm_compute in (mismatches check cases)."
    shards, results, errors = vlib.run_coq_shards(ctx.prop, header, items, footer, shard_size=400, tag=label)
    for e in errors:
        ctx.broken.append(dict(kind="corr-shard", what=e))
    off = 0
    nbad = 0
    for k, sh in enumerate(shards):
        if k in results:
            bad = vlib.parse_index_list(results[k])
            if bad is None:
                ctx.broken.append(dict(kind="corr-output", what=results[k][-300:]))
            else:
                for j in bad:
                    nbad += 1
                    ctx.disagree("collector", ops=lines[off + j], impl=obs[off + j][:300], model="GC.v renders a different trace (managed order, allocated set, or ledger)")
        off += len(sh)
    log("%s: %d operation sequences (%d operations judged by the reachability specification), %d disagreements with GC.v" % (label, len(seqs), judged, nbad))


# ------------------------------------------------------------------ (b) allocating programs

ALLOC_CORPUS = [
    'functie f() { "abc" } f()',
    'functie f() { [1, 2.5, "x"] } stel a = f(); stel b = f(); a[1] = b; a',
    'stel a = [1]; a[0] = a; functie f(x) { x } f(2); lengte(a)',
    'stel a = [[1], [2.5]]; stel b = a[0]; functie g(x) { x[0] = "s"; x } g(b); a',
    'functie mk(n) { als n == 0 { antwoord [] } [mk(n - 1)] } mk(5)',
    'functie f(s) { s[0] = "y"; s } stel s = "abc"; f(s); s',
    'stel t = 0.5; functie f(x) { x + 1.5 } stel i = 0; zolang i < 5 { t = f(t); i += 1 } t',
    'functie f() { stel a = [1.5, "a"]; stel b = [a, a]; b } stel r = f(); functie g() { 1 } g(); r',
    'stel a = [1, 2]; stel b = [a, a]; b[0][0] = 9.5; functie h() { nee } h(); [a, b]',
    'functie f(n) { als n == 0 { antwoord "" } string(n) } stel xs = [f(1), f(2), f(3)]; functie z() { 0 } z(); xs',
    'stel a = [1]; stel b = [a]; a[0] = b; functie f() { [b, a] } stel c = f(); f(); 1',
    'functie f() { 1 / 0 } stel s = "x"; stel a = [s, 2.5]; f()',
    'functie f(a) { a[5] } stel q = ["s", 1.5]; f(q)',
    'functie f() { print("{}", [1.5, "x", [2]]) } f(); f()',
    'functie pair(a, b) { [a, b] } stel p = pair("l", pair(1.5, "r")); functie n() { } n(); p',
    'stel s = "héé"; functie f() { s[1] } stel c = f(); stel d = f(); [c, d, s]',
    # the pending value of the last expression statement is a root at EVERY collection point,
    # also when a procedure (no value) returns, and also when the program then simply ends
    '2.5 * 1.0; functie p() { stel t = 1 } stel r = p()',
    '[1.5, "s"]; functie p() { } stel r = p(); stel q = 7.25 + 0.0',
    '"abc"; functie p(n) { stel i = 0; zolang i < n { i += 1; stel w = [i] } } stel r = p(3)',
    'functie p() { stel z = [0.5] } functie q() { p(); [2.5] } q(); stel a = p(); stel b = p()',
    'functie h() { 0 } functie g() { h() } functie main() { stel x = 1.5 + 1.0; g(); stel y = 4.0 * 2.0; [x, y] } main()',
    'functie h(n) { als n > 0 { h(n - 1) } [n] } functie main(a) { stel s = string(a); stel l = [s, a + 0.5]; h(3); stel t = string(a + 1); [s, l, t] } main(7)',
    # a fresh activation never sees what an earlier one left in its slots (a stale word could point at a released box)
    'functie g() { stel y = [1.5]; stel z = "s"; 0 } functie f() { stel b = b; b } g(); [f(), f()]',
    'functie g(n) { stel y = [n + 0.5]; als n > 0 { g(n - 1) } 0 } functie f(a, b, c) { [a, b, c] } g(3); f(1)',
    'functie g() { stel y = "tekst"; stel w = [y, y]; w } functie h() { stel p = p; stel q = q; [type(p), type(q)] } g(); g(); h()',
]
# which of the corpus programs have a specified value (last statement is an expression statement)
ALLOC_CORPUS_WITH_VALUE = [re.search(r"stel \w+ = [^;{}]*$", s.rstrip()) is None for s in ALLOC_CORPUS]


def gen_alloc_programs(rng, n, max_depth=3, with_value_out=None):
    out = []
    for _ in range(n):
        p, st = genwf.gen_program(rng, max_depth=max_depth, alloc=0.6, end_with_statement=0.35)
        if with_value_out is not None:
            with_value_out.append(bool(st.get("__ends_with_value", 1)))
        out.append(nlast.to_source(p))
    return out


def steps_of(o):
    m = re.search(r"STEPS (\d+)", o)
    return int(m.group(1)) if m else 0


def heap_of(o):
    m = re.search(r"HEAP (\d+) (\d+) (\d+)", o)
    return tuple(int(x) for x in m.groups()) if m else None


def gc_of(o):
    m = re.search(r"GC (\d+) (\d+)", o)
    return tuple(int(x) for x in m.groups()) if m else (0, 0)


def judge_run(ctx, src, o, want, budget=None):
    """The property oracle on one implementation run."""
    head = o.split(" | ")[0]
    where = dict(source=src, observed=o[:400])
    if budget is not None:
        where["budget"] = budget
    if head.startswith("PANIC") or head.startswith("CRASH") or head.startswith("TIMEOUT"):
        if "verif-probe" in head or want == "C03":
            ctx.violate("the run hit %s" % head[:120], **where)
        return False
    hp = heap_of(o)
    runs, inexact = gc_of(o)
    if want == "C04":
        if inexact:
            ctx.violate("%d of %d collections left something unreachable behind or dropped something reachable" % (inexact, runs), **where)
            return False
        if hp and (hp[2] != 0 or hp[0] != hp[1]):
            ctx.violate("after the run (and after releasing the result) %d of %d allocated objects remain; %d were released" % (hp[2], hp[0], hp[1]), **where)
            return False
    return True
