"""Random and enumerated *syntactic* trees (not necessarily well-scoped) for C07/C08/C05."""
from nlast import *

NAMES = ["a", "b", "x", "y", "f", "g", "teller", "als_", "stelling", "jaar", "_", "x1", "é", "naïef", "данные"]
STRS = ["", "a", "hallo wereld", "é", "\"", "\\", "a\\nb", "\n", "\t", "{}", "x{}y", "🇳🇱", "//", "a\"b\\c"]
FLOATS = ["1.5", "0.0", "2.", "10.25", "3.14159", "100.0", "0.1"]
INTS = [0, 1, 2, 3, 5, 10, 42, 255, 65536, 2 ** 60 - 1]


def gen_atom(rng):
    c = rng.random()
    if c < 0.35:
        return ("int", rng.choice(INTS))
    if c < 0.6:
        return ("id", rng.choice(NAMES))
    if c < 0.7:
        return ("bool", rng.random() < 0.5)
    if c < 0.8:
        return ("float", rng.choice(FLOATS))
    return ("str", rng.choice(STRS))


def gen_expr(rng, d):
    if d <= 0 or rng.random() < 0.2:
        return gen_atom(rng)
    c = rng.random()
    if c < 0.45:
        l = gen_expr(rng, d - 1)
        while l[0] == "fn":
            l = gen_expr(rng, d - 1)
        return ("infix", rng.choice(BINOPS), l, gen_expr(rng, d - 1))
    if c < 0.55:
        return ("prefix", rng.choice(["-", "!"]), gen_expr(rng, d - 1))
    if c < 0.62:
        head = ("id", rng.choice(NAMES + BUILTINS)) if rng.random() < 0.8 else gen_fn(rng, d - 1, anon=True)
        return ("call", head, [gen_expr(rng, d - 1) for _ in range(rng.randint(0, 3))])
    if c < 0.68:
        return ("array", [gen_expr(rng, d - 1) for _ in range(rng.randint(0, 3))])
    if c < 0.75:
        base = rng.choice([("id", rng.choice(NAMES)), ("array", [gen_expr(rng, d - 2) for _ in range(rng.randint(0, 2))]), ("str", rng.choice(STRS))])
        return ("index", base, gen_expr(rng, d - 1))
    if c < 0.82:
        tgt = ("id", rng.choice(NAMES)) if rng.random() < 0.7 else ("index", ("id", rng.choice(NAMES)), gen_expr(rng, d - 2))
        if tgt[0] == "id" and rng.random() < 0.4:
            return ("assign", tgt, ("infix", rng.choice(BINOPS), tgt, gen_expr(rng, d - 1)))
        return ("assign", tgt, gen_expr(rng, d - 1))
    if c < 0.9:
        alt = None
        r = rng.random()
        if r < 0.3:
            alt = gen_block(rng, d - 1)
        elif r < 0.55:
            alt = [("expr", gen_if(rng, d - 1))]
        return ("if", gen_expr(rng, d - 1), gen_block(rng, d - 1), alt)
    if c < 0.95:
        return ("while", gen_expr(rng, d - 1), gen_block(rng, d - 1))
    return gen_fn(rng, d - 1)


def gen_if(rng, d):
    alt = None
    r = rng.random()
    if r < 0.3:
        alt = gen_block(rng, d - 1)
    elif r < 0.6 and d > 0:
        alt = [("expr", gen_if(rng, d - 1))]
    return ("if", gen_expr(rng, d - 1), gen_block(rng, d - 1), alt)


def gen_fn(rng, d, anon=False):
    name = "" if anon or rng.random() < 0.4 else rng.choice(NAMES)
    return ("fn", name, [rng.choice(NAMES) for _ in range(rng.randint(0, 3))], gen_block(rng, d))


def gen_stmt(rng, d):
    c = rng.random()
    if c < 0.5:
        return ("expr", gen_expr(rng, d))
    if c < 0.7:
        return ("let", rng.choice(NAMES), gen_expr(rng, d))
    if c < 0.78:
        return ("ret", gen_expr(rng, d))
    if c < 0.86:
        return ("block", gen_block(rng, d - 1))
    if c < 0.93:
        return ("break",)
    return ("continue",)


def gen_block(rng, d):
    if d <= 0:
        return [("expr", gen_atom(rng))] if rng.random() < 0.7 else []
    return [gen_stmt(rng, d - 1) for _ in range(rng.randint(0, 3))]


def gen_program(rng, d=4):
    return [gen_stmt(rng, d) for _ in range(rng.randint(1, 4))]


def enum_exprs(depth, atoms):
    """All expression trees of infix/prefix operators up to the given depth over the atoms."""
    if depth == 0:
        return list(atoms)
    sub = enum_exprs(depth - 1, atoms)
    out = list(atoms)
    for op in BINOPS:
        for l in sub:
            for r in sub:
                out.append(("infix", op, l, r))
    for op in ("-", "!"):
        for r in sub:
            out.append(("prefix", op, r))
    return out
