"""Correspondence of the compiler and VM stages (shared by C01, C02, C09-C14, C16, C17)."""
import re
import vlib, front


def canon_eval(o):
    """implementation observation -> the canonical text the model renders"""
    parts = o.split(" | ")
    if len(parts) < 5:
        return o
    res, out, steps, heap = parts[0], parts[1], parts[2], parts[3]
    if res.startswith("OK "):
        # NaN payload and sign are not visible inside Coq
        res = re.sub(r"F(7ff[89a-f][0-9a-f]{12}|fff[89a-f][0-9a-f]{12}|7ff[0-7][0-9a-f]{12}|fff[0-7][0-9a-f]{12})",
                     lambda m: "F7ff8000000000000" if int(m.group(1), 16) & 0x000fffffffffffff else "F" + m.group(1), res)
    if steps == "STEPS 0" and res.startswith("ERR"):
        heap = "HEAP -"
    else:
        h = heap.split()
        heap = "HEAP %s %s" % (h[1], h[3])
    return " | ".join([res, out, steps, heap])


def oracle_from_obs(obs_lines):
    stab, ptab, rtab = {}, {}, {}
    for o in obs_lines:
        if " | ORC" not in o:
            continue
        for ent in o.split(" | ORC")[-1].split():
            f = ent.split(":")
            if f[0] == "show":
                stab[f[1]] = f[2]
            elif f[0] == "parse":
                ptab[f[1]] = f[2]
            elif f[0] == "rem":
                rtab[(f[1], f[2])] = f[3]
    return stab, ptab, rtab


def cps_to_coq(t):
    return "[]" if t == "-" else "[" + ";".join(x + "%N" for x in t.split(".")) + "]"


def header(utab, lit_pt, stab, ptab, rtab):
    pt = list(lit_pt)
    for t, b in sorted(ptab.items()):
        pt.append("(%s, %s)" % (cps_to_coq(t), "None" if b == "none" else "Some " + vlib.coq_float(b)))
    st = ["(%s, %s)" % (vlib.coq_float(b), cps_to_coq(t)) for b, t in sorted(stab.items())]
    rt = ["(%s, %s, %s)" % (vlib.coq_float(a), vlib.coq_float(b), vlib.coq_float(r)) for (a, b), r in sorted(rtab.items())]
    return ("From NL.Corr Require Import CorrRun.\nOpen Scope Z_scope.\n"
            "Definition utab : list (N * bool * bool) := [%s].\n"
            "Definition stab : list (float * text) := [%s].\n"
            "Definition ptab : list (text * option float) := [%s].\n"
            "Definition rtab : list (float * float * float) := [%s].\n" % ("; ".join(utab), "; ".join(st), "; ".join(pt), "; ".join(rt)))


def run_corr(ctx, sources, log, budget=20000, stages=("compile", "eval"), shard_size=150, label="run", profile="release"):
    """Feeds the sources to the implementation (compile: bytes + pool; eval: value graph, output,
    steps, ledger) and to Compiler.v/VM.v inside Coq.  Returns {stage: [impl observation]}."""
    obs = {}
    hexs = [vlib.hexs(s) for s in sources]
    if "compile" in stages:
        obs["compile"] = vlib.nlh("compile", hexs, tag=ctx.prop.lower() + "c", profile=profile)
    if "eval" in stages:
        obs["eval"] = vlib.nlh("eval", ["%d %s" % (budget, h) for h in hexs], tag=ctx.prop.lower() + "e", profile=profile)
    utab, lit_pt = front.oracle_tables(sources, tag=ctx.prop.lower())
    stab, ptab, rtab = oracle_from_obs(obs.get("eval", []))
    hdr = header(utab, lit_pt, stab, ptab, rtab)
    items, index = [], []
    for st in stages:
        for i, (s, o) in enumerate(zip(sources, obs[st])):
            if o.startswith("OOM"):
                ctx.count("corr-skipped-oom")      # the address-space limit is not part of the model
                continue
            if st == "compile":
                items.append("RCompile %s %s" % (vlib.coq_text(s), vlib.coq_hash(o)))
            else:
                items.append("REval %d %s %s" % (budget, vlib.coq_text(s), vlib.coq_hash(canon_eval(o))))
            index.append((st, i))
    footer = lambda: "Eval vm_compute in (mismatches (check utab stab ptab rtab) cases)."
    shards, results, errors = vlib.run_coq_shards(ctx.prop, hdr, items, footer, shard_size=shard_size, tag=label, timeout=1500)
    for e in errors:
        ctx.broken.append(dict(kind="corr-shard", what=e))
    bad_global = []
    off = 0
    for k, sh in enumerate(shards):
        if k in results:
            bad = vlib.parse_index_list(results[k])
            if bad is None:
                ctx.broken.append(dict(kind="corr-output", what=results[k][-300:]))
            else:
                bad_global += [off + j for j in bad]
        off += len(sh)
    for n, gi in enumerate(bad_global):
        st, i = index[gi]
        model = "(not recomputed)"
        if n < 6:
            fn = "model_compile utab stab ptab rtab %s" % vlib.coq_text(sources[i]) if st == "compile" else "model_eval utab stab ptab rtab %d %s" % (budget, vlib.coq_text(sources[i]))
            sh2, res2, err2 = vlib.run_coq_shards(ctx.prop, hdr, ["0%N"], lambda: "Eval vm_compute in (%s)." % fn, tag=label + "m")
            model = front.decode_text_output(res2.get(0, "")) if res2 else None
        impl = obs[st][i] if st == "compile" else canon_eval(obs[st][i])
        ctx.disagree("compiler" if st == "compile" else "vm", source=sources[i], impl=impl, model=model)
    log("%s: %d sources x %s in Coq, %d disagreements" % (label, len(sources), "+".join(stages), len(bad_global)))
    return obs


def run_corr_budgets(ctx, sources, budgets, obs_eval, log, shard_size=150, label="run-k"):
    """eval stage only, with one instruction budget per case; the implementation's observations are given"""
    utab, lit_pt = front.oracle_tables(sources, tag=ctx.prop.lower())
    stab, ptab, rtab = oracle_from_obs(obs_eval)
    hdr = header(utab, lit_pt, stab, ptab, rtab)
    items = ["REval %d %s %s" % (b, vlib.coq_text(s), vlib.coq_hash(canon_eval(o))) for s, b, o in zip(sources, budgets, obs_eval)]
    footer = lambda: "Eval vm_compute in (mismatches (check utab stab ptab rtab) cases)."
    shards, results, errors = vlib.run_coq_shards(ctx.prop, hdr, items, footer, shard_size=shard_size, tag=label, timeout=1500)
    for e in errors:
        ctx.broken.append(dict(kind="corr-shard", what=e))
    off = 0
    nbad = 0
    for k, sh in enumerate(shards):
        if k in results:
            bad = vlib.parse_index_list(results[k])
            if bad is None:
                ctx.broken.append(dict(kind="corr-output", what=results[k][-300:]))
            else:
                for j in bad:
                    nbad += 1
                    gi = off + j
                    ctx.disagree("vm", source=sources[gi], budget=budgets[gi], impl=canon_eval(obs_eval[gi]), model="VM.v renders a different observation at this budget")
        off += len(sh)
    log("%s: %d (source, budget) pairs in Coq, %d disagreements" % (label, len(items), nbad))


FUN_RE = re.compile(r"(?<![0-9a-fA-F#=S.])f\d+\.\d+")


def canon_graph(res):
    """value graph without identity for floats (immutable: sharing of a float box is unobservable); the other
    objects renumbered by first appearance"""
    fl = dict(re.findall(r"#(\d+)=(F[0-9a-f]{16})", res))
    if not fl:
        return res
    res = re.sub(r"#(\d+)=(F[0-9a-f]{16})", lambda m: m.group(2), res)
    res = re.sub(r"#(\d+)(?![\d=])", lambda m: fl.get(m.group(1), m.group(0)), res)
    new = {}

    def ren(m):
        k = m.group(1)
        if k not in new:
            new[k] = str(len(new))
        return "#" + new[k]
    return re.sub(r"#(\d+)", ren, res)


def canon_sem(o):
    """implementation observation -> what Sem.v renders: result (functions as `fn`), output"""
    parts = o.split(" | ")
    if len(parts) < 2:
        return o
    res, out = parts[0], parts[1]
    if res.startswith("OK "):
        res = canon_eval(o).split(" | ")[0]
        res = canon_graph(FUN_RE.sub("fn", res))
    return res + " | " + out


def run_sem(ctx, sources, obs_eval, log, fuel=3000, shard_size=100, label="sem", with_value=None, oracle_extra=None):
    """Specification oracle: the implementation's observation of every source against Sem.v evaluated
    inside Coq on the parser model's tree.  A mismatch is a VIOLATION candidate (the implementation
    contradicts the definitional semantics), returned as a list of indices; cases the implementation
    cut short (BUDGET) are skipped."""
    utab, lit_pt = front.oracle_tables(sources, tag=ctx.prop.lower() + "s")
    stab, ptab, rtab = oracle_from_obs(obs_eval)
    if oracle_extra:
        for d, e in zip((stab, ptab, rtab), oracle_extra):
            d.update(e)
    hdr = header(utab, lit_pt, stab, ptab, rtab).replace("Import CorrRun.", "Import CorrRun CorrSem.")
    items, index = [], []
    obs_eval = list(obs_eval)
    # a run the budget cut short is repeated with a much larger budget: if it still does not finish although the
    # semantics does, that is a disagreement like any other (a program that spins where its source does not)
    cut = [i for i, o in enumerate(obs_eval) if o.startswith("BUDGET")]
    if cut:
        again = vlib.nlh("eval", ["3000000 " + vlib.hexs(sources[i]) for i in cut], tag=ctx.prop.lower() + "sb", timeout=600)
        for i, o in zip(cut, again):
            obs_eval[i] = o
            ctx.count("sem-rerun-after-budget")
    for i, (s, o) in enumerate(zip(sources, obs_eval)):
        if o.startswith("CRASH") or o.startswith("TIMEOUT"):
            ctx.count("sem-skipped-crash")
            continue
        wv = True if with_value is None else with_value[i]
        c = canon_sem(o)
        if not wv and c.startswith("OK "):
            c = "OK | " + c.split(" | ", 1)[1]
        items.append("SCase %s %d %s %s" % ("true" if wv else "false", fuel, vlib.coq_text(s), vlib.coq_hash(c)))
        index.append(i)
    footer = lambda: "Eval vm_compute in (mismatches (scheck utab stab ptab rtab) cases)."
    shards, results, errors = vlib.run_coq_shards(ctx.prop, hdr, items, footer, shard_size=shard_size, tag=label, timeout=1500)
    for e in errors:
        ctx.broken.append(dict(kind="corr-shard", what=e))
    bad = []
    off = 0
    for k, sh in enumerate(shards):
        if k in results:
            b = vlib.parse_index_list(results[k])
            if b is None:
                ctx.broken.append(dict(kind="corr-output", what=results[k][-300:]))
            else:
                bad += [index[off + j] for j in b]
        off += len(sh)
    out = []
    for n, i in enumerate(bad):
        spec = "(not recomputed)"
        if n < 40:
            wv = True if with_value is None else with_value[i]
            fn = "model_sem utab stab ptab rtab %s %d %s" % ("true" if wv else "false", fuel, vlib.coq_text(sources[i]))
            sh2, res2, err2 = vlib.run_coq_shards(ctx.prop, hdr, ["0%N"], lambda: "Eval vm_compute in (%s)." % fn, tag=label + "m")
            spec = front.decode_text_output(res2.get(0, "")) if res2 else None
        if spec is not None and spec.startswith("BUDGET"):
            ctx.count("sem-out-of-fuel-unjudged")     # recursion deeper than the evaluator's fuel: a resource limit, nothing is judged
            continue
        out.append((i, canon_sem(obs_eval[i]), spec))
    log("%s: %d sources against Sem.v in Coq, %d contradict the specification" % (label, len(items), len(out)))
    return out
