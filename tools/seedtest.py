#!/usr/bin/env python3
"""Runs the registered checks against a seeded change:  seedtest.py <patch.diff> [C01 C02 ...]
Applies the patch to /repo (working tree only), runs `./check Cnn --tier quick` for the given properties
(default: all), restores /repo, prints which checks raised an alarm.  Never commits anything."""
import json, os, subprocess, sys, time
ROOT = os.path.dirname(os.path.dirname(os.path.abspath(__file__)))
REPO = os.environ.get("VERIF_REPO", "/repo")   # an isolated copy may be used (harness/Cargo.toml of that copy must point at it)


def main():
    patch = os.path.abspath(sys.argv[1])
    props = sys.argv[2:] or ["C%02d" % i for i in range(1, 18)]
    st = subprocess.run(["git", "-C", REPO, "status", "--porcelain"], stdout=subprocess.PIPE, text=True).stdout.strip()
    if st:
        print("refusing: the repository working tree is not clean:\n" + st)
        return 2
    r = subprocess.run(["git", "-C", REPO, "apply", patch], stdout=subprocess.PIPE, stderr=subprocess.STDOUT, text=True)
    if r.returncode != 0:
        print("patch does not apply: " + r.stdout)
        return 2
    res = {}
    try:
        for p in props:
            t0 = time.time()
            env = dict(os.environ, VERIF_EVIDENCE_DIR="/tmp/seedtest_evidence")
            q = subprocess.run([os.path.join(ROOT, "check"), p, "--tier", "quick"], cwd=ROOT, env=env, stdout=subprocess.PIPE, stderr=subprocess.STDOUT, text=True, timeout=3600)
            vio = [l for l in q.stdout.split("\n") if l.startswith("VIOLATION")]
            res[p] = dict(exit=q.returncode, violations=vio[:3], wall=round(time.time() - t0, 1))
            print("%s exit=%d %s (%.0fs)" % (p, q.returncode, vio[:1], time.time() - t0), flush=True)
    finally:
        subprocess.run(["git", "-C", REPO, "checkout", "--", "."])
        subprocess.run([sys.executable, os.path.join(ROOT, "tools", "translate.py")], stdout=subprocess.DEVNULL)
    caught = [p for p, v in res.items() if v["exit"] != 0]
    print(json.dumps(dict(patch=patch, caught_by=caught, results=res)))
    return 0


if __name__ == "__main__":
    sys.exit(main())
