"""Transformations of syntax trees (nlast tuple form) used by the metamorphic parts of C09 / C10."""
from nlast import BUILTINS


def walk(t, f):
    """bottom-up rewrite: f(node) -> node for every tuple node"""
    if isinstance(t, tuple):
        return f(tuple(walk(x, f) for x in t))
    if isinstance(t, list):
        return [walk(x, f) for x in t]
    return t


def names_in(t):
    out = set()

    def visit(x):
        if isinstance(x, tuple):
            if x and x[0] == "id":
                out.add(x[1])
            elif x and x[0] == "let":
                out.add(x[1])
            elif x and x[0] == "fn":
                if x[1]:
                    out.add(x[1])
                out.update(x[2])
            for y in x:
                visit(y)
        elif isinstance(x, list):
            for y in x:
                visit(y)
    visit(t)
    return out


def rename(t, old, new):
    """every occurrence of the identifier `old` (declarations, parameters, function names, uses)"""
    def f(n):
        if n[0] == "id" and n[1] == old:
            return ("id", new)
        if n[0] == "let" and n[1] == old:
            return ("let", new, n[2])
        if n[0] == "fn":
            return ("fn", new if n[1] == old else n[1], [new if p == old else p for p in n[2]], n[3])
        return n
    return walk(t, f)


def ident_uses(t):
    """number of identifier USES that are not builtin call heads"""
    cnt = [0]

    def visit(x, head=False):
        if isinstance(x, tuple):
            if x and x[0] == "id":
                if not (head and x[1] in BUILTINS):
                    cnt[0] += 1
                return
            if x and x[0] == "call":
                visit(x[1], head=True)
                visit(x[2])
                return
            for y in x[1:]:
                visit(y)
        elif isinstance(x, list):
            for y in x:
                visit(y)
    visit(t)
    return cnt[0]


def replace_use(t, k, newname):
    """the k-th identifier use (in ident_uses order) replaced by newname"""
    cnt = [0]

    def visit(x, head=False):
        if isinstance(x, tuple):
            if x and x[0] == "id":
                if head and x[1] in BUILTINS:
                    return x
                cnt[0] += 1
                return ("id", newname) if cnt[0] - 1 == k else x
            if x and x[0] == "call":
                return ("call", visit(x[1], head=True), visit(x[2]))
            return (x[0],) + tuple(visit(y) for y in x[1:])
        if isinstance(x, list):
            return [visit(y) for y in x]
        return x
    return visit(t)


def inner_blocks(t):
    """number of inner blocks (if/else/while/function bodies and bare blocks)"""
    cnt = [0]

    def visit(x):
        if isinstance(x, tuple):
            if x and x[0] in ("if",):
                cnt[0] += 1
                if x[3] is not None:
                    cnt[0] += 1
            elif x and x[0] in ("while", "fn", "block"):
                cnt[0] += 1
            for y in x[1:]:
                visit(y)
        elif isinstance(x, list):
            for y in x:
                visit(y)
    visit(t)
    return cnt[0]


def insert_in_block(t, k, stmt_for):
    """stmt_for(block) -> statement or None; inserted at the front of the k-th inner block"""
    cnt = [0]

    def blk(b):
        cnt[0] += 1
        b2 = visit(b)
        if cnt_target[0] == -1 and cnt[0] - 1 == k:
            pass
        return b2

    cnt_target = [k]

    def take(b):
        i = cnt[0]
        cnt[0] += 1
        b2 = [visit(s) for s in b]
        if i == k:
            s = stmt_for(b)
            if s is not None:
                return [s] + b2
        return b2

    def visit(x):
        if isinstance(x, tuple):
            if x and x[0] == "if":
                c = visit(x[1])
                th = take(x[2])
                el = take(x[3]) if x[3] is not None else None
                return ("if", c, th, el)
            if x and x[0] == "while":
                return ("while", visit(x[1]), take(x[2]))
            if x and x[0] == "fn":
                return ("fn", x[1], x[2], take(x[3]))
            if x and x[0] == "block":
                return ("block", take(x[1]))
            return (x[0],) + tuple(visit(y) for y in x[1:])
        if isinstance(x, list):
            return [visit(y) for y in x]
        return x
    return visit(t)
