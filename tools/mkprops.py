#!/usr/bin/env python3
"""Generates coq/props/Cnn.v from a list of proved lemmas: each becomes
     Theorem name : <statement as Coq prints it>.  Proof. exact Module.name. Qed.
   followed by Print Assumptions.  The statements are re-parsed by Coq when the file is compiled, so a
   statement that changed in the proofs file no longer matches and the property file fails to build.
   usage: mkprops.py C09 spec.json      (spec: {"header": str, "imports": [..], "theorems": [[module, lemma, comment, newname?], ...], "extra": str})"""
import json, os, re, subprocess, sys
ROOT = os.path.dirname(os.path.dirname(os.path.abspath(__file__)))
COQ = os.path.join(ROOT, "coq")


def statements(imports, names):
    path = "/tmp/mkprops_%d.v" % os.getpid()
    with open(path, "w") as f:
        for i in imports:
            f.write(i + "\n")
        f.write("Set Printing Width 100000.\nSet Printing Depth 100000.\n")
        for mod, n in names:
            f.write('Goal True. idtac "@@BEGIN %s". exact I. Qed.\nCheck %s.%s.\n' % (n, mod, n))
        f.write('Goal True. idtac "@@BEGIN END". exact I. Qed.\n')
    out = subprocess.run([os.path.join(COQ, "cq"), path], stdout=subprocess.PIPE, stderr=subprocess.STDOUT, text=True).stdout
    for ext in (".v", ".vo", ".vok", ".vos", ".glob"):
        try:
            os.unlink(path[:-2] + ext)
        except OSError:
            pass
    res = {}
    chunks = re.split(r"@@BEGIN (\S+)", out)
    for i in range(1, len(chunks) - 1, 2):
        name, body = chunks[i], chunks[i + 1]
        if name == "END":
            continue
        m = re.search(r"^\S+\s*\n?\s*:\s*(.*)$", body.strip(), re.S)
        if not m:
            raise SystemExit("cannot read statement of %s: %s" % (name, body[:300]))
        res[name] = " ".join(m.group(1).split())
    return res


def main():
    prop, specfile = sys.argv[1], sys.argv[2]
    spec = json.load(open(specfile))
    names = [(t[0], t[1]) for t in spec["theorems"]]
    st = statements(spec["imports"], names)
    lines = ["(* %s *)" % spec["header"]]
    lines += spec["imports"]
    lines.append(spec.get("preamble", ""))
    finals = []
    for t in spec["theorems"]:
        mod, n, comment = t[0], t[1], t[2]
        new = t[3] if len(t) > 3 else n
        finals.append(new)
        lines.append("\n(* %s *)" % comment)
        lines.append("Theorem %s : %s." % (new, st[n]))
        lines.append("Proof. exact %s.%s. Qed." % (mod, n))
    lines.append("")
    lines.append(spec.get("extra", ""))
    for n in finals:
        lines.append("Print Assumptions %s." % n)
    with open(os.path.join(COQ, "props", prop + ".v"), "w") as f:
        f.write("\n".join(lines) + "\n")
    print("wrote props/%s.v with %d theorems" % (prop, len(finals)))


if __name__ == "__main__":
    main()
