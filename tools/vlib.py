"""Shared machinery of ./check: build steps, Coq evaluation of correspondence cases, audit,
evidence and replay files.  See DESIGN.md sections 3 and 8."""
import fcntl, hashlib, json, os, random, re, struct, subprocess, sys, time

ROOT = os.path.dirname(os.path.dirname(os.path.abspath(__file__)))
REPO = os.environ.get("VERIF_REPO", "/repo")
COQ = os.path.join(ROOT, "coq")
WORK = os.path.join(ROOT, "work")
TARGET = os.path.join(WORK, "target")
NLH = os.environ.get("VERIF_NLH") or os.path.join(TARGET, "release", "nlh")     # (override: coverage measurement of the checks themselves)
NLH_DEBUG = os.path.join(TARGET, "debug", "nlh")
QFLAGS = ["-Q", "gen", "NL.Gen", "-Q", "model", "NL.Model", "-Q", "spec", "NL.Spec", "-Q", "proofs", "NL.Proofs",
          "-Q", "props", "NL.Props", "-Q", "corr", "NL.Corr"]
COQ_WARN = ["-w", "-notation-overridden,-deprecated-hint-without-locality,-deprecated-instance-without-locality"]
ENV = dict(os.environ, CARGO_NET_OFFLINE="true", CARGO_TARGET_DIR=TARGET)

TRUSTED_BASE = [
    "Coq 8.16.1 kernel incl. vm_compute (no native_compute)",
    "no axioms declared by the development; Print Assumptions output checked against an allow-list on every run",
    "tools/translate.py (Rust source -> coq/gen/Tables.v), cross-checked against the compiled crate's own tables",
    "correspondence check: tools/*.py generators, Rust harness nlh (cargo feature verif hooks), canonical renderings",
    "oracles (Section variables / record fields, never axioms): f64 % f64, f64::to_string, str::parse::<f64>, Unicode alphabetic/alphanumeric for code points >= 128",
    "modelled, not verified: rustc + std (Vec, String, HashMap), bitvec, system allocator (non-null 8-aligned blocks; alignment observed), the hooks themselves",
]


class Lock:
    def __init__(self, name):
        os.makedirs(WORK, exist_ok=True)
        self.path = os.path.join(WORK, name + ".lock")

    def __enter__(self):
        self.f = open(self.path, "w")
        fcntl.flock(self.f, fcntl.LOCK_EX)

    def __exit__(self, *a):
        fcntl.flock(self.f, fcntl.LOCK_UN)
        self.f.close()


def sh(cmd, cwd=None, timeout=3600, env=None):
    p = subprocess.run(cmd, cwd=cwd, timeout=timeout, env=env or ENV, stdout=subprocess.PIPE, stderr=subprocess.STDOUT, text=True, errors="replace")
    return p.returncode, p.stdout


# ------------------------------------------------------------------------------- build steps

def translate():
    rc, out = sh([sys.executable, os.path.join(ROOT, "tools", "translate.py")])
    return rc, out.strip()


def coq_files():
    files = []
    with open(os.path.join(COQ, "_CoqProject")) as f:
        for l in f:
            l = l.strip()
            if l.endswith(".v"):
                files.append(l)
    return files


def make_target(target, timeout=3000):
    """Full .vo build of one target (and its dependency cone only)."""
    with Lock("coq"):
        mk = os.path.join(COQ, "Makefile")
        if not os.path.exists(mk) or os.path.getmtime(mk) < os.path.getmtime(os.path.join(COQ, "_CoqProject")):
            sh(["coq_makefile", "-f", "_CoqProject", "-o", "Makefile"], cwd=COQ)
        cmd = ["timeout", str(timeout), "make", "-j16", target]
        rc, out = sh(cmd, cwd=COQ, timeout=timeout + 60)
        return rc, out, " ".join(cmd)


def build_harness(profile="release"):
    with Lock("cargo"):
        lock = os.path.join(ROOT, "harness", "Cargo.lock")
        if not os.path.exists(lock):
            import shutil
            shutil.copy(os.path.join(REPO, "Cargo.lock"), lock)
        cmd = ["cargo", "build", "--offline"] + (["--release"] if profile == "release" else [])
        rc, out = sh(cmd, cwd=os.path.join(ROOT, "harness"), timeout=1800)
        return rc, out


PROD_TARGET = os.path.join(WORK, "target-prod")
PROD_BIN = os.path.join(PROD_TARGET, "release", "nederlang")


def build_production():
    """the crate's own command-line program, built from the working tree WITHOUT the observation feature: the code a
    user runs (print!, the real deallocation, the float spelling outside the hooks)"""
    with Lock("cargo"):
        cmd = ["cargo", "build", "--offline", "--release", "--bin", "nederlang", "--manifest-path", os.path.join(REPO, "Cargo.toml"), "--target-dir", PROD_TARGET]
        return sh(cmd, cwd=REPO, timeout=1800)


def run_production(sources, timeout=20):
    """-> list of (returncode, stdout bytes, stderr text) of the production binary on each source (one process each)"""
    import tempfile
    out = []
    d = tempfile.mkdtemp(prefix="nlprod", dir=os.path.join(WORK, "cases"))
    try:
        for i, src in enumerate(sources):
            path = os.path.join(d, "p%d.nl" % i)
            with open(path, "w", encoding="utf-8") as f:
                f.write(src)
            try:
                p = subprocess.run(["prlimit", "--as=4294967296", PROD_BIN, path], stdout=subprocess.PIPE, stderr=subprocess.PIPE, timeout=timeout)
                out.append((p.returncode, p.stdout, p.stderr.decode("utf-8", "replace")))
            except subprocess.TimeoutExpired:
                out.append((None, b"", "TIMEOUT"))
            os.unlink(path)
    finally:
        try:
            os.rmdir(d)
        except OSError:
            pass
    return out


def crosscheck_tables():
    """The translator's reading of the source against what the compiled crate itself reports (opcode bytes, names,
    operand widths; builtin bytes and names): a check on the translator.  Returns a list of differences."""
    try:
        p = subprocess.run([NLH, "tables", "-"], stdout=subprocess.PIPE, stderr=subprocess.PIPE, text=True, timeout=60)
    except Exception as e:
        return ["harness tables: %r" % e]
    src = open(os.path.join(COQ, "gen", "Tables.v"), encoding="utf-8").read()
    ops = re.search(r"Definition opcode_list : list opcode := \[(.*?)\]\.", src, re.S).group(1).replace(" ", "").split(";")
    widths = dict(re.findall(r"\| (O\w+) => \[(.*?)\]", src))
    blt = re.search(r"Definition builtin_list : list builtin := \[(.*?)\]\.", src, re.S).group(1).replace(" ", "").split(";")
    bnames = dict((b, n) for n, b in re.findall(r'\("(\w+)", (B\w+)\)', re.search(r"Definition builtin_names.*?\.\n", src, re.S).group(0)))
    diffs = []
    seen_ops = 0
    for line in p.stdout.split("\n"):
        f = line.split()
        if not f:
            continue
        if f[0] == "opcode":
            b, name = int(f[1]), f[2]
            w = [x for x in (f[3].split(",") if len(f) > 3 else []) if x]
            seen_ops += 1
            if b >= len(ops) or ops[b] != "O" + name:
                diffs.append("opcode byte %d is %s in the crate, %s in Tables.v" % (b, name, ops[b] if b < len(ops) else "-"))
            else:
                tw = [x.replace("%nat", "").strip() for x in widths.get("O" + name, "").split(";") if x.strip()]
                if tw != w:
                    diffs.append("operand widths of %s: crate %s, Tables.v %s" % (name, w, tw))
        elif f[0] == "builtin":
            b, name = int(f[1]), f[2]
            if b >= len(blt) or bnames.get(blt[b]) != name:
                diffs.append("builtin byte %d is %s in the crate, %s in Tables.v" % (b, name, bnames.get(blt[b]) if b < len(blt) else "-"))
    if seen_ops != len(ops):
        diffs.append("the crate reports %d opcodes, Tables.v has %d" % (seen_ops, len(ops)))
    return diffs


TIMEOUTS_TOTAL = 0


def nlh(cmd, lines, profile="release", timeout=600, tag="cases"):
    """Runs the harness on the given case lines; returns one observation per line.
    A crash of the harness process (abort, native stack overflow) is turned into a CRASH
    observation for the case it died on, and the run continues behind it."""
    os.makedirs(os.path.join(WORK, "cases"), exist_ok=True)
    exe = NLH if profile == "release" else NLH_DEBUG
    out = []
    start = 0
    lines = list(lines)
    timeouts = 0
    global TIMEOUTS_TOTAL
    while start < len(lines):
        if TIMEOUTS_TOTAL >= 8:
            # this build hangs wherever it is asked: the check has its alarm, do not wait for the rest
            out.extend(["TIMEOUT-SKIPPED"] * (len(lines) - start))
            break
        if timeouts >= 4:
            # a build that hangs again and again: do not wait for every remaining case
            out.extend(["TIMEOUT-SKIPPED"] * (len(lines) - start))
            break
        path = os.path.join(WORK, "cases", "%s_%d_%d.txt" % (tag, os.getpid(), start))
        with open(path, "w") as f:
            f.write("\n".join(lines[start:]) + "\n")
        try:
            p = subprocess.run(["prlimit", "--as=4294967296", exe, cmd, path], stdout=subprocess.PIPE, stderr=subprocess.PIPE, timeout=(timeout if (timeouts == 0 and TIMEOUTS_TOTAL < 2) else min(timeout, 60)), text=True, errors="replace")
            got = p.stdout.split("\n")
            if got and got[-1] == "":
                got.pop()
            # the allocator giving up (a program that spells out unbounded growth under the address-space limit) is
            # resource exhaustion, not a crash of the interpreter's logic
            status = "OOM" if "memory allocation of" in (p.stderr or "")[-2000:] else "CRASH rc=%d" % p.returncode
        except subprocess.TimeoutExpired as e:
            got = (e.stdout or b"").decode("utf-8", "replace").split("\n") if isinstance(e.stdout, bytes) else (e.stdout or "").split("\n")
            if got and got[-1] == "":
                got.pop()
            # the last line may be partial
            status = "TIMEOUT"
            timeouts += 1
            TIMEOUTS_TOTAL += 1
        os.unlink(path)
        need = len(lines) - start
        if len(got) >= need:
            out.extend(got[:need])
            break
        out.extend(got)
        out.append(status)
        start += len(got) + 1
    return out


# ------------------------------------------------------------------------------- Coq evaluation

def coq_float(bits_hex):
    """A Coq float literal for an IEEE-754 binary64 bit pattern (all NaNs are one nan in Coq)."""
    x = struct.unpack(">d", bytes.fromhex(bits_hex))[0]
    if x != x:
        return "nan"
    if x == float("inf"):
        return "infinity"
    if x == float("-inf"):
        return "neg_infinity"
    if x == 0.0:
        return "(-0)%float" if bits_hex[0] in "89abcdef" else "0%float"
    h = x.hex()
    if h.startswith("-"):
        return "(-%s)%%float" % h[1:]
    return "(%s)%%float" % h


def coq_text(s):
    """A Coq term of type `text` for a Python str: three 21-bit code points per primitive 63-bit integer."""
    cps = [ord(c) for c in s]
    n = len(cps)
    while len(cps) % 3:
        cps.append(0)
    words = ["%d" % ((cps[i] << 42) | (cps[i + 1] << 21) | cps[i + 2]) for i in range(0, len(cps), 3)]
    return "(T %d [%s]%%uint63)" % (n, ";".join(words))


def coq_hash(s):
    """The 63-bit rolling hash of corr/CorrBase.v (hash_text) as a Coq literal."""
    h = 7
    for c in s:
        h = (h * 1000003 + ord(c) + 1) & 0x7FFFFFFFFFFFFFFF
    return "%d%%uint63" % h


def coq_z(z):
    return "(%d)" % z


def run_coq_shards(prop, header, items, footer_fn, shard_size=400, timeout=900, tag="corr"):
    """items: list of Coq terms (one per case).  Writes shards
         <header> Definition cases := [ ... ]. <footer_fn()>
       and returns (list of mismatching global indices, errors)."""
    os.makedirs(os.path.join(WORK, "cases"), exist_ok=True)
    shards = [items[i:i + shard_size] for i in range(0, len(items), shard_size)]
    procs = []
    results = {}
    errors = []
    running = []

    def launch(k):
        name = "%s_%s_%d_%d" % (prop, re.sub(r"[^A-Za-z0-9_]", "_", tag), os.getpid(), k)
        path = os.path.join(WORK, "cases", name + ".v")
        with open(path, "w", encoding="utf-8") as f:
            f.write("From Coq Require Import Uint63 Floats.\n" + header + "\n")
            f.write("Definition cases := [\n" + ";\n".join(shards[k]) + "\n].\n")
            f.write(footer_fn() + "\n")
        p = subprocess.Popen(["timeout", str(timeout), "coqc", "-noglob"] + COQ_WARN + QFLAGS + [path], cwd=COQ, stdout=subprocess.PIPE, stderr=subprocess.STDOUT, text=True, errors="replace")
        return (k, p, path)

    pending = list(range(len(shards)))
    while pending or running:
        while pending and len(running) < 16:
            running.append(launch(pending.pop(0)))
        k, p, path = running.pop(0)
        out, _ = p.communicate()
        base = path[:-2]
        for ext in (".v", ".vo", ".vok", ".vos", ".glob"):
            if os.path.exists(base + ext) and not os.environ.get("VERIF_KEEP"):
                os.unlink(base + ext)
        d = os.path.dirname(path)
        aux = os.path.join(d, "." + os.path.basename(base) + ".aux")
        if os.path.exists(aux):
            os.unlink(aux)
        if p.returncode != 0:
            errors.append("shard %d: coqc rc=%d: %s" % (k, p.returncode, out[-800:]))
            continue
        results[k] = out
    return shards, results, errors


def parse_index_list(out):
    """Parses `= [1%N; 5%N] : list N` printed by Eval vm_compute."""
    m = re.search(r"=\s*(\[.*?\])\s*:\s*list N", out, re.S)
    if not m:
        return None
    return [int(x) for x in re.findall(r"\d+", m.group(1).replace("%N", ""))]


# ------------------------------------------------------------------------------- audit

FORBIDDEN = re.compile(r"\b(Admitted|admit|Axiom|Axioms|Parameter|Parameters|Conjecture|Admit Obligations|Unset Guard Checking|bypass_check|Unset Positivity Checking|Unset Universe Checking|type-in-type|impredicative-set)\b")
# the type of a kernel primitive mentions only primitive types
PRIMITIVE_TYPE = re.compile(r"^(?:(?:float|PrimInt63\.int|Uint63\.int|int|bool|Set|comparison|float_comparison|float_class|PrimFloat\.float_comparison|PrimFloat\.float_class|carry\s+\S+|->|\*|\(|\))\s*)+$")
# axioms the standard library itself declares about the primitives (Coq.Floats.FloatAxioms, Coq.Numbers.Cyclic.Int63.Uint63)
STDLIB_AXIOMS = set("""Prim2SF_valid SF2Prim_Prim2SF Prim2SF_SF2Prim opp_spec abs_spec eqb_spec ltb_spec leb_spec compare_spec classify_spec
mul_spec add_spec sub_spec div_spec sqrt_spec of_uint63_spec normfr_mantissa_spec frshiftexp_spec ldshiftexp_spec next_up_spec next_down_spec
Leibniz.eqb_spec of_to_Z lsl_spec lsr_spec land_spec lor_spec lxor_spec addc_def_spec addcarryc_def_spec subc_def_spec subcarryc_def_spec
diveucl_def_spec diveucl_21_spec addmuldiv_def_spec eqb_refl eqb_correct head0_spec tail0_spec mod_spec mulc_spec div_spec ltb_spec leb_spec
compare_def_spec""".split())
ALLOWED_ASSUMPTION = re.compile(r"^(PrimFloat\.|Uint63\.|PrimInt63\.|Sint63\.|float\b|int\b|PArray\.)")


def strip_coq_comments(s):
    out = []
    depth = 0
    i = 0
    while i < len(s):
        if s.startswith("(*", i):
            depth += 1
            i += 2
        elif s.startswith("*)", i) and depth > 0:
            depth -= 1
            i += 2
        else:
            if depth == 0:
                out.append(s[i])
            i += 1
    return "".join(out)


def audit_sources():
    """Greps the whole development (not the generated cases) for anything that declares an axiom
    or switches off a kernel check."""
    bad = []
    for rel in coq_files():
        with open(os.path.join(COQ, rel), encoding="utf-8") as f:
            src = strip_coq_comments(f.read())
        # string literals may contain anything
        src = re.sub(r'"(?:[^"]|"")*"', '""', src)
        for m in FORBIDDEN.finditer(src):
            bad.append("%s: %s" % (rel, m.group(0)))
        # Variable/Hypothesis outside a section
        depth = 0
        for line in src.split("\n"):
            if re.match(r"\s*Section\b", line):
                depth += 1
            elif re.match(r"\s*End\b", line) and depth > 0:
                depth -= 1
            elif depth == 0 and re.match(r"\s*(Variable|Variables|Hypothesis|Hypotheses|Context)\b", line):
                bad.append("%s: %s outside a section" % (rel, line.strip()))
    return bad


def theorems_of(prop):
    """Names of the Theorems stated in props/<prop>.v and the `Check name : stmt.` pins."""
    with open(os.path.join(COQ, "props", prop + ".v"), encoding="utf-8") as f:
        src = strip_coq_comments(f.read())
    return re.findall(r"^\s*Theorem\s+([A-Za-z0-9_']+)", src, re.M)


def audit_assumptions(prop):
    """Compiles a tiny file that prints the assumptions of every theorem of props/<prop>.v."""
    names = theorems_of(prop)
    os.makedirs(os.path.join(WORK, "cases"), exist_ok=True)
    path = os.path.join(WORK, "cases", "audit_%s_%d.v" % (prop, os.getpid()))
    with open(path, "w") as f:
        f.write("From NL.Props Require %s.\n" % prop)
        for n in names:
            f.write('Goal True. idtac "@@THEOREM %s". exact I. Qed.\nPrint Assumptions %s.%s.\n' % (n, prop, n))
    rc, out = sh(["timeout", "600", "coqc", "-noglob"] + COQ_WARN + QFLAGS + [path], cwd=COQ)
    base = path[:-2]
    for ext in (".v", ".vo", ".vok", ".vos", ".glob"):
        if os.path.exists(base + ext):
            os.unlink(base + ext)
    aux = os.path.join(os.path.dirname(path), "." + os.path.basename(base) + ".aux")
    if os.path.exists(aux):
        os.unlink(aux)
    status = {}
    if rc != 0:
        return names, {n: "audit failed: " + out[-300:] for n in names}, out
    chunks = re.split(r"@@THEOREM (\S+)", out)
    for i in range(1, len(chunks), 2):
        name, body = chunks[i], chunks[i + 1]
        if "Closed under the global context" in body:
            status[name] = "closed"
            continue
        # "Axioms:" followed by "name : type" entries (a type may continue on indented lines)
        entries = []
        for line in body.split("\n"):
            m = re.match(r"^([A-Za-z_][\w.']*)\s*:\s*(.*)$", line)
            if m and m.group(1) != "Axioms":
                entries.append([m.group(1), m.group(2)])
            elif entries and line.startswith(" "):
                entries[-1][1] += " " + line.strip()
        axioms, stdlib = [], []
        for nm, ty in entries:
            if ALLOWED_ASSUMPTION.match(nm) or PRIMITIVE_TYPE.match(ty.strip()):
                continue                      # kernel primitive type or operator (not an axiom)
            if nm.split(".")[-1] in STDLIB_AXIOMS:
                stdlib.append(nm)
            else:
                axioms.append(nm)
        if axioms:
            status[name] = "AXIOMS: " + ", ".join(axioms)
        elif stdlib:
            status[name] = "closed (standard-library axioms: %s)" % ", ".join(sorted(set(stdlib)))
        else:
            status[name] = "closed (primitives only)"
    for n in names:
        status.setdefault(n, "no output")
    return names, status, out


COQCHK_ALLOWED = ("Coq.",)   # axioms the standard library itself declares, in libraries that are merely loaded (Floats pulls in Reals);
# per-theorem dependence is judged by Print Assumptions, which is stricter


def coqchk(prop, timeout=2400):
    """Independent re-check of the compiled property file and everything it depends on (thorough tier).
    Returns (ok, axioms listed by coqchk -o, text)."""
    rc, out = sh(["timeout", str(timeout), "coqchk", "-o", "-silent"] + QFLAGS + ["NL.Props." + prop], cwd=COQ, timeout=timeout + 60)
    axioms = []
    sect = None
    for line in out.split("\n"):
        if line.startswith("* "):
            sect = line
            if ("type-in-type" in line or "unsafe" in line or "positivity" in line) and "<none>" not in line:
                return False, axioms, out[-1500:]
        elif sect and sect.startswith("* Axioms") and line.strip():
            axioms.append(line.strip())
    bad = [a for a in axioms if not a.startswith(COQCHK_ALLOWED)]
    return rc == 0 and not bad, axioms, (("not allowed: %s\n" % bad) if bad else "") + out[-800:]


# ------------------------------------------------------------------------------- results

def write_evidence(prop, tier, seed, coverage, assumptions, wall, violations, level="proof"):
    evdir = os.environ.get("VERIF_EVIDENCE_DIR") or os.path.join(ROOT, "evidence")   # seedtest.py redirects it: evidence/ is for the unchanged tree
    os.makedirs(evdir, exist_ok=True)
    ev = {
        "property_id": prop,
        "tier": tier,
        "seed": seed,
        "level": level,
        "coverage": coverage,
        "assumptions": assumptions,
        "wall_s": round(wall, 2),
        "violations": violations,
    }
    with open(os.path.join(evdir, prop + ".json"), "w") as f:
        json.dump(ev, f, indent=1, sort_keys=True)


def write_replay(prop, data):
    d = os.path.join(ROOT, "replays")
    os.makedirs(d, exist_ok=True)
    blob = json.dumps(data, sort_keys=True, indent=1)
    h = hashlib.sha1(blob.encode()).hexdigest()[:12]
    path = os.path.join(d, "%s-%s.json" % (prop, h))
    with open(path, "w") as f:
        f.write(blob)
    return path


def known_findings():
    p = os.path.join(ROOT, "known_findings.json")
    if not os.path.exists(p):
        return []
    with open(p) as f:
        return json.load(f).get("findings", [])


def hexs(s):
    return s.encode("utf-8").hex()
