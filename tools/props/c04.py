"""C04 - garbage is reclaimed and a finished run leaves nothing behind."""
import re
import vlib, runcorr, gccheck, progcheck

COQ_TARGETS = ["props/C04.vo", "corr/CorrGC.vo", "corr/CorrRun.vo"]
RULE = ("(a) operation sequences on the collector as in C03, judged by: after every collection the managed set is "
        "exactly the managed objects reachable from the roots, after drop + release of what was handed over the ledger "
        "is empty; (b) allocating programs with the shadow-heap ledger: the end-of-collection callback compares the "
        "survivors with reachability, and EVERY abort point is audited: the run is repeated with an instruction budget "
        "k for every k up to the length of the run (the budget exit is the `?` path of a run-time error) and the ledger "
        "must be empty after eval returned (and the result, if any, was released once per distinct object); a sample of "
        "the (program, k) pairs is also compared with VM.v's ledger inside Coq. non-trivial = distinct (program, k) "
        "with at least one allocation")
ASSUMPTIONS = ["ledger_balanced is proved at VM level for the model (every run, every program); for the implementation it is observed through the allocation ledger hook for the explored programs"]
NOTES = ["proved: run_collects, run_frees_garbage_once, destroy_frees_all, untrace_spec (collector, all heaps / root sets / cyclic graphs)"]


def run(ctx, log):
    # the same small programs at every size around the widths the implementation encodes things in (closed-form results)
    progcheck.run_scale(ctx, log, ['rtnest', 'objects', 'cyclic', 'alias', 'literal', 'temporaries', 'csc', 'collections'])
    progcheck.run_scale_wrapped(ctx, log, ['alias', 'cyclic', 'literal', 'objects', 'temporaries', 'rtnest', 'csc', 'constants', 'locals'])
    rng = ctx.rng
    seqs = [gccheck.gen_sequence(rng) for _ in range(2000 if ctx.quick else 50000)]
    prefix = [(k, []) for k in ["A", "A", "F"]]
    seqs += list(gccheck.enum_sequences(prefix, 2, 3))
    gccheck.run_sequences(ctx, seqs, log, "C04")
    # front-end failures after heap literals: whatever the compiler allocated for them is released exactly once too
    front_fail = ["1.5; onbekend", "stel a = \"tekst\"; stel b = 2.5; stop", "[1.5, \"x\"]; antwoord 1", "print(\"{}\", 0.5); functie f() { \"s\"; nergens }",
                  "stel s = \"a\"; s[0] = \"b\"; 2.5 +", "\"abc\" \"def\" 1.25 )", "zolang onbekend { 1.5 }", "functie f(a) { 2.5; stop } f(1)"]
    progs = list(gccheck.ALLOC_CORPUS) + front_fail + progcheck.alloc_stress_family()[:9] + gccheck.gen_alloc_programs(rng, 200 if ctx.quick else 2000)
    full = vlib.nlh("eval", ["100000 " + vlib.hexs(s) for s in progs], tag="c04f")
    # a finished evaluation leaves nothing behind for the next one in the same process and thread: globals, locals and
    # operands of an earlier text are not there (names read in their own initialiser are null)
    leak = []
    for first in ("stel a = [1.5]; stel b = \"tekst\"; stel c = 3; stel d = 2.5; 0", "functie f(p, q) { stel l = [p]; l } stel r = f(\"s\", 1); r", "stel i = 0; zolang i < 9 { i += 1; stel t = [i, \"x\"] } i", "[1, [2.5, \"y\"], 3]"):
        leak += [first, "stel x = x; stel y = y; stel z = z; stel w = w; [type(x), type(y), type(z), type(w)]", first, "functie g(a, b, c) { stel l = l; [type(a), type(b), type(c), type(l)] } g()"]
    lo = vlib.nlh("eval", ["100000 " + vlib.hexs(x) for x in leak], tag="c04leak")
    nulls = "OK #0=A[#1=S110.117.108.108,#2=S110.117.108.108,#3=S110.117.108.108,#4=S110.117.108.108]"
    for x, o in zip(leak, lo):
        ctx.seen(("after-another-evaluation", x))
        if x.startswith("stel x = x") or x.startswith("functie g("):
            ctx.count("reads-after-another-evaluation")
            if progcheck.head(o) != nulls:
                ctx.violate("an evaluation saw what an earlier evaluation in the same process left behind", source=x, observed=o[:200], expected=nulls)
        live = re.search(r"HEAP (\d+) (\d+) (\d+)", o)
        if live and live.group(3) != "0" and not o.startswith("OK"):
            ctx.violate("a failed evaluation left objects behind", source=x, observed=o[:200])
    # the same programs on the production build, where a box released twice or read after release meets the real allocator
    progcheck.run_production(ctx, log, progs[:len(progs) - (0 if not ctx.quick else 80)])
    limit = 150 if ctx.quick else 2000
    cases = []      # (program index, k)
    for i, (s, o) in enumerate(zip(progs, full)):
        gccheck.judge_run(ctx, s, o, "C04")
        n = gccheck.steps_of(o)
        hp = gccheck.heap_of(o)
        if n <= limit and hp and hp[0] > 0:
            for k in range(0, n + 1):
                cases.append((i, k))
    log("%d programs, %d (program, abort point) pairs" % (len(progs), len(cases)))
    ab = vlib.nlh("eval", ["%d %s" % (k, vlib.hexs(progs[i])) for i, k in cases], tag="c04k", timeout=1800)
    for (i, k), o in zip(cases, ab):
        hp = gccheck.heap_of(o)
        ctx.seen((i, k), nontrivial=bool(hp and hp[0] > 0))
        ctx.count("abort:" + o.split(" | ")[0].split()[0])
        gccheck.judge_run(ctx, progs[i], o, "C04", budget=k)
    # model ledger at a sample of abort points, plus every complete run
    sample = list(range(len(cases)))
    rng.shuffle(sample)
    sample = sample[:600 if ctx.quick else 6000]
    by_budget = {}
    for j in sample:
        i, k = cases[j]
        by_budget.setdefault(k, []).append(i)
    # run_corr takes one budget per call: group by k is too fine; instead encode per-case budgets
    srcs = [progs[cases[j][0]] for j in sample]
    budgets = [cases[j][1] for j in sample]
    runcorr.run_corr_budgets(ctx, srcs, budgets, [ab[j] for j in sample], log, label="abort-points")
    runcorr.run_corr(ctx, progs, log, budget=100000, stages=("eval",), label="complete-runs")
    ctx.sample(dict(source=progs[1], budget=cases[3][1] if len(cases) > 3 else None, impl=ab[3][:160] if len(ab) > 3 else None))


def replay(ctx, data, log):
    if data.get("ops"):
        o = vlib.nlh("gc", [data["ops"]], tag="c04r")[0]
        log("ops: %s\nimplementation now: %s\nrecorded: %s" % (data["ops"], o, data.get("observed")))
    elif data.get("source"):
        b = data.get("budget", 100000)
        o = vlib.nlh("eval", ["%d %s" % (b, vlib.hexs(data["source"]))], tag="c04r")[0]
        log("source: %s (budget %s)\nimplementation now: %s\nrecorded: %s" % (data["source"], b, o, data.get("observed")))


def search(ctx, log):
    progcheck.search_programs(ctx, log, n=4000 if ctx.quick else 40000)
