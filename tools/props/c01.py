"""C01 - running a program yields exactly what its source text denotes."""
import glob, itertools, os
import vlib, runcorr, progcheck, nlast, genwf

COQ_TARGETS = ["props/C01.vo", "corr/CorrSem.vo"]
RULE = ("programs over the full grammar (literals, operators, declarations, assignment and op-assignment, blocks, "
        "if / else-if / else, zolang with stop / volgende, named and anonymous functions, recursion, functions as values, "
        "arrays, strings, all seven builtins): the repository's examples, a directed corpus, ALL one-operator programs "
        "over a 5-atom alphabet (complete), type-directed random programs that never use the excluded behaviours of "
        "DESIGN.md 4.3, some with injected run-time errors after partial output. Every program goes (1) through the "
        "implementation, (2) through Lexer.v/Parser.v/Compiler.v/VM.v inside Coq - byte-identical bytecode, identical "
        "value graph, output, error kind, step count, ledger - and (3) through the definitional evaluator Sem.v on the "
        "parsed tree inside Coq: value graph, output and error kind (raised after the same output) must agree. "
        "non-trivial = distinct program that compiles")
ASSUMPTIONS = ["compile_correct is proved for the fragments F3 (scalars + functions) and F2h (top-level heap values + builtins); outside them C01 is per-program validation against Sem.v, not proof",
               "Sem.v reuses the value-level functions of Ops.v/Builtins.v, which C06/C14 tie to their own specifications"]
NOTES = ["proved: compile_correct_partial (= compile_correct_F3), compile_correct_F2h, compile_correct_F2, compile_correct_F1, compile_expr_correct_F1a (any compiler/machine state), static acceptance/rejection"]

DIRECTED = [
    "1 + 2 * 3", "(1 + 2) * 3", "-1 < 1", "10 - 3 - 2", "stel a = 1; stel a = 2; a", "stel a = 5; a = a + 1; a * 2",
    "als 1 < 2 { 3 } anders { 4 }", "als nee { 3 }", "als ja { stel a = 1 }", "stel x = als nee { 1 } anders als ja { 2 } anders { 3 }; x",
    "stel i = 0; stel s = 0; zolang i < 10 { i += 1; als i % 2 == 0 { volgende } als i > 7 { stop } s += i } s",
    "zolang nee { 1 }", "stel i = 0; zolang i < 3 { i += 1; i * 10 }", "stel i = 0; zolang i < 3 { i += 1; stel q = i }",
    "functie fib(n) { als n < 2 { antwoord n } fib(n - 1) + fib(n - 2) } fib(12)", "stel f = functie(a, b) { a * b }; f(6, 7)",
    "functie f(n) { 10 - n } f(3)", "functie f() { } f()", "functie f() { 1; { } } f()", "{ 1; { 2 } }", "{ }", "{ stel a = 1 }",
    "stel a = [1, 2.5, \"x\", [ja]]; a[3][0]", "stel a = [1, 2, 3]; a[-1] + a[0]", "stel s = \"hallo\"; s[0] = \"H\"; s",
    "print(\"a{}b\", 1); print(\"{} {}\", \"x\"); 1 / 0", "print(1); print(\"x\", 2); [1][5]", "print(\"{}\", [1, [2, \"s\"], 2.5, ja, functie() {}])",
    "type(1) == \"int\"", "string(12) == \"12\"", "int(\"42\") + int(2.9) + int(ja)", "float(2) / 4.0", "bool(\"\") || bool(\"a\")", "lengte(\"héé\") + lengte([1, 2])",
    "ja && nee || ja", "!ja == nee", "1 == 1.0", "\"a\" < \"b\"", "\"a\" + \"b\"", "1 + \"a\"", "x", "stel y = 1; { stel z = y } z", "stop", "antwoord 1",
    "functie f(a) { a[0] = 1; a } stel q = [0]; f(q); q", "stel a = 1; functie g() { a = a + 1 } g(); g(); a",
    "functie f(x) { als x { antwoord \"vroeg\" } \"laat\" } [f(ja), f(nee)]",
    "stel n = 0; functie tel() { n = n + 1; n } [tel(), tel(), tel()] ",
    "functie f(x) { print(\"f {}\", x); x } f(1) + f(2) * f(3)", "functie f(x) { print(\"f {}\", x); x } f(ja) && f(nee) || f(ja)",
    "functie f(x) { print(\"f {}\", x); x } [f(1), f(2)][f(0)]",
    "stel n = 0.0 / 0.0; [n == n, n != n, n < n, n <= n, n >= n]", "functie zelfde(a, b) { [a == b, a != b] } stel n = 0.0 / 0.0; stel l = [n]; [zelfde(n, n), zelfde(l[0], n), zelfde(1.5, 1.5)]", "functie is_getal(x) { x == x } [is_getal(0.0 / 0.0), is_getal(2.5)]",
    "[1.14, 1.36, 1.39, 1.57, 1.118, 1.14 == 114.0 / 100.0, 1.14 == float(\"1.14\")]", "stel t = \"\\\"privé\\\" é\\\\n\"; [t, lengte(t)]",
    "stel a = [10, 20]; [a[4294967296], 1]", "stel a = [10, 20]; a[4294967297] = 5; a", "stel s = \"abc\"; s[2147483648]", "stel a = [1, 2, 3]; a[7]; print(\"na a[7]\"); 1", "functie f(a, i) { a[i]; print(\"na\"); 2 } f([1], \"x\")",
    "type([print(\"element\")])", "stel n = 0; functie tel() { n = n + 1; n } type([tel(), tel()]); n", "type([int(\"abc\")])", "lengte([onbekend_])",
    "[1.0 / -0.0, 1.0 / 0.0]", "[1.0 / 0.0, 1.0 / -0.0, -0.0, 0.0]", "stel min = -0.0; stel nul = 0.0; print(\"{} {}\", min, nul); 1.0 / min", "[-1.5, 1.5, -(1.5), -7, 7]",
    "stel a = [0, 0, 0]; stel i = 0; a[i] = (i = 2); [a, i]", "functie p(x) { print(\"p {}\", x); x } stel a = [0, 0]; a[p(1)] = p(7); a", "stel a = [1]; a[lengte(5)] = print(\"te laat\")",
    "stel n = 0; functie tel() { n = n + 1; n } stel a = [0, 0, 0, 0]; a[n] = tel(); a[n] = tel(); a", "stel lijst = [1, 2, 3]; functie vervang() { lijst = [7, 8, 9]; 0 } lijst[-1] = vervang(); lijst",
    "-(0 - 1152921504606846975 - 1)", "functie f(x) { -x } f(0 - 1152921504606846975 - 1)", "1152921504606846975 + 1", "functie f(x) { x + 1 } f(1152921504606846975)",
    "(0 - 1152921504606846975) - 2", "1152921504606846975 * 2", "(0 - 1152921504606846975 - 1) / (0 - 1)", "7 / 0", "7 % 0", "functie f(x) { x % 0 } f(7)", "functie f(x) { print(\"f {}\", x); x } stel a = [0, 0]; a[f(1)] = f(5); a",
]


def in_f1(ast):
    """inside the PROVED fragment (F2 of compile_correct): top-level scalar code with nested block scopes, if-chains
    as statement and value, loops with stop/volgende in statement position; no functions, heap values or builtins"""
    def e_ok(e):
        k = e[0]
        if k in ("int", "bool", "id"):
            return True
        if k == "infix":
            return e_ok(e[2]) and e_ok(e[3])
        if k == "prefix":
            return e_ok(e[2])
        if k == "assign":
            return e[1][0] == "id" and e_ok(e[2])
        if k == "if":
            return e_ok(e[1]) and b_ok(e[2]) and (e[3] is None or b_ok(e[3]))
        if k == "while":
            return e_ok(e[1]) and b_ok(e[2])
        return False

    def s_ok(s):
        if s[0] == "let":
            return e_ok(s[2]) and not genwf.mentions(s[2], s[1])
        if s[0] == "expr":
            return e_ok(s[1])
        if s[0] == "block":
            return b_ok(s[1])
        return s[0] in ("break", "continue")

    def b_ok(b):
        return all(s_ok(x) for x in b)
    return b_ok(ast)


def run(ctx, log):
    eo_ = progcheck.evaluation_order_family()
    progcheck.pipeline(ctx, eo_, log, budget=20000, label="evaluation-order", shard_size=60)
    for s_ in eo_:
        ctx.seen(("evaluation-order", s_))
    progcheck.run_unspecified(ctx, log)
    # enumerated families decided by Sem.v: how function / loop bodies end; names that live in several name spaces
    extra_sem_families = []
    extra_sem_families += progcheck.nested_names_family(ctx.quick)
    extra_sem_families += progcheck.function_endings_family(ctx.quick)
    progcheck.pipeline(ctx, extra_sem_families, log, budget=20000, label="endings-and-names", shard_size=120)
    for s_ in extra_sem_families:
        ctx.seen(("family", s_))
    # the same small programs at every size around the widths the implementation encodes things in (closed-form results)
    progcheck.run_scale(ctx, log, ['constants', 'locals', 'args', 'statements', 'nesting', 'rtnest', 'objects', 'cyclic', 'alias', 'literal', 'temporaries', 'arity', 'names', 'text', 'csc', 'collections'])
    progcheck.run_scale_wrapped(ctx, log, ['alias', 'cyclic', 'literal', 'objects', 'temporaries', 'rtnest', 'csc', 'constants', 'locals'])
    progcheck.run_code_boundary(ctx, log)
    rng = ctx.rng
    progs = [open(f, encoding="utf-8").read() for f in sorted(glob.glob(os.path.join(vlib.REPO, "examples", "*.nl"))) if "recursive" not in f]
    progs += DIRECTED
    atoms = [("int", 1), ("int", 7), ("bool", True), ("id", "x"), ("str", "s")]
    small = []
    for a in atoms:
        small.append(a)
        for op in ("-", "!"):
            small.append(("prefix", op, a))
        for b in atoms:
            for op in nlast.BINOPS:
                small.append(("infix", op, a, b))
    n_small = len(small)
    for e in small:
        progs.append(nlast.to_source([("let", "x", ("int", 3)), ("expr", e)]))
    ctx.notes.append("complete enumeration: all %d programs `stel x = 3; e` with e an atom, a prefix or one binary operator over 5 atoms" % n_small)
    f1 = n_small      # counted below for generated programs too
    srcs, asts = progcheck.gen_sources(ctx, 1200 if ctx.quick else 30000, max_depth=3)
    srcs2, asts2 = progcheck.gen_sources(ctx, 300 if ctx.quick else 10000, max_depth=2, funcs=False, loops=False, prints=False, floats=False, alloc=0.0)
    # the same with names borrowed from anywhere in the program for parameters, locals and (nested) functions
    srcs3, asts3 = progcheck.gen_sources(ctx, 500 if ctx.quick else 12000, max_depth=3, collide=0.4)
    progs += srcs3 + srcs + srcs2
    inside = sum(1 for a in asts + asts2 if in_f1(a)) + sum(1 for e in small if e[0] != "str" and "str" not in str(e))
    obs = progcheck.pipeline(ctx, progs, log, budget=30000, label="programs")
    # programs that END in a statement: their value is unspecified (4.3 item 1) but what they print, how they fail and
    # that the value handed back is a live, well-formed object are not (the model hands back the same graph)
    wv = []
    srcs4, _ = progcheck.gen_sources(ctx, 300 if ctx.quick else 6000, with_value_out=wv, max_depth=3, end_with_statement=1.0)
    obs4 = progcheck.pipeline(ctx, srcs4, log, budget=30000, label="programs-ending-in-a-statement", with_value=wv)
    for s4 in srcs4:
        ctx.seen(s4)
    # what the user's command-line program prints for the same texts (built without the observation hooks)
    progcheck.run_production(ctx, log, DIRECTED + rng.sample(srcs + srcs3 + srcs4, 120 if ctx.quick else 1500))
    ncomp = 0
    for s, c, o in zip(progs, obs["compile"], obs["eval"]):
        ok = c.startswith("OK")
        ncomp += ok
        ctx.seen(s, nontrivial=ok)
        h = progcheck.head(o)
        ctx.count("outcome:" + h.split()[0] + (h[3:] if h.startswith("ERR") else ""))
    ctx.stats["programs_inside_proved_fragment_F2"] = inside
    ctx.stats["programs_total"] = len(progs)
    log("%d programs, %d compile, %d inside the proved fragment F2" % (len(progs), ncomp, inside))
    ctx.sample(dict(source=progs[8], compile=obs["compile"][8][:120], eval=obs["eval"][8][:120]))
    ctx.sample(dict(source=srcs[0][:400], eval=obs["eval"][len(progs) - len(srcs) - len(srcs2)][:160]))


def replay(ctx, data, log):
    progcheck.replay_source(ctx, data, log, budget=30000)


def search(ctx, log):
    progcheck.search_programs(ctx, log, n=4000 if ctx.quick else 40000)
