"""C17 - a retained session behaves like one growing program."""
import itertools, re
import vlib, runcorr, front, progcheck

COQ_TARGETS = ["props/C17.vo", "corr/CorrSession.vo"]
RULE = ("one (Compiler, VM) pair kept across lines in the harness, as the interactive prompt does: ALL sessions of up to 3 "
        "lines over a 16-line alphabet (declarations, assignments, expressions over earlier globals, a loop, a "
        "self-contained function definition with call, lines failing at parse time, at compile time after a declaration "
        "and inside a nested block, at run time after an assignment, a line reading a name a failed line tried to "
        "declare, heap and cross-line function lines) enumerated completely, plus random sessions of up to 12 lines; and, "
        "for a sample, every instruction budget k (the line is cut short after k instructions). Per line the outcome, the "
        "printed text and the carried-state observers (operand stack, frames, compiler buffer, loop contexts) are "
        "compared with model/Session.v inside Coq; the MEANING of the session is spec/SemSession.v (one carried "
        "environment under the definitional semantics; a rejected line contributes nothing, a line failing while running "
        "contributes the effects it completed). non-trivial = distinct session with >= 2 lines")
ASSUMPTIONS = ["sessions inside the recorded finding class heap_or_function_across_lines (a float/string/array constant or value, or a function, created by one line and still referenced when a later line runs) are classified, reported as KNOWN-FINDING and not compared further"]
NOTES = ["proved: session_refines_program_F2, line_refines_F2, session_equals_single_program_F2 (sessions of scalar lines with blocks, if-chains, loops; exclusions D29 decls_done, D30 init_done), failed_line_harmless, rollback theorems; sessions outside F2 are carried by the complete enumeration + SemSession oracle + the failing-line family"]

ALPHA = [
    "stel a = 1", "stel b = a + 1", "a = a + 1", "a + b", "stel a = 5; a",
    "stel i = 0; zolang i < 3 { i += 1; a = a + i } a", "functie f(x) { x * 2 } f(a)",
    "a +", "stel c = 1; onbekend", "a = a + 10; 1 / 0", "als a > 1 { a = 0 } anders { stop }", "c",
    "stel s = \"x\"; lengte(s)", "functie g() { a }", "g()", "stel t = [a]; a",
    "stel z = a / 0", "z", "zolang onbekend < 3 { a = a + 1 }", "als a < 100 { volgende }",
]
EXTRA = ["functie d(n) { als n < 1 { antwoord 0 } 1 + d(n - 1) } d(200)", "b = a * b", "a == b", "stel d = a; stel d = d + 1; d", "{ stel a = 99 } a", "!(a < b)", "a = ja; a", "zolang nee { } a", "stel k = ) ", "1 +* 2",
         "a = a + 1; a = a + 1; ja + 1", "b", "print(\"{}\", a)", "2.5", "als a { 1 }", "functie h(n) { als n < 1 { antwoord 0 } n + h(n - 1) } h(a)"]
HEAPY = re.compile(r"\"|\[|\d\.\d")


def known_class(lines, obs_lines):
    """heap_or_function_across_lines: a line that is not the last, was accepted by the front end, and creates a heap
    constant/value or a named function that a later line calls"""
    for i, l in enumerate(lines[:-1]):
        # (when the whole session crashed there is no per-line observation: assume the line was accepted)
        accepted = i >= len(obs_lines) or not (obs_lines[i].startswith("ERR Syntax") or obs_lines[i].startswith("ERR Reference"))
        if not accepted:
            continue
        if HEAPY.search(l):
            return "heap constant or value of line %d outlives its run" % (i + 1)
        m = re.search(r"functie (\w+)", l)
        if m and any(re.search(r"\b%s\(" % m.group(1), x) for x in lines[i + 1:]):
            return "function %s of line %d called from a later line" % (m.group(1), i + 1)
    return None


def decl_after_failure_class(lines, per):
    """declaration_after_runtime_failure (D29): a line that failed while running and declares something after its first statement"""
    for l, o in zip(lines, per):
        if re.match(r"ERR (Type|Index|Argument)", o) and re.search(r";.*\b(stel|functie)\b", l):
            return True
    return False


def stale_slot_class(lines, per):
    """stale_slot_after_failed_initialiser (D30): a line failed at run time in a `stel`, after a top-level block that declared
    a variable had been closed earlier in the session (the declared name sits on the dead variable's slot)"""
    for i, (l, o) in enumerate(zip(lines, per)):
        if re.match(r"ERR (Type|Index|Argument)", o) and re.search(r"\bstel\b", l):
            before = " ; ".join(lines[:i]) + " ; " + l
            if re.search(r"\{[^}]*\bstel\b", before):
                return True
    return False


def canon_model(o):
    """operands left behind by a failing instruction are not compared (never observable: the next run starts clean)"""
    return re.sub(r"(ERR \w+ OUT \S+ ST )\d+", r"\1?", o)


def canon_spec(o):
    """harness observation -> what SemSession renders: per line `RES OUT text ;; ` without the state observers"""
    out = []
    for part in o.split(" ;; "):
        part = part.strip()
        if not part:
            continue
        m = re.match(r"(.*?) OUT (\S+) ST .*$", part)
        if not m:
            out.append(part)
            continue
        res = runcorr.canon_graph(runcorr.FUN_RE.sub("fn", m.group(1)))
        out.append("%s OUT %s" % (res, m.group(2)))
    return "".join(x + " ;; " for x in out)


def run(ctx, log):
    # a failing line that completed nothing leaves a retained session as it was (every kind of failure, at every depth)
    progcheck.run_failing_lines(ctx, log)
    rng = ctx.rng
    sessions = []
    for n in (1, 2, 3):
        sessions += [list(p) for p in itertools.product(ALPHA, repeat=n)]
    ctx.exhaustive = True
    n_exh = len(sessions)
    pool = ALPHA + EXTRA
    for _ in range(1000 if ctx.quick else 20000):
        sessions.append([rng.choice(pool) for _ in range(rng.randint(4, 12))])
    sessions += [["1 / 0; stel c = 5", "c"], ["stel a = 1", "a = 2; [1][3]; stel d = a", "d"], ["stel c = 1 / 0", "c"], ["stel a = 1", "a = 7; ja + 1", "a"],
                 ["stel a = 10", "stel b = 20; stel c = 30; a = a + 1; c / 0", "a", "b", "c"], ["stel a = 1", "functie f(n) { als n < 1 { antwoord 1 / 0 } f(n - 1) } f(3)", "functie g(n) { als n < 1 { antwoord ja + 1 } g(n - 1) } g(200)", "functie d(n) { als n < 1 { antwoord a } d(n - 1) } d(300)"], ["stel a = 1", "stel e = 4; a = e; ja + 1", "e + a"], ["stel x = 3", "functie dubbel(n) { n * 2 }; dubbel(x)", "functie oppervlak(b, h) { stel o = b * h; o }; oppervlak(x, 4)"],
                 ["stel x = 3", "functie dubbel(n) { n * 2 }; dubbel(onbekend)", "functie oppervlak(b, h) { stel o = b * h; o }; oppervlak(x, 4)"],
                 ["{ stel a = 5 }", "stel b = 1 / 0", "b"], ["{ stel a = 5 }; stel b = 1 / 0", "b"], ["stel q = 1", "als ja { stel t = 41; t }", "stel r = ja + 1", "r"]]
    budgets = [100000] * len(sessions)
    scalar_alpha_pre = ["stel a = 1", "stel b = a + 1", "a = a + 1", "a + b", "stel a = 5; a", "a == b", "stel d = a; stel d = d + 1; d"]
    # every abort point k for a sample of sessions (the line is cut short after k instructions)
    scalar_alpha = [l for l in pool if not HEAPY.search(l) and "functie g" not in l and l != "g()"]
    for _ in range(40 if ctx.quick else 400):
        s = [rng.choice(scalar_alpha) for _ in range(rng.randint(2, 5))]
        for k in range(0, 45):
            sessions.append(s)
            budgets.append(k)
    # a line that fails deep inside the machine (runaway recursion up to the stack / frame limits, too deep for the
    # Coq side) must not influence later lines: the session with it and the session without it agree on the others
    big_fail = ["functie r(n) { r(n + 1) } r(0)", "functie r(n, m) { stel x = n; 1 + r(n + 1, m) } r(0, 0)", "functie r(n) { [n, r(n + 1)] } r(0)"]
    for bf in big_fail:
        for _ in range(6 if ctx.quick else 60):
            pre = [rng.choice(scalar_alpha_pre) for _ in range(rng.randint(1, 3))]
            post = [rng.choice(scalar_alpha_pre + ["functie k(n) { n + a } k(2)", "functie s(n) { als n < 1 { antwoord 0 } n + s(n - 1) } s(100)"]) for _ in range(rng.randint(2, 4))]
            post.append("functie d(n) { als n < 1 { antwoord 0 } d(n - 1) } d(%d)" % rng.choice([40000, 60000, 65000]))
            with_f = vlib.nlh("session", ["10000000 " + " ".join(vlib.hexs(l) for l in pre + [bf] + post)], tag="c17d", timeout=120)[0]
            without = vlib.nlh("session", ["10000000 " + " ".join(vlib.hexs(l) for l in pre + post)], tag="c17d", timeout=120)[0]
            a = [x.strip() for x in with_f.split(" ;; ") if x.strip()]
            b = [x.strip() for x in without.split(" ;; ") if x.strip()]
            ctx.seen(("deep-failure", tuple(pre), bf, tuple(post)))
            ctx.count("deep-failure-sessions")
            strip = lambda x: re.sub(r" ST .*$", "", x)
            if len(a) != len(b) + 1 or [strip(x) for x in a[:len(pre)] + a[len(pre) + 1:]] != [strip(x) for x in b]:
                ctx.violate("a line that failed deep inside a recursion changed what later lines of the session produce", session=pre + [bf] + post, observed=with_f[:600], expected=without[:600])
    lines = ["%d %s" % (b, " ".join(vlib.hexs(l) if l else "-" for l in s)) for s, b in zip(sessions, budgets)]
    obs = vlib.nlh("session", lines, tag="c17", timeout=300)
    log("%d sessions (%d enumerated completely)" % (len(sessions), n_exh))
    items, idx = [], []
    known_seen = set()
    for i, (s, b, o) in enumerate(zip(sessions, budgets, obs)):
        ctx.seen((tuple(s), b), nontrivial=len(s) >= 2)
        per = [] if (o.startswith("PANIC") or o.startswith("CRASH")) else [p.strip() for p in o.split(" ;; ") if p.strip()]
        kc = known_class(s, per)
        if kc or o.startswith("PANIC") or o.startswith("CRASH"):
            if kc:
                ctx.count("known-class")
                if (o.startswith("PANIC") or o.startswith("CRASH")) and "D24ab" not in known_seen:
                    known_seen.add("D24ab")
                    ctx.known.append("D24ab (heap_or_function_across_lines): %s  [%s]" % (" ;; ".join(s), kc))
                continue
            ctx.violate("a retained session crashed outside the recorded finding class", session=s, budget=b, observed=o[:300])
            continue
        items.append("SSCase %d [%s] %s %s" % (b, "; ".join(vlib.coq_text(l) for l in s), vlib.coq_hash(canon_model(o)), vlib.coq_hash(canon_spec(o))))
        idx.append(i)
    allsrc = sorted({l for s in sessions for l in s})
    utab, lit_pt = front.oracle_tables(allsrc, tag="c17")
    hdr = runcorr.header(utab, lit_pt, {}, {}, {}).replace("Import CorrRun.", "Import CorrRun CorrSession.")
    footer = lambda: ("Eval vm_compute in (mismatches (sscheck_model utab stab ptab rtab) cases).\n"
                      "Eval vm_compute in (mismatches (sscheck_spec utab stab ptab rtab) cases).")
    shards, results, errors = vlib.run_coq_shards(ctx.prop, hdr, items, footer, shard_size=300, tag="session", timeout=1500)
    for e in errors:
        ctx.broken.append(dict(kind="corr-shard", what=e))
    off = 0
    nm = ns = 0
    for k, sh in enumerate(shards):
        if k in results:
            lists = re.findall(r"=\s*(\[.*?\])\s*:\s*list N", results[k], re.S)
            if len(lists) != 2:
                ctx.broken.append(dict(kind="corr-output", what=results[k][-300:]))
            else:
                bad_model = [int(x) for x in re.findall(r"\d+", lists[0].replace("%N", ""))]
                bad_spec = [int(x) for x in re.findall(r"\d+", lists[1].replace("%N", ""))]
                for j in bad_model:
                    gi = idx[off + j]
                    nm += 1
                    ctx.disagree("session", session=sessions[gi], budget=budgets[gi], impl=obs[gi][:400], model="Session.v renders a different trace")
                for j in bad_spec:
                    gi = idx[off + j]
                    if budgets[gi] < 100000 and "BUDGET" in obs[gi]:
                        continue            # a line cut short has no source-level meaning; the model comparison covers it
                    per_gi = [p.strip() for p in obs[gi].split(" ;; ") if p.strip()]
                    if decl_after_failure_class(sessions[gi], per_gi):
                        ctx.count("known-class-D29")
                        if "D29" not in known_seen:
                            known_seen.add("D29")
                            ctx.known.append("D29 (declaration_after_runtime_failure): %s" % " ;; ".join(sessions[gi]))
                        continue
                    if stale_slot_class(sessions[gi], per_gi):
                        ctx.count("known-class-D30")
                        if "D30" not in known_seen:
                            known_seen.add("D30")
                            ctx.known.append("D30 (stale_slot_after_failed_initialiser): %s" % " ;; ".join(sessions[gi]))
                        continue
                    ns += 1
                    spec = "(not recomputed)"
                    if ns <= 4:
                        fn = "spec_session utab stab ptab rtab [%s]" % "; ".join(vlib.coq_text(l) for l in sessions[gi])
                        sh2, res2, err2 = vlib.run_coq_shards(ctx.prop, hdr, ["0%N"], lambda: "Eval vm_compute in (%s)." % fn, tag="sessm")
                        spec = front.decode_text_output(res2.get(0, "")) if res2 else None
                    ctx.violate("a line of a retained session did not produce what it means as the continuation of the earlier successful lines",
                                session=sessions[gi], observed=canon_spec(obs[gi])[:500], specification=spec)
        off += len(sh)
    log("session: %d sessions in Coq: %d differ from Session.v, %d from the session's meaning (SemSession.v); %d in the recorded finding class" % (len(items), nm, ns, ctx.stats.get("known-class", 0)))
    ctx.sample(dict(session=sessions[300], impl=obs[300][:300]))
    ctx.sample(dict(session=sessions[n_exh + 1], impl=obs[n_exh + 1][:400]))


def replay(ctx, data, log):
    s = data.get("session")
    if not s:
        log("nothing to replay")
        return
    b = data.get("budget", 100000)
    o = vlib.nlh("session", ["%d %s" % (b, " ".join(vlib.hexs(l) if l else "-" for l in s))], tag="c17r")[0]
    log("session: %s\nimplementation now: %s\nrecorded: %s\nspecification: %s" % (s, o, data.get("observed"), data.get("specification")))
