"""C09 - names resolve lexically; undeclared names are rejected before anything runs."""
import vlib, runcorr, progcheck, astops, nlast

COQ_TARGETS = ["props/C09.vo", "corr/CorrSem.vo"]
RULE = ("generated programs with nested blocks, shadowing at every depth (same and different scope), functions nested in "
        "blocks and functions, recursion, identifier reuse across scopes: compiler stage compared byte for byte with "
        "Compiler.v (pins every slot number), VM stage with VM.v, result with Sem.v (lexical resolution written from the "
        "README); each program also (1) under a consistent renaming of a variable to a fresh name: byte-identical "
        "bytecode required, (2) with an unused shadowing declaration inserted at the front of an inner block that does "
        "not mention the name: same value/output/error required, (3) with one identifier use replaced by an undeclared "
        "name, every position in turn: a reference error with empty output before anything runs required. "
        "non-trivial = distinct program text that compiles (or, for (3), distinct (program, position))")
ASSUMPTIONS = ["alpha-invariance of the whole compiler and static rejection are theorems about Compiler.v (CompilerNames.v); the implementation is tied to it by the byte-level correspondence"]
NOTES = ["proved (all tables, all names): resolve = documented lookup, define/slot facts, block/function exit restores the table, context isolation, renaming invariance, rollback"]

DIRECTED = [
    "stel a = 1; stel a = 2; a",
    "stel a = 1; { stel a = 2; a = 3 } a",
    "stel a = 1; functie f() { stel a = 5; a = a + 1; a } f() + a",
    "stel a = 1; functie f() { a } functie g() { stel a = 2; f() } g()",
    "stel x = 1; { stel y = 2; { stel x = y + 1; y = x } x = y } x",
    "functie f(a) { { stel a = a + 1; a = a * 2 } a } f(5)",
    "stel i = 0; stel s = 0; zolang i < 3 { stel t = i * 2; { stel t = 100; s = s + t } s = s + t; i = i + 1 } s",
    "functie f(n) { stel r = 0; als n > 0 { stel r = 5; r = 6 } r } f(1)",
    "stel a = 1; als ja { stel b = a; stel a = b + 1; a } anders { 0 }",
    "functie fac(n) { als n < 2 { antwoord 1 } n * fac(n - 1) } stel n = 4; fac(n) + n",
    "functie f() { functie g(x) { x + 1 } g(1) } f()",
    "stel f = functie(a) { functie(b) { b }  } 1",
]


def nested_templates():
    """a function nested in a function sees its own context and the globals - never the locals of the function
    around it (complete over: how the outer local is declared x how the inner function is written x whether a
    global of the same name exists x where a dead statement after antwoord mentions a name)"""
    out = []
    outer_decl = {"param": ("functie buiten(naam) { %s }", "buiten(7)"),
                  "stel": ("functie buiten() { stel naam = 7; %s }", "buiten()"),
                  "block": ("functie buiten() { { stel naam = 7; %s } }", "buiten()"),
                  "loop": ("functie buiten() { stel i = 0; stel r = 0; zolang i < 1 { i += 1; stel naam = 7; r = %s } r }", "buiten()")}
    inner = {"named": "functie binnen(extra) { naam + extra } binnen(1)",
             "anon": "stel binnen = functie(extra) { naam + extra }; binnen(1)",
             "direct": "functie(extra) { naam + extra }(1)",
             "deeper": "functie binnen() { functie diep(extra) { naam + extra } diep(1) } binnen()"}
    for dk, (otpl, call) in outer_decl.items():
        for ik, itxt in inner.items():
            if dk == "loop" and ik in ("named", "deeper"):
                continue          # a named function literal in expression position is excluded (DESIGN.md 4.3 item 13)
            for glob in (True, False):
                src = ("stel naam = 100; " if glob else "") + (otpl % itxt) + " " + call
                out.append(src)
    # a name declared inside a block (of any kind, with one statement or several) does not exist after it
    blocks = {"als": "als ja { %s }", "anders": "als nee { 1 } anders { %s }", "zolang": "stel k = 0; zolang k < 1 { k += 1; %s }", "zolang1": "zolang nee { %s }",
              "bloot": "{ %s }", "functie": "functie omhulsel() { %s } omhulsel()", "als-waarde": "stel v = als ja { %s }"}
    decls = {"stel": "stel hulp = 7", "functie": "functie hulp() { 7 }", "functie-in-aanroep": "type(functie hulp() { 7 })"}
    for bk, btpl in blocks.items():
        for dk, dtxt in decls.items():
            if dk == "functie-in-aanroep":
                continue          # a named function literal in expression position: excluded (4.3 item 13)
            for extra in ("", "1; "):
                out.append("print(\"start\"); %s; hulp" % (btpl % (extra + dtxt)))
                out.append("stel hulp = \"buiten\"; %s; type(hulp)" % (btpl % (extra + dtxt)))
    # a function written between two declarations of a name means the first one, whatever happens later
    out += ["stel t = 1; functie lees() { t } stel t = 100; [lees(), t]", "stel t = \"oud\"; functie lees() { t } stel t = \"nieuw\"; functie lees2() { t } [lees(), lees2()]",
            "functie f() { \"eerste\" } functie g() { f() } functie f() { \"tweede\" } [g(), f()]", "stel n = 1; functie op() { n = n + 1; n } stel n = 50; [op(), op(), n]",
            "{ stel u = 1; functie lu() { 0 } stel u = 2; u }"]
    # unreachable code is still compiled: an undeclared name after antwoord is rejected before anything runs
    for dead in ("nergens", "nergens = 1", "print(nergens)", "stel z = nergens", "als nergens { 1 }", "functie q() { nergens }"):
        out.append("print(\"start\"); functie f(a) { antwoord a; %s } f(1)" % dead)
        out.append("print(\"start\"); functie f(a) { als a > 0 { antwoord a; %s } 0 } f(1)" % dead)
        out.append("print(\"start\"); functie f(a) { zolang ja { stop; %s } a } f(1)" % dead)
    return out


def run(ctx, log):
    progcheck.run_unspecified(ctx, log)
    # enumerated families decided by Sem.v: how function / loop bodies end; names that live in several name spaces
    extra_sem_families = []
    extra_sem_families += progcheck.nested_names_family(ctx.quick)
    progcheck.pipeline(ctx, extra_sem_families, log, budget=20000, label="endings-and-names", shard_size=120)
    for s_ in extra_sem_families:
        ctx.seen(("family", s_))
    # the same small programs at every size around the widths the implementation encodes things in (closed-form results)
    progcheck.run_scale(ctx, log, ['locals', 'names'])
    rng = ctx.rng
    n = 500 if ctx.quick else 8000
    srcs, asts = progcheck.gen_sources(ctx, n, max_depth=3, floats=False)
    base = DIRECTED + nested_templates() + srcs
    obs = progcheck.pipeline(ctx, base, log, budget=20000, label="scoped-programs")
    comp, ev = obs["compile"], obs["eval"]
    for s, c in zip(base, comp):
        ctx.seen(s, nontrivial=c.startswith("OK"))
    # metamorphic variants on the implementation itself
    v_src, v_kind, v_base = [], [], []
    for k, (a, s) in enumerate(zip(asts, srcs)):
        i = len(base) - len(srcs) + k
        if not comp[i].startswith("OK"):
            continue
        names = sorted(x for x in astops.names_in(a) if x not in nlast.BUILTINS)
        if names:
            old = rng.choice(names)
            v_src.append(nlast.to_source(astops.rename(a, old, "hernoemd_" + old)))
            v_kind.append("rename")
            v_base.append(i)
        nb = astops.inner_blocks(a)
        if nb and names:
            kblk = rng.randrange(nb)
            pick = rng.choice(names)
            def stmt_for(b, pick=pick):
                return None if pick in astops.names_in(b) else ("let", pick, ("int", 0))
            a2 = astops.insert_in_block(a, kblk, stmt_for)
            if a2 != a:
                v_src.append(nlast.to_source(a2))
                v_kind.append("shadow")
                v_base.append(i)
        nu = astops.ident_uses(a)
        for pos in (range(nu) if (not ctx.quick or k < 60) else rng.sample(range(nu), min(nu, 2))):
            v_src.append(nlast.to_source(astops.replace_use(a, pos, "nergens_gedeclareerd")))
            v_kind.append("undeclared")
            v_base.append(i)
    vc = vlib.nlh("compile", [vlib.hexs(s) for s in v_src], tag="c09vc")
    ve = vlib.nlh("eval", ["20000 " + vlib.hexs(s) for s in v_src], tag="c09ve")
    for s, kind, bi, c, e in zip(v_src, v_kind, v_base, vc, ve):
        ctx.seen((kind, s))
        ctx.count("variant:" + kind)
        if kind == "rename":
            if c != comp[bi]:
                ctx.violate("consistent renaming of a variable changed the bytecode", source=base[bi], variant=s, observed=c[:300], expected=comp[bi][:300])
            elif progcheck.visible(e) != progcheck.visible(ev[bi]):
                ctx.violate("consistent renaming of a variable changed the outcome", source=base[bi], variant=s, observed=progcheck.visible(e), expected=progcheck.visible(ev[bi]))
        elif kind == "shadow":
            if progcheck.visible(e) != progcheck.visible(ev[bi]) and not ev[bi].startswith("BUDGET"):
                ctx.violate("an unused shadowing declaration in an inner block changed the outcome", source=s, original=base[bi], observed=progcheck.visible(e), expected=progcheck.visible(ev[bi]))
        else:
            if not (progcheck.head(e) == "ERR Reference" and progcheck.out_of(e) == "OUT -" and "STEPS 0" in e):
                ctx.violate("a program that uses an undeclared name was not rejected with a reference error before producing output", source=s, observed=e[:300], expected="ERR Reference | OUT -")
    log("variants: %s" % {k: v for k, v in ctx.stats.items() if k.startswith("variant:")})
    ctx.sample(dict(source=base[2], compile=comp[2][:120], eval=ev[2][:120]))
    if v_src:
        ctx.sample(dict(variant=v_kind[0], source=v_src[0][:300], eval=ve[0][:120]))


def replay(ctx, data, log):
    progcheck.replay_source(ctx, data, log)


def search(ctx, log):
    progcheck.search_programs(ctx, log, n=4000 if ctx.quick else 40000)
