"""C09 - names resolve lexically; undeclared names are rejected before anything runs."""
import vlib, runcorr, progcheck, astops, nlast

COQ_TARGETS = ["props/C09.vo", "corr/CorrSem.vo"]
RULE = ("generated programs with nested blocks, shadowing at every depth (same and different scope), functions nested in "
        "blocks and functions, recursion, identifier reuse across scopes: compiler stage compared byte for byte with "
        "Compiler.v (pins every slot number), VM stage with VM.v, result with Sem.v (lexical resolution written from the "
        "README); each program also (1) under a consistent renaming of a variable to a fresh name: byte-identical "
        "bytecode required, (2) with an unused shadowing declaration inserted at the front of an inner block that does "
        "not mention the name: same value/output/error required, (3) with one identifier use replaced by an undeclared "
        "name, every position in turn: a reference error with empty output before anything runs required. "
        "non-trivial = distinct program text that compiles (or, for (3), distinct (program, position))")
ASSUMPTIONS = ["alpha_invariance and undeclared_rejected for whole programs rest on the byte-level compiler correspondence plus the proved symbol-table theorems; they are not yet whole-compiler theorems"]
NOTES = ["proved (all tables, all names): resolve = documented lookup, define/slot facts, block/function exit restores the table, context isolation, renaming invariance, rollback"]

DIRECTED = [
    "stel a = 1; stel a = 2; a",
    "stel a = 1; { stel a = 2; a = 3 } a",
    "stel a = 1; functie f() { stel a = 5; a = a + 1; a } f() + a",
    "stel a = 1; functie f() { a } functie g() { stel a = 2; f() } g()",
    "stel x = 1; { stel y = 2; { stel x = y + 1; y = x } x = y } x",
    "functie f(a) { { stel a = a + 1; a = a * 2 } a } f(5)",
    "stel i = 0; stel s = 0; zolang i < 3 { stel t = i * 2; { stel t = 100; s = s + t } s = s + t; i = i + 1 } s",
    "functie f(n) { stel r = 0; als n > 0 { stel r = 5; r = 6 } r } f(1)",
    "stel a = 1; als ja { stel b = a; stel a = b + 1; a } anders { 0 }",
    "functie fac(n) { als n < 2 { antwoord 1 } n * fac(n - 1) } stel n = 4; fac(n) + n",
    "functie f() { functie g(x) { x + 1 } g(1) } f()",
    "stel f = functie(a) { functie(b) { b }  } 1",
]


def run(ctx, log):
    rng = ctx.rng
    n = 500 if ctx.quick else 8000
    srcs, asts = progcheck.gen_sources(ctx, n, max_depth=3, floats=False)
    base = DIRECTED + srcs
    obs = progcheck.pipeline(ctx, base, log, budget=20000, label="scoped-programs")
    comp, ev = obs["compile"], obs["eval"]
    for s, c in zip(base, comp):
        ctx.seen(s, nontrivial=c.startswith("OK"))
    # metamorphic variants on the implementation itself
    v_src, v_kind, v_base = [], [], []
    for k, (a, s) in enumerate(zip(asts, srcs)):
        i = len(DIRECTED) + k
        if not comp[i].startswith("OK"):
            continue
        names = sorted(x for x in astops.names_in(a) if x not in nlast.BUILTINS)
        if names:
            old = rng.choice(names)
            v_src.append(nlast.to_source(astops.rename(a, old, "hernoemd_" + old)))
            v_kind.append("rename")
            v_base.append(i)
        nb = astops.inner_blocks(a)
        if nb and names:
            kblk = rng.randrange(nb)
            pick = rng.choice(names)
            def stmt_for(b, pick=pick):
                return None if pick in astops.names_in(b) else ("let", pick, ("int", 0))
            a2 = astops.insert_in_block(a, kblk, stmt_for)
            if a2 != a:
                v_src.append(nlast.to_source(a2))
                v_kind.append("shadow")
                v_base.append(i)
        nu = astops.ident_uses(a)
        for pos in (range(nu) if (not ctx.quick or k < 60) else rng.sample(range(nu), min(nu, 2))):
            v_src.append(nlast.to_source(astops.replace_use(a, pos, "nergens_gedeclareerd")))
            v_kind.append("undeclared")
            v_base.append(i)
    vc = vlib.nlh("compile", [vlib.hexs(s) for s in v_src], tag="c09vc")
    ve = vlib.nlh("eval", ["20000 " + vlib.hexs(s) for s in v_src], tag="c09ve")
    for s, kind, bi, c, e in zip(v_src, v_kind, v_base, vc, ve):
        ctx.seen((kind, s))
        ctx.count("variant:" + kind)
        if kind == "rename":
            if c != comp[bi]:
                ctx.violate("consistent renaming of a variable changed the bytecode", source=base[bi], variant=s, observed=c[:300], expected=comp[bi][:300])
            elif progcheck.visible(e) != progcheck.visible(ev[bi]):
                ctx.violate("consistent renaming of a variable changed the outcome", source=base[bi], variant=s, observed=progcheck.visible(e), expected=progcheck.visible(ev[bi]))
        elif kind == "shadow":
            if progcheck.visible(e) != progcheck.visible(ev[bi]) and not ev[bi].startswith("BUDGET"):
                ctx.violate("an unused shadowing declaration in an inner block changed the outcome", source=s, original=base[bi], observed=progcheck.visible(e), expected=progcheck.visible(ev[bi]))
        else:
            if not (progcheck.head(e) == "ERR Reference" and progcheck.out_of(e) == "OUT -" and "STEPS 0" in e):
                ctx.violate("a program that uses an undeclared name was not rejected with a reference error before producing output", source=s, observed=e[:300], expected="ERR Reference | OUT -")
    log("variants: %s" % {k: v for k, v in ctx.stats.items() if k.startswith("variant:")})
    ctx.sample(dict(source=base[2], compile=comp[2][:120], eval=ev[2][:120]))
    if v_src:
        ctx.sample(dict(variant=v_kind[0], source=v_src[0][:300], eval=ve[0][:120]))


def replay(ctx, data, log):
    progcheck.replay_source(ctx, data, log)
