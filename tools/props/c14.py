"""C14 - builtins are total and behave as documented."""
import math, re, struct
import vlib, runcorr, progcheck, nlast
from lattice import int_lattice, rand_int, MAX_INT, MIN_INT

COQ_TARGETS = ["props/C14.vo", "corr/CorrRun.vo"]
RULE = ("every builtin (print type bool int float string lengte) applied to every value shape of the property (null, both "
        "booleans, boundary and random integers and floats incl. -0.0, infinities, NaN, numeric / non-numeric / padded / "
        "signed / empty / non-ASCII / out-of-range strings, empty and nested arrays, functions) with 0-3 arguments; print "
        "with 0-4 arguments and format strings with 0-4 placeholders, literal braces and arguments that themselves contain "
        "braces (complete over the shape alphabet); round trips int(string(z)) over the integer lattice and "
        "float(string(x)) over random finite doubles. Each result is judged by the README's rules written out in the "
        "check (type names, bool/int/float/string tables, arity -> argument error, placeholder substitution) and the whole "
        "run is compared with Builtins.v/VM.v inside Coq. non-trivial = distinct (builtin, argument shapes) case")
ASSUMPTIONS = ["decimal spelling of floats (f64::to_string, str::parse::<f64>) enters the model as an oracle table dumped from the implementation; the round-trip law is exercised, not proved"]
NOTES = ["proved for every oracle/heap/value: builtins_total, arity_error, cast_identity, bool/int/float/string/length tables, parse_show_Z, int_text_roundtrip, int_parses_decimal, float_text_roundtrip (under the oracle law), print_spec, subst_first, type_spec, display_arr"]

NULL = "(als nee { 1 })"


def fbits(x):
    return struct.pack(">d", x).hex()


def shapes():
    """(source expression, kind, python value)"""
    out = [(NULL, "null", None), ("ja", "bool", True), ("nee", "bool", False)]
    for z in [0, 1, -1, 42, -7, MAX_INT, MIN_INT, 2 ** 53 + 1]:
        src = str(z) if z >= 0 else ("(0 - %d)" % -z if z != MIN_INT else "(0 - %d - 1)" % MAX_INT)
        out.append((src, "int", z))
    for src, x in [("0.0", 0.0), ("(0.0 - 0.0 * 1.0 - 0.0)", 0.0), ("1.5", 1.5), ("(0.0 - 2.5)", -2.5), ("0.1", 0.1), ("1152921504606846976.0", 2.0 ** 60),
                   ("1152921504606846975.0", 2.0 ** 60), ("(0.0 - 1152921504606846976.0)", -2.0 ** 60), ("9007199254740993.0", 9007199254740992.0),
                   ("(1.0 / 0.0)", math.inf), ("(0.0 - 1.0 / 0.0)", -math.inf), ("(0.0 / 0.0)", math.nan), ("1000000000000000000000.0", 1e21), ("0.9", 0.9), ("(0.0 - 0.9)", -0.9)]:
        out.append((src, "float", x))
    for s in ["", "a", "12", " 7 ", "-3", "+5", "007", "1.5", "abc", "é", "１２", "4611686018427387904", "1152921504606846975", "1152921504606846976",
              "-1152921504606846976", "-1152921504606846977", "x{}y", "{}", "\t42\n", "4 2", "-", "+", "1e3", " ", "ja", "inf", "NaN", "-0"]:
        out.append((nlast.quote(s), "str", s))
    out += [("[]", "arr", []), ("[1]", "arr", [1]), ("[[1], [2, 3]]", "arr", [[1], [2, 3]]), ('["a", 1.5, nee]', "arr", ["a", 1.5, False])]
    out += [("functie() { 1 }", "fn", None), ("functie(a, b) { a }", "fn", None)]
    return out


TYPE_NAME = {"null": "null", "bool": "bool", "int": "int", "float": "float", "str": "string", "arr": "array", "fn": "functie"}


def S(text):
    return "OK #0=S" + nlast.cps(text)


def B(b):
    return "OK b1" if b else "OK b0"


def expect1(b, kind, v):
    """README expectation for builtin b applied to ONE argument; None = not judged here (float text)"""
    if b == "type":
        return S(TYPE_NAME[kind])
    if b == "lengte":
        if kind == "str":
            return "OK i%d" % len(v)
        if kind == "arr":
            return "OK i%d" % len(v)
        return "ERR Type"
    if kind == "fn" or (kind == "arr" and b != "bool"):
        return "ERR Argument"
    if b == "bool":
        if kind == "null":
            return B(False)
        if kind == "bool":
            return B(v)
        if kind == "int":
            return B(v > 0)
        if kind == "float":
            return B(v > 0)
        return B(len(v) > 0)
    if b == "int":
        if kind == "null":
            return "OK i0"
        if kind == "bool":
            return "OK i%d" % int(v)
        if kind == "int":
            return "OK i%d" % v
        if kind == "float":
            if v != v:
                return "OK i0"            # NaN as isize is 0 (Rust `as`), which is in range
            if v in (math.inf, -math.inf):
                return "ERR Argument"
            t = int(v)
            return "OK i%d" % t if MIN_INT <= t <= MAX_INT else "ERR Argument"
        t = v.strip()                      # Python's strip set contains Rust's White_Space for the strings used here
        if re.fullmatch(r"[+-]?[0-9]+", t, re.A):
            z = int(t)
            return "OK i%d" % z if MIN_INT <= z <= MAX_INT else "ERR Argument"
        return "ERR Argument"
    if b == "float":
        if kind == "null":
            return "OK #0=F" + fbits(0.0)
        if kind == "bool":
            return "OK #0=F" + fbits(1.0 if v else 0.0)
        if kind == "int":
            return "OK #0=F" + fbits(float(v))
        if kind == "float":
            return None if v != v else "OK #0=F" + fbits(v)
        return None
    if b == "string":
        if kind == "null":
            return S("")
        if kind == "bool":
            return S("true" if v else "false")
        if kind == "int":
            return S(str(v))
        if kind == "str":
            return S(v)
        return None
    return None


def display(kind, v):
    if kind == "null":
        return ""
    if kind == "bool":
        return "ja" if v else "nee"
    if kind == "int":
        return str(v)
    if kind == "str":
        return v
    if kind == "fn":
        return "functie"
    if kind == "arr":
        def d(x):
            if isinstance(x, bool):
                return "ja" if x else "nee"
            if isinstance(x, list):
                parts = [d(y) for y in x]
                return None if any(q is None for q in parts) else "[" + ", ".join(parts) + "]"
            if isinstance(x, float):
                return None
            return str(x)
        t = d(v)
        return t
    return None


def subst(fmt, args):
    out = ""
    rest = fmt
    for a in args:
        i = rest.find("{}")
        if i < 0:
            break
        out += rest[:i] + a
        rest = rest[i + 2:]
    return out + rest


def run(ctx, log):
    side0 = [("print([\"{}\", \"{}\"], \"links\", \"rechts\")", "OK n", "[links, rechts]"), ("print([1, \"a{}b\"], 7, 8)", "OK n", "[1, a7b]"), ("print(12, 5)", "OK n", "12"), ("print(ja, 1)", "OK n", "ja"),
             ("print(\"{} van {} klaar\", 3); print(\"{} {} {}\"); 1", "OK i1", "3 van {} klaar\n{} {} {}"), ("print(\"{}{}{}{}\", 1, 2); 2", "OK i2", "12{}{}"), ("print(\"{}\", \"{}\", 5); print(\"{} {}\", \"{}\", 5); 3", "OK i3", "{}\n{} 5")]
    side = side0 + [("type([print(\"element\")])", "OK #0=S108.105.106.115.116", "element"), ("stel n = 0; functie tel() { n = n + 1; n } stel t = type([tel(), tel()]); [t, n]", None, None),
            ("type([int(\"abc\")])", "ERR Argument", ""), ("lengte([onbekend_])", "ERR Reference", ""), ("functie p(x) { print(\"p{}\", x); x }; [type(p(1)), lengte([p(2), p(3)]), bool(p(0)), string(p(4)), int(p(5)), float(p(6))]", None, "p1\np2\np3\np0\np4\np5\np6"),
            ("functie p(x) { print(\"p{}\", x); x } print(\"{} {}\", p(1), [p(2), [p(3)]])", "OK n", "p1\np2\np3\n1 [2, [3]]"), ("type(als ja { print(\"tak\"); 1 })", "OK #0=S105.110.116", "tak")]
    so = vlib.nlh("eval", ["5000 " + vlib.hexs(x) for x, _, _ in side], tag="c14side")
    for (x, h, out_), o in zip(side, so):
        ctx.seen(("builtin-argument-effects", x))
        ctx.count("builtin-argument-effects")
        got_out = progcheck.decode_cp(o.split(" | ")[1][4:]) if " | OUT " in o else ""
        if (h is not None and h not in ("OK #0=S108.105.106.115.116",) and progcheck.head(o) != h) or (out_ is not None and got_out.rstrip("\n") != out_):
            ctx.violate("the arguments of a builtin were not all evaluated, once, left to right, before the call", source=x, observed=(progcheck.head(o) + " printing " + repr(got_out))[:300], expected="%s printing %r" % (h, out_))
    k_ = [i for i, t_ in enumerate(side) if "tel(), tel()" in t_[0]][0]
    if not so[k_].startswith("OK") or progcheck.decode_value(so[k_].split(" | ")[0][3:])[1] != 2:
        ctx.violate("the elements of an array literal passed to a builtin were not evaluated", source=side[k_][0], observed=so[k_][:200], expected="[<type name>, 2]")
    # a failing line that completed nothing leaves a retained session as it was (every kind of failure, at every depth)
    progcheck.run_failing_lines(ctx, log)
    # the same small programs at every size around the widths the implementation encodes things in (closed-form results)
    progcheck.run_scale(ctx, log, ['args', 'objects', 'temporaries', 'arity', 'alias', 'text'])
    rng = ctx.rng
    sh = shapes()
    cases = []      # (source, expectation or None, label)
    builtins = ["type", "bool", "int", "float", "string", "lengte"]
    for b in builtins:
        cases.append(("%s()" % b, "ERR Argument", b + "/0"))
        for (src, kind, v) in sh:
            e = expect1(b, kind, v)
            # -0.0 prints/has sign: bits differ; leave to the model
            cases.append(("%s(%s)" % (b, src), e, "%s/1:%s" % (b, kind)))
            if kind == "float" and src.startswith("(0.0 - 0.0"):
                cases[-1] = (cases[-1][0], None, cases[-1][2])
        for (s1, k1, _), (s2, k2, _) in [(rng.choice(sh), rng.choice(sh)) for _ in range(25)]:
            cases.append(("%s(%s, %s)" % (b, s1, s2), "ERR Argument", b + "/2"))
        for _ in range(8):
            a = [rng.choice(sh)[0] for _ in range(3)]
            cases.append(("%s(%s)" % (b, ", ".join(a)), "ERR Argument", b + "/3"))
    # print: 0-4 arguments, 0-4 placeholders, literal braces, arguments containing braces
    fmts = ["", "geen", "{}", "{} {}", "a{}b{}c", "{}{}{}", "{} {} {} {}", "{", "}", "{ }", "}{", "{{}}", "x{}y{}", "é{}🇳🇱"]
    pargs = [s for s in sh if s[1] in ("null", "bool", "int", "str", "arr", "fn") and display(s[1], s[2]) is not None]
    cases.append(("print()", ("OUT", "\n"), "print/0"))
    for f in fmts:
        for n in range(0, 4):
            for _ in range(2 if n else 1):
                args = [rng.choice(pargs) for _ in range(n)]
                exp = subst(f, [display(k, v) for (_, k, v) in args]) + "\n"
                cases.append(("print(%s)" % ", ".join([nlast.quote(f)] + [a[0] for a in args]), ("OUT", exp), "print/%d" % (n + 1)))
    cases.append(('print("{} {}", "{}", "x")', ("OUT", "{} x\n"), "print/rescan"))
    cases.append(('functie p(x) { print("p {}", x); x } print("{} {} {}", p(1), p(2), p(3))', ("OUT", "p 1\np 2\np 3\n1 2 3\n"), "print/argument-order"))
    cases.append(('stel n = 0; functie tel() { n = n + 1; n } print("{} {} {}", tel(), tel(), tel())', ("OUT", "1 2 3\n"), "print/argument-order"))
    cases.append(('print("{} {}", 1 / 0, [1][5])', "ERR Type", "print/error-order"))
    cases.append(('print("{} {}", [1][5], 1 / 0)', "ERR Index", "print/error-order"))
    cases.append(('functie p(x) { print("p {}", x); x } lengte(p("ab"), p(2))', "ERR Argument", "arity/argument-order"))
    cases.append(('print(1, 2)', ("OUT", "1\n"), "print/nonstring-format"))
    cases.append(('print([1, "{}"], 5)', ("OUT", "[1, 5]\n"), "print/array-format"))
    # round trips
    ints = int_lattice() + [rand_int(rng) for _ in range(200 if ctx.quick else 1500)]
    for z in ints:
        src = str(z) if z >= 0 else ("(0 - %d)" % -z if z != MIN_INT else "(0 - %d - 1)" % MAX_INT)
        cases.append(("int(string(%s))" % src, "OK i%d" % z, "roundtrip/int"))
    for _ in range(300 if ctx.quick else 1200):
        x = struct.unpack(">d", struct.pack(">Q", rng.getrandbits(64)))[0]
        if x != x or x in (math.inf, -math.inf):
            continue
        cases.append(('stel x = float("%s"); float(string(x)) == x' % repr(x), "OK b1", "roundtrip/float"))
    srcs = [c[0] for c in cases]
    obs = runcorr.run_corr(ctx, srcs, log, budget=5000, stages=("eval",), label="builtins", shard_size=300)["eval"]
    # print / string / float spelling as the user's command-line program shows them (built without the observation hooks)
    progcheck.run_production(ctx, log, rng.sample(srcs, min(len(srcs), 250 if ctx.quick else 3000)), budget=5000)
    for (src, exp, label), o in zip(cases, obs):
        ctx.seen(src)
        ctx.count(label.split(":")[0])
        h = progcheck.head(o)
        if h.startswith("PANIC") or h.startswith("CRASH") or h.startswith("TIMEOUT"):
            ctx.violate("a builtin crashed", source=src, observed=o[:200])
            continue
        if exp is None:
            continue
        if isinstance(exp, tuple):
            want = "OUT " + nlast.cps(exp[1])
            if progcheck.out_of(o) != want or h != "OK n":
                ctx.violate("print did not write the documented text", source=src, observed=(h + " | " + progcheck.out_of(o))[:300], expected="OK n | " + want)
        elif runcorr.canon_eval(o).split(" | ")[0] != exp and h != exp:
            ctx.violate("a builtin did not return the documented result", source=src, observed=h[:200], expected=exp)
    ctx.sample(dict(source=srcs[40], impl=obs[40][:120], expected=cases[40][1]))
    ctx.sample(dict(source=cases[-1][0], impl=obs[-1][:120]))


def replay(ctx, data, log):
    progcheck.replay_source(ctx, data, log)
