"""C07 - source text denotes one tree: precedence, associativity, layout-independence."""
import re
import progcheck, vlib, front, gensyn, nlast
from nlast import Layout

COQ_TARGETS = ["props/C07.vo", "corr/CorrFront.vo", "corr/CorrPrinter.vo"]
RULE = ("(1) expression trees over every operator pair (quick: depth 2 complete over a 2-atom alphabet + sampled depth 3; "
        "thorough: depth 3 over 3 atoms sampled densely) and random statement-level trees, each printed with minimal "
        "parentheses by the generator's printer (the rule of spec/Printer.v) and again under random layouts (all "
        "white-space forms, comments, redundant parentheses, optional ; and , omitted wherever not required, else-if "
        "chains): the REAL parser must return exactly the tree that was printed; (2) the same texts through Lexer.v/"
        "Parser.v inside Coq (tree or error kind must agree); (3) the Coq printer of the theorems (Printer.v + "
        "RenderSpec.v) evaluated inside Coq on a sample, its text handed to the real parser: same tree. "
        "non-trivial = distinct (tree, layout) text with at least one operator or statement keyword")
ASSUMPTIONS = ["layout variants (optional separators, redundant parentheses, else-if chains, comments) are proved at token level for white space/comments (C08 lex_render) and explored for the rest; the deterministic-layout round trip is proved for all trees"]
NOTES = ["proved: parse_tokens_print (all trees in the parser's image), wf_complete, precedence_documented, left_assoc, higher_binds_tighter, prefix_quirk, op_assign_desugars"]


def run(ctx, log):
    # comments of every content (several multi-byte characters, trailing backslashes, quotes, code) change nothing
    progcheck.run_comments(ctx, log, mode='parse')
    # the same small programs at every size around the widths the implementation encodes things in (closed-form results)
    progcheck.run_scale(ctx, log, ['statements', 'nesting'])
    rng = ctx.rng
    atoms = [("id", "a"), ("int", 1)] if ctx.quick else [("id", "a"), ("int", 1), ("id", "b")]
    trees = [[("expr", e)] for e in gensyn.enum_exprs(2, atoms)]
    ctx.exhaustive = False
    d3 = gensyn.enum_exprs(1, atoms)
    extra = []
    for _ in range(1500 if ctx.quick else 40000):
        # sampled depth 3: an operator over two depth-2 trees
        l = rng.choice(trees)[0][1]
        r = rng.choice(trees)[0][1]
        extra.append([("expr", ("infix", rng.choice(nlast.BINOPS), l, r))])
    trees += extra
    for _ in range(1500 if ctx.quick else 30000):
        trees.append(gensyn.gen_program(rng, d=rng.randint(2, 4)))
    # names that a language might have reserved: as variable, parameter, function name, op-assignment target
    for w in ["waar", "onwaar", "true", "false", "nul", "null", "nil", "niets", "en", "of", "niet", "not", "and", "or", "if", "else", "while", "for", "voor", "in", "tot", "doe", "einde", "end", "return", "geef", "break",
              "continue", "let", "var", "def", "fn", "function", "klasse", "class", "nieuw", "dit", "zelf", "lijst", "tekst", "getal", "andersals", "herhaal", "totdat", "Ja", "Nee", "Als", "Stel", "Functie", "ja_", "alsof", "stelt", "neen"]:
        trees.append([("let", w, ("int", 1)), ("expr", ("assign", ("id", w), ("infix", "+", ("id", w), ("int", 1)))), ("expr", ("fn", "f_" + w, [w], [("expr", ("id", w))])), ("expr", ("fn", w, ["p"], [("expr", ("id", "p"))])), ("expr", ("call", ("id", w), [("id", w)]))])
    for t_ in ["\"privé\"", "é\\n", "a\\é\"", "🇳🇱\"", "\\", "tab\ten é", "{}\"€\"", "語\\語"]:
        trees.append([("expr", ("str", t_))])
        trees.append([("let", "s", ("str", t_)), ("expr", ("call", ("id", "lengte"), [("id", "s")]))])
        trees.append([("expr", ("array", [("str", t_), ("str", "x"), ("str", t_)]))])
    for fl_ in ["1.14", "1.36", "1.39", "1.57", "1.118", "0.1", "2.5", "3.14", "5.55", "1.00", "0.3", "7.07", "12.34", "99.99", "100.01", "4.35", "0.57", "1.005", "8.41", "2.675"] + ["%d.%02d" % (rng.randint(0, 300), rng.randint(0, 99)) for _ in range(150 if ctx.quick else 3000)]:
        trees.append([("expr", ("float", fl_))])
        trees.append([("expr", ("infix", "+", ("float", fl_), ("float", fl_)))])
    for z_ in [0, 1, 9, 10, 255, 256, 65535, 65536, 2 ** 31 - 1, 2 ** 31, 2 ** 32, 2 ** 53, 2 ** 53 + 1, 2 ** 59, 2 ** 60 - 2, 2 ** 60 - 1]:
        trees.append([("expr", ("int", z_))])
        trees.append([("expr", ("infix", "-", ("int", z_), ("int", z_)))])
        trees.append([("let", "g", ("int", z_)), ("expr", ("prefix", "-", ("id", "g")))])
    fnl = ("fn", "dubbel", ["x"], [("expr", ("infix", "*", ("id", "x"), ("int", 2)))])
    anon = ("fn", "", ["x"], [("expr", ("id", "x"))])
    for callee in (fnl, anon):
        trees.append([("expr", ("call", callee, [("int", 5)]))])
        trees.append([("let", "r", ("call", callee, [("int", 5)])), ("expr", ("id", "r"))])
        trees.append([("expr", ("infix", "+", ("call", callee, [("int", 5)]), ("int", 1)))])
        trees.append([("expr", callee), ("expr", ("int", 5))])                 # a function statement FOLLOWED by a separate statement
    for alt in ([], [("expr", ("int", 1))]):
        trees.append([("expr", ("if", ("id", "a"), [("expr", ("int", 1))], alt))])
        trees.append([("expr", ("if", ("id", "a"), [], alt))])
        trees.append([("expr", ("if", ("id", "a"), [("expr", ("int", 1))], [("expr", ("if", ("id", "b"), [("expr", ("int", 2))], alt))]))])
        trees.append([("expr", ("while", ("id", "a"), alt))])
        trees.append([("expr", ("fn", "leeg", [], alt))])
        trees.append([("block", alt)])
    log("%d trees" % len(trees))
    texts, expect, which = [], [], []
    nlay = 3 if ctx.quick else 10
    for ti, t in enumerate(trees):
        try:
            canon = "OK " + nlast.sx_block(t)
        except Exception:
            continue
        variants = [nlast.to_source(t)]
        for _ in range(nlay if (ti % 4 == 0 or not ctx.quick) else 1):
            L = Layout(rng, extra_parens=rng.choice([0.0, 0.15, 0.4]), drop_sep=rng.choice([0.0, 0.5, 1.0]), chain=0.6, sugar=0.5)
            try:
                variants.append(nlast.to_source(t, L, rng, ws=rng.choice([0.0, 0.3]), comments=rng.choice([0.0, 0.2])))
            except AssertionError:
                ctx.count("printer-declined")
        for v in variants:
            texts.append(v)
            expect.append(canon)
            which.append(ti)
    obs = vlib.nlh("parse", [vlib.hexs(s) for s in texts], tag="c07p", timeout=120)
    for s, e, o in zip(texts, expect, obs):
        ctx.seen(s, nontrivial=len(s) > 3)
        if o != e:
            ctx.violate("parsing the printed form of a tree did not give back that tree", source=s, observed=o[:400], expected=e[:400])
    log("%d printed texts parsed by the implementation" % len(texts))
    # text-first: hand-written texts around the parser's quirks (else-if chains followed by operators and separators, prefix
    # operators, op-assignment shapes, calls vs separate statements) - implementation and Parser.v must read the same tree
    quirk = ["als a {1} anders als b {2} anders {3} + 10", "als a {1} anders als b {2} + 3", "als a {1} anders als b {2}; -3", "als a {1} anders als b {2}; 3", "als a {1} anders als b {2} 3",
             "stel x = als a {1} anders als b {2} anders {3} + 10; x", "[als a {1} anders als b {2} anders {3} * 2, 4]", "f(als a {1} anders als b {2} anders {3} - 1)", "als a {1} anders als b {2} anders als c {3} anders {4} == 4",
             "als a {1} anders { als b {2} anders {3} } + 10", "(als a {1} anders als b {2} anders {3}) + 10", "als a {1} anders als b {2} anders {3}\n+ 10", "als a {1} anders als b {2} anders {3} [0]", "als a {1} anders als b {2} anders {3} (4)",
             "-a * b", "-a + b", "!a == b", "- - a", "!-a", "-a[0]", "-f(1)", "a - -b", "a == = 1", "a < = 2", "a + = b = 1", "a += b = 1", "a += b += 1", "a = b = 1", "a ; (b)", "a (b)", "a\n(b)", "[a, [b]]", "[a [b]]", "[1 -2]", "[1, -2]",
             "stel f = functie(x) { x } (1)", "functie(x) { x }(1)(2)", "a[0][1]", "f(1)(2)", "f(1)[0]", "\"s\"[0]", "[1][0]", "(a)(1)", "([1])[0]", "a.b", "1 . 2", "zolang a { } + 1", "{ 1 } + 2", "{ 1 } - 2", "{ } [1]", "antwoord 1 + 2", "stel a = 1 stel b = 2", "stop volgende", "als a {1} anders {2} anders {3}"]
    front.front_corr(ctx, quirk, ("parse",), log, label="quirk-texts")
    pairs = [("als a {1} anders als b {2} anders {3} + 10", "als a {1} anders { als b {2} anders {3} + 10 }"), ("als a {1} anders als b {2} + 3", "als a {1} anders { als b {2} + 3 }"),
             ("x = als a {1} anders als b {2} anders {3} * 2", "x = als a {1} anders { als b {2} anders {3} * 2 }"), ("als a {1} anders als b {2}; 3", "als a {1} anders { als b {2} } 3"),
             ("[als a {1} anders als b {2} anders {3} - 1, 4]", "[als a {1} anders { als b {2} anders {3} - 1 }, 4]"), ("als a {1} anders als b {2} anders als c {3} == 4", "als a {1} anders { als b {2} anders { als c {3} == 4 } }"),
             ("f(als a {1} anders als b {2} anders {3} [0])", "f(als a {1} anders { als b {2} anders {3} [0] })"), ("als a {1} anders als b {2} anders {3}", "als a {1} anders { als b {2} anders {3} }")]
    po = vlib.nlh("parse", [vlib.hexs(x) for pr in pairs for x in pr], tag="c07q")
    for k, (chain, braces) in enumerate(pairs):
        ctx.seen(chain)
        if po[2 * k] != po[2 * k + 1]:
            ctx.violate("an `anders als` chain and the same chain written with braces denote different trees", source=chain, observed=po[2 * k][:300], expected=po[2 * k + 1][:300])
    # (2) model correspondence on a sample
    idx = list(range(len(texts)))
    rng.shuffle(idx)
    pick = sorted(i for i in idx[:2500 if ctx.quick else 30000] if len(texts[i]) < 600)
    front.front_corr(ctx, [texts[i] for i in pick], ("parse",), log, label="parser")
    # (3) the Coq printer's text through the real parser
    sample = [texts[i] for i in pick if "." not in texts[i] and obs[i].startswith("OK")][:400 if ctx.quick else 4000]
    utab, _ = front.oracle_tables(sample, tag="c07u")
    hdr = "From NL.Corr Require Import CorrPrinter.\nOpen Scope Z_scope.\nDefinition utab : list (N * bool * bool) := [%s]." % "; ".join(utab)
    chunks = [sample[i:i + 50] for i in range(0, len(sample), 50)]
    reprinted = []
    items = ["(%s)" % vlib.coq_text(s) for s in sample]
    shards, results, errors = vlib.run_coq_shards(ctx.prop, hdr, items, lambda: "Eval vm_compute in (reprint_all utab cases).", shard_size=50, tag="reprint")
    for e in errors:
        ctx.broken.append(dict(kind="corr-shard", what=e))
    for k, sh in enumerate(shards):
        out = results.get(k)
        if out is None:
            reprinted += [None] * len(sh)
            continue
        m = re.search(r"=\s*(\[.*\])\s*:\s*(text|list N|list cp)", out, re.S)
        if not m:
            ctx.broken.append(dict(kind="corr-output", what=out[-300:]))
            reprinted += [None] * len(sh)
            continue
        cps = [int(x) for x in re.findall(r"\d+", m.group(1).replace("%N", ""))]
        cur, got = [], []
        for c in cps:
            if c == 0:
                got.append("".join(chr(x) for x in cur))
                cur = []
            else:
                cur.append(c)
        reprinted += got + [None] * (len(sh) - len(got))
    pairs = [(s, r) for s, r in zip(sample, reprinted) if r]
    o1 = vlib.nlh("parse", [vlib.hexs(s) for s, _ in pairs], tag="c07a")
    o2 = vlib.nlh("parse", [vlib.hexs(r) for _, r in pairs], tag="c07b")
    nbad = 0
    for (s, r), a, b in zip(pairs, o1, o2):
        ctx.count("coq-printer-roundtrip")
        if a != b:
            nbad += 1
            ctx.violate("the text the Coq printer (spec/Printer.v) writes for the tree of this source parses to a different tree in the implementation", source=s, printed=r, observed=b[:300], expected=a[:300])
    log("coq printer: %d texts printed inside Coq and re-parsed by the implementation, %d differ (%d not in the float-free image)" % (len(pairs), nbad, len(sample) - len(pairs)))
    ctx.sample(dict(source=texts[5], tree=obs[5][:200]))
    if pairs:
        ctx.sample(dict(source=pairs[0][0][:200], coq_printed=pairs[0][1][:200]))


def replay(ctx, data, log):
    src = data.get("source")
    if not src:
        log("nothing to replay")
        return
    o = vlib.nlh("parse", [vlib.hexs(src)], tag="c07r")[0]
    log("source: %s\nimplementation now: %s\nexpected: %s" % (src, o, data.get("expected")))
    if data.get("expected") and o != data["expected"]:
        ctx.violate("replayed: the tree still differs", source=src, observed=o[:400], expected=data["expected"][:400])
