"""C06 - operators are exact over the whole value range, negatives and limits included."""
import struct
import progcheck, vlib
from lattice import int_lattice, rand_int, rand_float_bits, FLOAT_SPECIALS, MAX_INT, MIN_INT

COQ_TARGETS = ["props/C06.vo", "corr/CorrOps.vo"]
NEEDS_DEBUG = True
RULE = ("eval on `a op b` in three syntactic forms (globals: generic instruction; variable op literal and literal op "
        "variable inside a function: fused instructions), 11 arithmetic/comparison operators + && ||, operands from "
        "the integer boundary lattice (all pairs of the most extreme values + seeded sample of the cross product; "
        "complete in the thorough tier), random 61-bit pairs, float specials and random bit patterns, strings incl. "
        "multi-byte, and all 7x7 type combinations; each result compared inside Coq with Ops.v (model) and "
        "ArithSpec.v (specification), release build; extreme pairs repeated on the debug build. "
        "non-trivial = distinct (form, operator, operands) whose result is not a cross-type error")
ASSUMPTIONS = ["f64 % f64 enters the model as an oracle table dumped from the implementation (C fmod is no Coq primitive)",
               "str ordering in Rust is UTF-8 byte order, modelled as code-point order (equal for valid UTF-8)"]

OPS = [("+", "OpAdd"), ("-", "OpSubtract"), ("*", "OpMultiply"), ("/", "OpDivide"), ("%", "OpModulo"),
       ("<", "OpLt"), ("<=", "OpLte"), (">", "OpGt"), (">=", "OpGte"), ("==", "OpEq"), ("!=", "OpNeq"),
       ("&&", "OpAnd"), ("||", "OpOr")]
STRS = ["", "a", "b", "ab", "aa", "é", "e", "z", "🇳", "abé", "A", "10", "9"]


def int_src(z):
    if z >= 0:
        return str(z)
    if z == MIN_INT:
        return "(-%d - 1)" % (-(z + 1))
    return "(-%d)" % (-z)


def float_of_bits(b):
    return struct.unpack(">d", bytes.fromhex(b))[0]


def operand_src(d):
    k, v = d
    if k == "i":
        return int_src(v)
    if k == "F":
        x = float_of_bits(v)
        if x != x:
            return "(0.0/0.0)"
        r = repr(x)
        if "e" in r or "inf" in r or len(r) > 18 or r.startswith("-") or "." not in r:
            return 'float("%s")' % r
        return r
    if k == "S":
        from nlast import quote
        return quote(v)
    if k == "b":
        return "ja" if v else "nee"
    if k == "n":
        return "(als nee { 1 })"
    if k == "A":
        return "[1]"
    if k == "f":
        return "functie() { 1 }"


def desc_coq(d):
    k, v = d
    return {"n": lambda: "DNull", "b": lambda: "(DBool %s)" % ("true" if v else "false"), "i": lambda: "(DInt %s)" % vlib.coq_z(v),
            "F": lambda: "(DFloat %s)" % vlib.coq_float(v), "S": lambda: "(DStr %s)" % vlib.coq_text(v)}[k]()


def program(form, op, a, b):
    A, B = operand_src(a), operand_src(b)
    if form == "FGeneric":
        return "stel a = %s; stel b = %s; a %s b" % (A, B, op)
    if form == "FLocal":
        return "functie f(x, y) { x %s y } f(%s, %s)" % (op, A, B)
    if form == "FFusedRight":
        return "functie f(x) { x %s %s } f(%s)" % (op, B, A)
    if form == "FFusedLeft":
        return "functie f(x) { %s %s x } f(%s)" % (A, op, B)
    if form == "FGlobalRightLit":
        return "stel a = %s; a %s %s" % (A, op, B)
    if form == "FGlobalLeftLit":
        return "stel b = %s; %s %s b" % (B, A, op)
    if form == "FGlobalInFunction":
        return "stel g = %s; functie f() { %s %s g } f()" % (B, A, op)
    if form == "FAfterProcedure":
        return "functie noteer(x) { stel laatste = x }; functie leeg() { }; noteer(1); leeg(); stel a = %s; noteer(a); stel b = %s; leeg(); a %s b" % (A, B, op)
    if form in ("FComputed", "FComputedLeft"):
        # operands that are RESULTS (fresh objects made at run time, texts edited in place), not literals: a value
        # compares by what it is, however it came about
        return "functie id_(v) { v }; %s %s a %s b" % (computed("a", a), computed("b", b) if form == "FComputed" else "stel b = %s;" % B, op)


def computed(name, d):
    k, _ = d
    src = operand_src(d)
    if k == "i":
        return "stel %s = id_(%s) + 0;" % (name, src)
    if k == "F":
        return "stel %s_ = [%s * 1.0]; stel %s = -(-(%s_[0]));" % (name, src, name, name)
    if k == "S":
        # built by two in-place edits that change the length: "qq", first q replaced by the text, last q deleted
        return "stel %s = \"qq\"; %s[0] = %s; %s[-1] = \"\";" % (name, name, src, name)
    return "stel %s = id_(%s);" % (name, src)


def parse_result(o):
    """-> coq res term, python tuple"""
    head = o.split(" | ")[0]
    if head.startswith("OK i"):
        return "(RInt %s)" % vlib.coq_z(int(head[4:])), ("i", int(head[4:]))
    if head.startswith("OK b"):
        return "(RBool %s)" % ("true" if head[4] == "1" else "false"), ("b", head[4] == "1")
    if head.startswith("OK #0=F"):
        bits = head[7:23]
        return "(RFloat %s)" % vlib.coq_float(bits), ("F", bits)
    if head.startswith("ERR "):
        k = head[4:]
        return "(RErr E%sError)" % k, ("E", k)
    return "ROther", ("?", head)


def run(ctx, log):
    # the same small programs at every size around the widths the implementation encodes things in (closed-form results)
    progcheck.run_scale(ctx, log, ['constants'])
    progcheck.run_special_constants(ctx, log)
    rng = ctx.rng
    lat = int_lattice()
    extreme = sorted(lat, key=lambda z: -abs(z))[:14] + [0, 1, -1, 2, -2, 7, -7, 3]
    pairs = set()
    for a in extreme:
        for b in extreme:
            pairs.add((a, b))
    n_rand = 700 if ctx.quick else 0
    if ctx.quick:
        for _ in range(n_rand):
            pairs.add((rng.choice(lat), rng.choice(lat)))
    else:
        for a in lat:
            for b in lat:
                pairs.add((a, b))
    for _ in range(300 if ctx.quick else 20000):
        pairs.add((rand_int(rng), rand_int(rng)))
    pairs = sorted(pairs)
    ext_pairs = {(x, y) for x in extreme for y in extreme} if not ctx.quick else {(x, y) for x in extreme[:8] for y in extreme[:8]}
    cases = []   # (form, opsym, opname, a, b)
    arith_cmp = OPS[:11]
    for (a, b) in pairs:
        if (a, b) in ext_pairs:
            ops = arith_cmp
        elif ctx.quick:
            ops = [rng.choice(arith_cmp) for _ in range(3)]
        else:
            # thorough: every pair of the complete lattice cross product is visited, with one operator chosen by the
            # pair and a random second one, in all forms (all 11 operators on the extreme pairs): about 8e5 cases
            ops = [arith_cmp[(a * 7 + b * 13) % 11], rng.choice(arith_cmp)]
        for sym, name in ops:
            cases.append(("FGeneric", sym, name, ("i", a), ("i", b)))
            if a >= 0 and b >= 0:
                cases.append((("FGlobalRightLit", "FGlobalLeftLit", "FGlobalInFunction")[(a + b) % 3], sym, name, ("i", a), ("i", b)))
            if b >= 0:
                cases.append(("FFusedRight", sym, name, ("i", a), ("i", b)))
            if a >= 0:
                cases.append(("FFusedLeft", sym, name, ("i", a), ("i", b)))
            if rng.random() < 0.15:
                cases.append(("FLocal", sym, name, ("i", a), ("i", b)))
    # the values that are special to THESE programs: an integer literal equal to the packed word of the function constant
    # of the same program (entry << 16 | locals, read from the real bytecode) is still that integer
    import re as _re
    probe = [program(f, "+", ("i", 5), ("i", 6)) for f in ("FLocal", "FFusedRight", "FFusedLeft")]
    packed = set()
    for o in vlib.nlh("compile", [vlib.hexs(s) for s in probe], tag="c06p"):
        for ip, nl in _re.findall(r" f(\d+)\.(\d+)", o):
            packed.add(int(ip) * 65536 + int(nl))
    ctx.count("packed-function-words", len(packed))
    for v in sorted(packed):
        for w in (v, v + 1, v - 1):
            for other in (w, 1, 0, 7):
                for sym, name in arith_cmp:
                    for (a, b) in ((w, other), (other, w)):
                        for form in ("FGeneric", "FFusedRight", "FFusedLeft", "FLocal"):
                            cases.append((form, sym, name, ("i", a), ("i", b)))
    # floats
    fl = list(FLOAT_SPECIALS) + [rand_float_bits(rng) for _ in range(12 if ctx.quick else 80)]
    fpairs = [(x, y) for x in fl for y in fl]
    # neighbouring values: one and two units in the last place apart are DIFFERENT numbers
    def bits_add(b, k):
        return "%016x" % ((int(b, 16) + k) & 0xFFFFFFFFFFFFFFFF)
    near = []
    for x in ["3ff0000000000000", "3fd3333333333333", "4330000000000000", "0010000000000000", "7fefffffffffffff", "3fb999999999999a", "4024000000000000", "0000000000000001", "bff0000000000000"] + [rand_float_bits(rng) for _ in range(6 if ctx.quick else 60)]:
        for k in (1, 2, -1):
            y = bits_add(x, k)
            fx, fy = float_of_bits(x), float_of_bits(y)
            if fx == fx and fy == fy and abs(fx) != float("inf") and abs(fy) != float("inf"):
                near.append((x, y))
                near.append((y, x))
    ctx.count("neighbouring-float-pairs", len(near))
    if ctx.quick:
        fpairs = rng.sample(fpairs, 350)
    for x, y in fpairs:
        for sym, name in (arith_cmp if not ctx.quick else rng.sample(arith_cmp, 4)):
            cases.append(("FGeneric", sym, name, ("F", x), ("F", y)))
    for x, y in (rng.sample(fpairs, 40) if ctx.quick else fpairs):
        for sym, name in (rng.sample(arith_cmp, 3) if ctx.quick else arith_cmp):
            cases.append(("FAfterProcedure", sym, name, ("F", x), ("F", y)))
    for x in STRS[:6]:
        for y in STRS[:6]:
            cases.append(("FAfterProcedure", "<", "OpLt", ("S", x), ("S", y)))
            cases.append(("FAfterProcedure", "==", "OpEq", ("S", x), ("S", y)))
    for x, y in near:
        for sym, name in OPS[5:11]:
            cases.append(("FGeneric", sym, name, ("F", x), ("F", y)))
            cases.append(("FComputed", sym, name, ("F", x), ("F", y)))
    # strings
    for x in STRS:
        for y in STRS:
            for sym, name in (OPS[5:11] if not ctx.quick else rng.sample(OPS[5:11], 2)):
                cases.append(("FGeneric", sym, name, ("S", x), ("S", y)))
    # the same comparisons on COMPUTED operands (all six, floats incl. NaN / signed zero / infinities, texts edited in place, integers)
    cmp_ops = OPS[5:11]
    for x, y in (rng.sample(fpairs, 60) if ctx.quick else fpairs):
        for sym, name in cmp_ops:
            cases.append(("FComputed", sym, name, ("F", x), ("F", y)))
            cases.append(("FComputedLeft", sym, name, ("F", x), ("F", y)))
    for x in FLOAT_SPECIALS:
        for sym, name in cmp_ops:
            cases.append(("FComputed", sym, name, ("F", x), ("F", x)))
            cases.append(("FComputedLeft", sym, name, ("F", x), ("F", x)))
    for x in STRS:
        for y in STRS:
            for sym, name in (cmp_ops if (not ctx.quick or x == y) else rng.sample(cmp_ops, 2)):
                cases.append(("FComputed", sym, name, ("S", x), ("S", y)))
                cases.append(("FComputedLeft", sym, name, ("S", x), ("S", y)))
    for (a, b) in list(ext_pairs)[:40] + [(rand_int(rng), rand_int(rng)) for _ in range(20)]:
        for sym, name in cmp_ops:
            cases.append(("FComputed", sym, name, ("i", a), ("i", b)))
    # every combination of types, every operator
    reps = [("n", None), ("b", True), ("b", False), ("i", 3), ("i", -4), ("F", "3ff8000000000000"), ("S", "ab"), ("A", None), ("f", None)]
    for x in reps:
        for y in reps:
            for sym, name in OPS:
                cases.append(("FGeneric", sym, name, x, y))
                if y[0] == "i" and y[1] >= 0:
                    cases.append(("FFusedRight", sym, name, x, y))
                if x[0] == "i" and x[1] >= 0:
                    cases.append(("FFusedLeft", sym, name, x, y))
    # prefix operators over the same lattice (unary minus is exact, with the range end -MIN_INT an error; ! on booleans)
    un = []
    for z in sorted(set(lat[:6] + lat[-6:] + [0, 1, -1, 7, -7, MAX_INT, MIN_INT, MIN_INT + 1, MAX_INT - 1] + [rng.choice(lat) for _ in range(40)])):
        exp = "OK i%d" % (-z) if MIN_INT <= -z <= MAX_INT else "ERR Type"
        for src in ("stel a = %s; -a" % int_src(z), "functie f(x) { -x } f(%s)" % int_src(z), "-%s" % int_src(z), "functie f(x) { stel y = -x; 0 - y } f(%s)" % int_src(z)):
            un.append((src, exp if not src.endswith("0 - y } f(%s)" % int_src(z)) else ("OK i%d" % z if MIN_INT <= -z <= MAX_INT else "ERR Type")))
    for src, exp in [("!ja", "OK b0"), ("!nee", "OK b1"), ("!1", "ERR Type"), ("-ja", "ERR Type"), ("-\"a\"", "ERR Type"), ("!(als nee { 1 })", "ERR Type"),
                     ("functie f(x) { !x } f(nee)", "OK b1"), ("-[1]", "ERR Type"), ("--5", "OK i5"), ("!!ja", "OK b1"), ("-(0 - 5)", "OK i5")]:
        un.append((src, exp))
    # the SAME value on both sides (one variable, an alias, a parameter against itself): IEEE NaN is not equal to itself
    same = {"0.0 / 0.0": ("OK #0=A[b0,b1,b0,b0,b0,b0]"), "1.5": "OK #0=A[b1,b0,b0,b1,b0,b1]", "7": "OK #0=A[b1,b0,b0,b1,b0,b1]", "\"tekst\"": "OK #0=A[b1,b0,b0,b1,b0,b1]",
            "ja": "OK #0=A[b1,b0,b0,b1,b0,b1]", "(0 - 1152921504606846975 - 1)": "OK #0=A[b1,b0,b0,b1,b0,b1]", "1.0 / 0.0": "OK #0=A[b1,b0,b0,b1,b0,b1]"}
    for v, exp in same.items():
        un.append(("stel x = %s; [x == x, x != x, x < x, x <= x, x > x, x >= x]" % v, exp))
        un.append(("stel x = %s; stel y = x; [x == y, y != x, x < y, y <= x, x > y, y >= x]" % v, exp))
        un.append(("functie f(a, b) { [a == b, a != b, a < b, a <= b, a > b, a >= b] } stel x = %s; f(x, x)" % v, exp))
    # a comparison under `!`, an arithmetic result under `-`: the result of the operator, negated - NaN included - in the
    # generic and in the fused forms
    nan, one = "(0.0 / 0.0)", "1.0"
    for l, r, vals in ((nan, one, "b0,b0,b0,b0,b0,b1"), (one, nan, "b0,b0,b0,b0,b0,b1"), (nan, nan, "b0,b0,b0,b0,b0,b1"), (one, "2.0", "b1,b1,b0,b0,b0,b1"), ("2", "2", "b0,b1,b0,b1,b1,b0"), ("\"a\"", "\"b\"", "b1,b1,b0,b0,b0,b1")):
        neg = ",".join("b1" if v == "b0" else "b0" for v in vals.split(","))
        un.append(("stel l = %s; stel r = %s; [!(l < r), !(l <= r), !(l > r), !(l >= r), !(l == r), !(l != r)]" % (l, r), "OK #0=A[%s]" % neg))
        un.append(("functie f(l, r) { [!(l < r), !(l <= r), !(l > r), !(l >= r), !(l == r), !(l != r)] } f(%s, %s)" % (l, r), "OK #0=A[%s]" % neg))
        un.append(("stel l = %s; stel r = %s; stel k = l < r; [!k, als !(l < r) { 1 } anders { 2 }, als !(l >= r) { 1 } anders { 2 }]" % (l, r), "OK #0=A[%s,i%d,i%d]" % (neg.split(",")[0], 1 if neg.split(",")[0] == "b1" else 2, 1 if neg.split(",")[3] == "b1" else 2)))
    for z, vals in (("3", "b0,b1,b1,b0"), ("7", "b1,b1,b0,b0"), ("5", "b1,b0,b0,b1")):
        # x = 5 against the literal z, fused forms: !(x < z), !(x <= z)?? -> computed from the plain comparison
        lt, le = 5 < int(z), 5 <= int(z)
        un.append(("functie f(x) { [!(x < %s), !(x <= %s), !(x > %s), !(x >= %s), !(x == %s), !(x != %s), !(%s < x), !(%s >= x)] } f(5)" % (z, z, z, z, z, z, z, z),
                   "OK #0=A[%s]" % ",".join("b1" if v else "b0" for v in [not 5 < int(z), not 5 <= int(z), not 5 > int(z), not 5 >= int(z), not 5 == int(z), not 5 != int(z), not int(z) < 5, not int(z) >= 5])))
    un += [("[1.0 / -0.0, 1.0 / 0.0]", "OK #0=A[#1=Ffff0000000000000,#2=F7ff0000000000000]"), ("[1.0 / 0.0, 1.0 / -0.0, -0.0, 0.0]", "OK #0=A[#1=F7ff0000000000000,#2=Ffff0000000000000,#3=F8000000000000000,#4=F0000000000000000]"),
           ("functie f(x) { [x / -0.0, x / 0.0, -1.5 + x, -2 + 2] } f(1.0)", "OK #0=A[#1=Ffff0000000000000,#2=F7ff0000000000000,#3=Fbfe0000000000000,i0]"), ("[-7, 7, -(7), 0 - 7, -7 + 7]", "OK #0=A[i-7,i7,i-7,i-7,i0]"),
           ("stel a = -2.5; stel b = 2.5; [a, b, -a == b, a + b]", "OK #0=A[#1=Fc004000000000000,#2=F4004000000000000,b1,#3=F0000000000000000]")]
    for k in (53, 54, 55, 56, 59):
        v = 2 ** k + 1
        un.append(("[%d - %d, %d == %d, %d %% 2, %d]" % (v, v - 1, v, v - 1, v, v), "OK #0=A[i1,b0,i1,i%d]" % v))
        un.append(("functie f(x) { [x - %d, %d - x, x == %d] } f(%d)" % (v, v, v, v - 1), "OK #0=A[i-1,i1,b0]"))
    un += [("[1152921504606846975, 1152921504606846974 + 1, 9007199254740993 - 9007199254740992]", "OK #0=A[i1152921504606846975,i1152921504606846975,i1]")]
    un.append(("stel a = [1]; a == a", "ERR Type"))
    un.append(("stel f = functie() { 1 }; [f == f, f != f]", "OK #0=A[b1,b0]"))
    uo = vlib.nlh("eval", ["1000 " + vlib.hexs(s) for s, _ in un], tag="c06u")
    ud = vlib.nlh("eval", ["1000 " + vlib.hexs(s) for s, _ in un], tag="c06ud", profile="debug")
    for (src, exp), o, d in zip(un, uo, ud):
        ctx.seen(("unary", src))
        ctx.count("form:prefix")
        if o.split(" | ")[0] != exp:
            ctx.violate("a prefix operator did not give the exact result / the documented error", source=src, observed=o.split(" | ")[0][:200], expected=exp)
        elif d.split(" | ")[0] != exp:
            ctx.violate("a prefix operator behaves differently in the debug build", source=src, observed=d.split(" | ")[0][:200], expected=exp)
    log("%d operator cases" % len(cases))
    srcs = [program(f, sym, a, b) for (f, sym, name, a, b) in cases]
    obs = vlib.nlh("eval", ["100000 " + vlib.hexs(s) for s in srcs], tag="c06")
    # debug profile on the extreme pairs: the same answers are required (overflow checks on)
    dbg_idx = [i for i, c in enumerate(cases) if c[3][0] == "i" and c[4][0] == "i" and c[3][1] in extreme[:10] and c[4][1] in extreme[:10]]
    dbg = vlib.nlh("eval", ["100000 " + vlib.hexs(srcs[i]) for i in dbg_idx], profile="debug", tag="c06d")
    for i, o in zip(dbg_idx, dbg):
        if o.split(" | ")[0] != obs[i].split(" | ")[0]:
            ctx.violate("debug and release builds disagree", source=srcs[i], release=obs[i], debug=o)
    # fmod oracle table
    rtab = {}
    for o in obs:
        for ent in o.split(" | ORC")[-1].split():
            if ent.startswith("rem:"):
                _, a, b, r = ent.split(":")
                rtab[(a, b)] = r
    rt = "; ".join("(%s, %s, %s)" % (vlib.coq_float(a), vlib.coq_float(b), vlib.coq_float(r)) for (a, b), r in sorted(rtab.items()))
    items, idx = [], []
    for i, ((f, sym, name, a, b), o) in enumerate(zip(cases, obs)):
        term, py = parse_result(o)
        trivial = a[0] != b[0]
        ctx.seen((f, sym, a, b), nontrivial=not trivial)
        ctx.count("form:" + f)
        ctx.count("result:" + py[0])
        if i % 1501 == 0:
            ctx.sample(dict(source=srcs[i], impl=o.split(" | ")[0]))
        if py[0] == "?":
            ctx.violate("operator did not return a value or a documented error", source=srcs[i], observed=o)
            continue
        if a[0] in "Af" or b[0] in "Af":
            # arrays and functions: python-side expectation (the Coq descriptors have no such operands)
            exp = ("E", "Type")
            if a[0] == "f" and b[0] == "f" and sym in ("==", "!="):
                exp = ("b", sym == "!=")      # two different function literals
            if py != exp:
                ctx.violate("unsupported operand types must be a type error", source=srcs[i], observed=o, expected=exp)
            continue
        form = "FGeneric" if f in ("FLocal", "FComputed", "FComputedLeft", "FAfterProcedure", "FGlobalRightLit", "FGlobalLeftLit", "FGlobalInFunction") else f
        items.append("OC %s %s %s %s %s" % (form, name, desc_coq(a), desc_coq(b), term))
        idx.append(i)
    header = "From NL.Corr Require Import CorrOps.\nOpen Scope Z_scope.\nDefinition rtab : list (float * float * float) := [%s]." % rt
    footer = lambda: "Eval vm_compute in (mismatches (check_model rtab) cases).\nEval vm_compute in (mismatches (check_spec rtab) cases)."
    shards, results, errors = vlib.run_coq_shards(ctx.prop, header, items, footer, shard_size=800)
    for e in errors:
        ctx.broken.append(dict(kind="corr-shard", what=e))
    off = 0
    for k, sh in enumerate(shards):
        if k in results:
            import re
            lists = re.findall(r"=\s*(\[.*?\])\s*:\s*list N", results[k], re.S)
            if len(lists) != 2:
                ctx.broken.append(dict(kind="corr-output", what=results[k][-300:]))
            else:
                bad_model = [int(x) for x in re.findall(r"\d+", lists[0].replace("%N", ""))]
                bad_spec = [int(x) for x in re.findall(r"\d+", lists[1].replace("%N", ""))]
                for j in bad_spec:
                    gi = idx[off + j]
                    ctx.violate("result differs from the exact result of ArithSpec.v", source=srcs[gi], observed=obs[gi].split(" | ")[0], case=sh[j])
                for j in bad_model:
                    gi = idx[off + j]
                    ctx.disagree("operators", source=srcs[gi], impl=obs[gi].split(" | ")[0], model="Ops.v computes a different result (case: %s)" % sh[j])
        off += len(sh)
    log("correspondence: %d cases in Coq, %d disagreements with the model, %d violations of the specification" % (len(items), len(ctx.disagreements), len(ctx.violations)))


def replay(ctx, data, log):
    src = data.get("source")
    if not src:
        log("nothing to replay")
        return
    o = vlib.nlh("eval", ["100000 " + vlib.hexs(src)], tag="c06r")[0]
    log("source: %s\nimplementation now: %s\nrecorded: %s" % (src, o, data.get("observed", data.get("impl"))))
