"""C08 - tokenisation and literals are faithful to the text."""
import itertools, os, re
import progcheck, vlib, front, nlast, noise

COQ_TARGETS = ["props/C08.vo", "corr/CorrFront.vo"]
RULE = ("(1) token sequences over the full regenerated vocabulary (keywords, every one- and two-character token, "
        "identifiers ASCII and non-ASCII, numbers, strings): all sequences of length <= 2 (thorough: <= 3) rendered "
        "with no separator wherever the maximal-munch rule allows and with one space, plus random longer sequences "
        "with random separators (all eleven white-space forms, comments): the REAL lexer must return exactly the "
        "tokens that were rendered (kind and spelling); (2) ALL string contents up to length 4 over the alphabet "
        "{a n t \" \\ { } e-acute flag} written as quoted literals: the parser's String node must hold exactly the "
        "content; (3) the same texts through Lexer.v/Parser.v inside Coq: token kinds, spellings AND byte offsets "
        "must agree. non-trivial = distinct rendered text with at least two tokens or one escape")
ASSUMPTIONS = ["char::is_alphabetic / is_alphanumeric for code points >= 128 enter the model as a table dumped from the implementation for the code points that occur"]
NOTES = ["proved for every oracle and text: lex_render (all admissible separators), lex_covers (no silent drop), string_roundtrip, string_lexes, unterminated_is_illegal, two_char_first, keyword_iff, word_lexes, int_lexes, float_lexes"]

ROOT = os.path.dirname(os.path.dirname(os.path.dirname(os.path.abspath(__file__))))
ALPHA = ["a", "n", "t", "\"", "\\", "{", "}", "é", "🇳"]


def token_names():
    src = open(os.path.join(ROOT, "coq", "gen", "Tables.v"), encoding="utf-8").read()
    names = {}
    for w, k in re.findall(r'\("(\w+)", (K\w+)\)', re.search(r"Definition keywords.*?\.\n", src, re.S).group(0)):
        names[w] = k[1:]
    for c, k in re.findall(r"\((\d+)%N, (K\w+)\)", re.search(r"Definition single_tokens.*?\.\n", src, re.S).group(0)):
        names[chr(int(c))] = k[1:]
    for a, b, t, e in re.findall(r"\((\d+)%N, (\d+)%N, (K\w+), (Some K\w+|None)\)", re.search(r"Definition double_tokens.*?\.\n", src, re.S).group(0)):
        names[chr(int(a)) + chr(int(b))] = t[1:]
        if e != "None":
            names[chr(int(a))] = e[6:]
    names["/"] = "Slash"
    return names


def canon_token(t, names):
    if t in names:
        return names[t]
    if t[0] == '"':
        return "String:" + nlast.cps(t[1:-1])
    if t[0].isdigit():
        return ("Float:" if "." in t else "Int:") + nlast.cps(t)
    return "Identifier:" + nlast.cps(t)


def strip_offsets(o):
    return ";".join(x.rsplit("@", 1)[0] for x in o.split(";") if x)


def needs_sep(a, b):
    return nlast.needs_sep(a, b) or (a[0].isdigit() and "." not in a and b[0].isdigit()) or (a[0].isdigit() and b[0].isdigit()) \
        or (a[0].isdigit() and b == ".") or (a[0].isdigit() and "." not in a and b[0] == ".")


def run(ctx, log):
    progcheck.run_scale(ctx, log, ['names', 'csc'])
    # comments of every content (several multi-byte characters, trailing backslashes, quotes, code) change nothing
    progcheck.run_comments(ctx, log, mode='tokens')
    rng = ctx.rng
    names = token_names()
    fixed = sorted(names)
    words = ["a", "x1", "_", "als_", "alsof", "stelling", "ja_", "é", "naïef", "данные", "teller"]
    # complete: every keyword with every one-character affix class before and after it is ONE identifier
    kws = [w for w in names if w.isalpha() and len(w) > 1]
    affixed = []
    for kw in kws:
        for a in ["é", "ñ", "ж", "語", "_", "1", "x", "Ω"]:
            affixed.append(kw + a)
            if not a.isdigit():
                affixed.append(a + kw)
    words += affixed
    nums = ["0", "7", "42", "1.5", "2.", "10.25"]
    strs = ['""', '"a"', '"a\\"b"', '"\\\\"', '"é{}"', '"// geen commentaar"']
    vocab = fixed + words + nums + strs
    seqs = [[t] for t in vocab]
    seqs += [list(p) for p in itertools.product(vocab, repeat=2)]
    if not ctx.quick:
        small = fixed + ["a", "als_", "é", "7", "1.5", '"a"']
        seqs += [list(p) for p in itertools.product(small, repeat=3)]
    for _ in range(1500 if ctx.quick else 30000):
        seqs.append([rng.choice(vocab) for _ in range(rng.randint(3, 12))])
    texts, expect = [], []
    for ts in seqs:
        exp = ";".join(canon_token(t, names) for t in ts)
        # no separator wherever admissible, one space otherwise
        out = []
        for i, t in enumerate(ts):
            if i and needs_sep(ts[i - 1], t):
                out.append(" ")
            out.append(t)
        texts.append("".join(out))
        expect.append(exp)
        texts.append(" ".join(ts))
        expect.append(exp)
        if len(ts) > 2:
            texts.append(nlast.render(ts, rng, ws=0.3, comments=0.2))
            expect.append(exp)
    # comments of every ending directly before tokens of every kind: a comment never influences what follows
    comments = ["// c", "//", "// \\", "// pad C:\\", "// \"", "// \\\"", "// é\\", "/// x \\"]
    glue = ["", " ", "(", "a ", "1 ", "[", ", ", "x = "]
    follow = ['""', '"a"', '"\\\\"', '"\\""', '"\\"x"', "als", "é", "1.5", "==", "jaén"]
    for c, g, f in itertools.product(comments, glue, follow):
        gt = [t for t in g.split() if t] if g.strip() not in ("(", "[", ",") else [g.strip()]
        texts.append("1 %s\n%s%s" % (c, g, f))
        expect.append(";".join(canon_token(t, names) for t in ["1"] + gt + [f]))
    obs = vlib.nlh("tokens", [vlib.hexs(s) for s in texts], tag="c08t", timeout=120)
    for s, e, o in zip(texts, expect, obs):
        ctx.seen(s, nontrivial=";" in e)
        got = strip_offsets(o)
        if got != e:
            ctx.violate("the lexer did not return the words that were written", source=s, observed=got[:300], expected=e[:300])
    log("%d rendered token sequences lexed by the implementation" % len(texts))
    # (2) all string contents up to length 4
    contents = [""]
    for n in range(1, 5):
        contents += ["".join(p) for p in itertools.product(ALPHA, repeat=n)]
    ctx.exhaustive = True
    lits = [nlast.quote(c) for c in contents]
    pobs = vlib.nlh("parse", [vlib.hexs(l) for l in lits], tag="c08s", timeout=120)
    for c, l, o in zip(contents, lits, pobs):
        ctx.seen(l, nontrivial="\\" in l)
        e = 'OK (Expr(String("%s")))' % nlast.cps(c)
        if o != e:
            ctx.violate("a string literal does not denote the characters written between its quotes", source=l, observed=o[:200], expected=e[:200])
    log("%d string contents (complete up to length 4 over a 9-symbol alphabet)" % len(contents))
    # (3) model correspondence: tokens with offsets, strings through the parser
    idx = list(range(len(texts)))
    rng.shuffle(idx)
    pick = sorted(idx[:2500 if ctx.quick else 40000])
    front.front_corr(ctx, [texts[i] for i in pick], ("tok",), log, label="lexer")
    sidx = list(range(len(lits)))
    rng.shuffle(sidx)
    spick = sorted(sidx[:1500 if ctx.quick else len(lits)])
    front.front_corr(ctx, [lits[i] for i in spick], ("tok", "parse"), log, label="strings")
    # every raw string body up to length 3 over {a n " \ é flag}: whatever stands after a backslash, the lexer and
    # the literal decoder neither crash nor disagree with Lexer.v / decode_string
    raw = []
    for n in range(0, 4):
        raw += ['"' + "".join(p) + '"' for p in itertools.product(["a", "n", '"', "\\", "é", "🇳"], repeat=n)]
    robs = vlib.nlh("parse", [vlib.hexs(s) for s in raw], tag="c08raw")
    for s, o in zip(raw, robs):
        ctx.seen(s)
        if not (o.startswith("OK") or o.startswith("ERR")):
            ctx.violate("a string literal made the front end crash", source=s, observed=o[:200], expected="a tree or a syntax error")
    front.front_corr(ctx, raw, ("tok", "parse"), log, label="raw-strings")
    # malformed stream: unterminated strings, illegal characters must be flagged, not dropped
    bad = ['"abc', '"a\\"', 'a "b', "1 № 2", "a & b", "a | b", "x # y", " a", "a &| b", "a |& b", "a &&& b", "a ||| b", "a &&| b", "a |&& b", "a & & b", "a &= b", "a |= b", "1 } 2", "stel a = 1 } a", "{ } } 1", "1 ) 2", "1 ] 2", "als ja { 1 } } 2", "functie f() { 1 } } f()", "1 } print(\"weg\")"] + ["1 +" + w + u + "2" for w in (" ", "\n", "\t", "  ", "") for u in ("\u00a0", "\u1680", "\u2000", "\u2003", "\u200a", "\u202f", "\u205f", "\u3000", "\u00a0\u00a0")] + ["[1,\n    \u00a0\u00a02]", "stel a = 1;\n \u3000a"]
    bobs = vlib.nlh("parse", [vlib.hexs(s) for s in bad], tag="c08b")
    for s, o in zip(bad, bobs):
        ctx.seen(s)
        if o != "ERR Syntax":
            ctx.violate("an illegal character / unterminated string did not make the program a syntax error (input silently dropped)", source=s, observed=o[:200], expected="ERR Syntax")
    front.front_corr(ctx, bad, ("tok", "parse"), log, label="malformed")
    for s_, o_ in zip(bad, vlib.nlh("eval", ["1000 " + vlib.hexs(x) for x in bad], tag="c08be")):
        if not o_.startswith("ERR Syntax") or "OUT -" not in o_:
            ctx.violate("a malformed text was evaluated (part of it silently dropped)", source=s_, observed=o_[:200], expected="ERR Syntax | OUT -")
    # two string literals next to each other (the optional comma / semicolon left out): each is decoded on its own
    esc = ["a\tb", "q\"r", "back\\slash", "é\n", "{}\t"]
    plain = ["----", "", "é", "x y"]
    adj, adj_exp = [], []
    for e1 in esc + plain:
        for e2 in esc + plain:
            l1, l2 = nlast.quote(e1), nlast.quote(e2)
            for tmpl, wrap in (("[%s %s]", "Expr(Array((String(\"%s\") String(\"%s\"))))"), ("%s %s", "Expr(String(\"%s\")) Expr(String(\"%s\"))"), ("[%s, %s]", "Expr(Array((String(\"%s\") String(\"%s\"))))")):
                adj.append(tmpl % (l1, l2))
                adj_exp.append("OK (" + wrap % (nlast.cps(e1), nlast.cps(e2)) + ")")
    aobs = vlib.nlh("parse", [vlib.hexs(x) for x in adj], tag="c08adj")
    for x, e, o in zip(adj, adj_exp, aobs):
        ctx.seen(("adjacent-strings", x))
        ctx.count("adjacent-string-literals")
        if o != e:
            ctx.violate("a string literal next to another one does not denote the characters written between its quotes", source=x, observed=o[:200], expected=e[:200])
    front.front_corr(ctx, adj[:300], ("tok", "parse"), log, label="adjacent-strings")
    # integer literals: every spelling inside the 61-bit range denotes its number (leading zeros included), every
    # one beyond it is rejected whatever it is congruent to modulo a power of two
    inside = [0, 1, 9, 10, 255, 256, 65535, 65536, 2 ** 31 - 1, 2 ** 31, 2 ** 32, 2 ** 53, 2 ** 59, 2 ** 60 - 2, 2 ** 60 - 1] + [rng.randrange(2 ** 60) for _ in range(60)]
    ilits = [str(v) for v in inside] + ["0" * rng.randint(1, 25) + str(v) for v in inside[:20]]
    iexp = ["OK (Expr(Int(%d)))" % v for v in inside] + ["OK (Expr(Int(%d)))" % v for v in inside[:20]]
    for v in progcheck.huge_literal_family() + [2 ** 64 * rng.randrange(1, 2 ** 40) + rng.randrange(2 ** 60) for _ in range(200)]:
        ilits.append(str(v))
        iexp.append("ERR Syntax")
        ilits.append("stel groot = %d; groot + 1" % v)
        iexp.append("ERR Syntax")
    iobs = vlib.nlh("parse", [vlib.hexs(l) for l in ilits], tag="c08i")
    for l, e, o in zip(ilits, iexp, iobs):
        ctx.seen(("int-literal", l))
        ctx.count("int-literals")
        if o != e:
            ctx.violate("an integer literal does not denote the number written (or one beyond the range was accepted)", source=l, observed=o[:200], expected=e)
    front.front_corr(ctx, ilits[: 400 if ctx.quick else len(ilits)], ("tok", "parse"), log, label="int-literals")
    # every word that is not in the (regenerated) keyword table is a name: all words of up to three letters and a
    # dictionary of words a language might reserve, each also tried as a variable
    import string as _string
    kwset = set(kws) | {w for w in names if w.isalpha()}
    words3 = ["".join(p) for n in (1, 2, 3) for p in itertools.product(_string.ascii_lowercase, repeat=n)]
    maybe = ["waar", "onwaar", "true", "false", "nul", "null", "nil", "niets", "niks", "geen", "en", "of", "niet", "not", "and", "or", "xor", "if", "else", "elif", "while", "for", "voor", "in", "tot", "doe", "do", "einde", "eind", "end",
             "return", "retour", "geef", "break", "continue", "stoppen", "ga", "let", "var", "const", "def", "fn", "func", "function", "proc", "klasse", "class", "nieuw", "new", "dit", "this", "self", "zelf", "import", "gebruik",
             "lijst", "tekst", "getal", "anders_als", "andersals", "zolangals", "herhaal", "totdat", "kies", "geval", "standaard", "probeer", "vang", "gooi", "Ja", "Nee", "JA", "Als", "ALS", "Stel", "Functie"]
    wl = [w for w in words3 + maybe if w not in kwset]
    wobs = vlib.nlh("tokens", [vlib.hexs(" ".join(wl[i:i + 500])) for i in range(0, len(wl), 500)], tag="c08w")
    got_words = []
    for o in wobs:
        got_words += [t for t in strip_offsets(o).split(";") if t]
    want_words = [canon_token(w, names) for w in wl]
    ctx.count("dictionary-words", len(wl))
    for w, g, e in zip(wl, got_words, want_words):
        ctx.seen(("word", w))
        if g != e:
            ctx.violate("a word that is not a keyword did not lex as a name", source=w, observed=g[:100], expected=e[:100])
    if len(got_words) != len(want_words):
        ctx.violate("the lexer did not return one token per word", source="(dictionary of %d words)" % len(wl), observed=str(len(got_words)), expected=str(len(want_words)))
    wprog = ["stel %s = 41; %s + 1" % (w, w) for w in maybe if w not in kwset]
    wo = vlib.nlh("eval", ["1000 " + vlib.hexs(x) for x in wprog], tag="c08wp")
    for x, o in zip(wprog, wo):
        ctx.seen(("word-as-variable", x))
        if not o.startswith("OK i42"):
            ctx.violate("a word that is not a keyword cannot be used as a variable", source=x, observed=o[:120], expected="OK i42")
    ctx.sample(dict(source=texts[200], tokens=obs[200][:200]))
    ctx.sample(dict(literal=lits[700], tree=pobs[700]))


def replay(ctx, data, log):
    src = data.get("source")
    if not src:
        log("nothing to replay")
        return
    o = vlib.nlh("tokens", [vlib.hexs(src)], tag="c08r")[0]
    p = vlib.nlh("parse", [vlib.hexs(src)], tag="c08r")[0]
    log("source: %r\ntokens now: %s\nparse now: %s\nexpected: %s" % (src, o, p, data.get("expected")))
    exp = data.get("expected", "")
    if exp and exp not in (strip_offsets(o), p):
        ctx.violate("replayed: still differs", source=src, observed=(strip_offsets(o) + " / " + p)[:300], expected=exp[:300])
