"""C02 - execution never leaves the interpreter's own memory (no underflow, no wild jump)."""
import re
import vlib, runcorr, progcheck, noise, nlast

COQ_TARGETS = ["props/C02.vo", "corr/CorrVerify.vo", "corr/CorrRun.vo"]
NEEDS_DEBUG = True
RULE = ("every source the REAL front end accepts - generated well-formed programs, token-level mutants (delete, duplicate, "
        "swap, replace) of such programs that still compile, random token sequences that happen to compile, a directed "
        "corpus - has its REAL bytecode (bytes + pool dumped by the harness) handed to the proved checker of "
        "spec/Verify.v, evaluated inside Coq: acceptance + verify_sound decide memory safety on ALL execution paths "
        "of that bytecode; the same sources run under the safety probes (pop on empty stack, fetch/operand outside "
        "the code, invalid builtin) and are compared with Compiler.v/VM.v. non-trivial = distinct accepted source "
        "whose bytecode is longer than 4 bytes")
ASSUMPTIONS = ["end to end: compile_certifies + verify_sound give accepted_program_never_leaves_memory for every source text OF THE MODEL; the implementation is tied to the model per program (real bytecode re-verified by Verify.v inside Coq, byte-identical to Compiler.v's)",
               "the tie between VM.v and vm.rs is the step-count-exact correspondence of whole runs"]
NOTES = ["proved: verify_sound, run_never_leaves_memory, inv_initial, verified_program_never_leaves_memory (all bytecode, all certificates, all states)"]

DIRECTED = [
    "als ja { stel a = 1 }", "zolang nee { }", "{ }", "{ 1 } { }", "als nee { } anders { }", "functie f() { } f()",
    "functie f() { zolang ja { antwoord 1 } } f()", "zolang ja { stel x = [1, als ja { stop }] }",
    "stel i = 0; zolang i < 3 { i += 1; als i == 2 { volgende } anders als i == 5 { stop } }",
    "functie f(a, b) { stel c = a; { stel d = b; c = d } c } f(1, 2)",
    "stel i = 0; zolang i < 2 { i += 1; functie f() { antwoord 1 } f() }",
    "functie g() { functie h(x) { als x { antwoord 1 } 2 } h(ja) } g()",
    "stel a = [1, 2]; a[0] = als ja { 5 }; a", "print(als nee { 1 })", "stel x = zolang nee { 1 }; x",
    "functie f(n) { zolang n > 0 { n = n - 1; als n == 1 { antwoord n } } } f(3)",
    "functie f() { stel a = [als ja { antwoord 7 }, 2] } f()",
    "stel i = 0; zolang i < 3 { i += 1; print(\"{}\", [1, als i == 2 { volgende } anders { i }]) }",
]


def parse_compile_obs(o):
    """OK <hex> K <consts...> -> (bytes list, const descriptors)"""
    m = re.match(r"OK ([0-9a-f]*) K(.*)$", o)
    if not m:
        return None
    hx = m.group(1)
    code = [int(hx[i:i + 2], 16) for i in range(0, len(hx), 2)]
    ks = []
    for k in m.group(2).split():
        f = re.match(r"f(\d+)\.(\d+)$", k)
        ks.append("KF %s %s" % (f.group(1), f.group(2)) if f else "KO")
    return code, ks


def run(ctx, log):
    # enumerated families decided by Sem.v: how function / loop bodies end; names that live in several name spaces
    extra_sem_families = []
    extra_sem_families += progcheck.function_endings_family(ctx.quick)
    extra_sem_families += progcheck.nested_names_family(ctx.quick)
    progcheck.pipeline(ctx, extra_sem_families, log, budget=20000, label="endings-and-names", shard_size=120)
    for s_ in extra_sem_families:
        ctx.seen(("family", s_))
    # a failing line that completed nothing leaves a retained session as it was (every kind of failure, at every depth)
    progcheck.run_failing_lines(ctx, log)
    # stray `stop` / `volgende` under every nesting of loops, functions, blocks and branches
    sj = progcheck.stray_jump_family(ctx.quick, ctx.rng)
    sjo = progcheck.pipeline(ctx, sj, log, budget=20000, label="stray-jumps", shard_size=120)
    for s_, o_ in zip(sj, sjo["eval"]):
        ctx.seen(("stray-jump", s_))
        ctx.count("stray-jump:" + progcheck.head(o_).split()[0] + (progcheck.head(o_)[3:] if o_.startswith("ERR") else ""))
    # the same small programs at every size around the widths the implementation encodes things in (closed-form results)
    progcheck.run_scale(ctx, log, ['locals', 'args', 'statements'])
    progcheck.run_code_boundary(ctx, log)
    rng = ctx.rng
    vocab = noise.vocabulary()
    nprog = 400 if ctx.quick else 6000
    srcs, asts = progcheck.gen_sources(ctx, nprog, max_depth=3)
    import importlib
    nested = importlib.import_module("props.c09").nested_templates()
    sweep = [src for _, _, src in progcheck.layout_sweep(list(range(0, 600, 1 if not ctx.quick else 3)) + list(range(1300, 1400)))]
    order = progcheck.evaluation_order_family()
    cand = list(DIRECTED) + nested + order + sweep + srcs
    kinds = ["directed"] * (len(DIRECTED) + len(nested) + len(order)) + ["layout-sweep"] * len(sweep) + ["generated"] * len(srcs)
    for a in asts:
        toks = nlast.print_program(a)
        for _ in range(6 if ctx.quick else 10):
            cand.append(noise.render(noise.mutate_tokens(rng, toks, vocab, k=rng.randint(1, 2))))
            kinds.append("mutant")
    for _ in range(3000 if ctx.quick else 60000):
        cand.append(noise.render(noise.random_tokens(rng, rng.randint(1, 12), vocab)))
        kinds.append("random-tokens")
    comp = vlib.nlh("compile", [vlib.hexs(s) for s in cand], tag="c02c", timeout=120)
    acc = [i for i, c in enumerate(comp) if c.startswith("OK")]
    for i, c in enumerate(comp):
        ctx.count("front:" + kinds[i] + ":" + c.split()[0])
        if c.startswith("PANIC") or c.startswith("CRASH") or c.startswith("TIMEOUT"):
            ctx.violate("the front end crashed on this text", source=cand[i], observed=c[:200])
    log("%d candidate texts, %d accepted by the real front end" % (len(cand), len(acc)))
    # 1. the proved checker on the real bytecode
    items, idx = [], []
    seen_code = set()
    for i in acc:
        pc = parse_compile_obs(comp[i])
        if pc is None:
            ctx.broken.append(dict(kind="harness-output", what=comp[i][:200]))
            continue
        code, ks = pc
        key = (tuple(code), tuple(ks))
        ctx.seen(cand[i], nontrivial=len(code) > 4 and key not in seen_code)
        if key in seen_code:
            continue
        seen_code.add(key)
        items.append("VCase [%s] [%s]" % ("; ".join(map(str, code)), "; ".join(ks)))
        idx.append(i)
    header = "From NL.Corr Require Import CorrVerify.\nOpen Scope Z_scope."
    footer = lambda: "Eval vm_compute in (mismatches vcheck cases)."
    shards, results, errors = vlib.run_coq_shards(ctx.prop, header, items, footer, shard_size=150, tag="verify", timeout=1500)
    for e in errors:
        ctx.broken.append(dict(kind="corr-shard", what=e))
    rejected = []
    off = 0
    for k, sh in enumerate(shards):
        if k in results:
            bad = vlib.parse_index_list(results[k])
            if bad is None:
                ctx.broken.append(dict(kind="corr-output", what=results[k][-300:]))
            else:
                rejected += [idx[off + j] for j in bad]
        off += len(sh)
    log("verifier: %d distinct real bytecodes checked inside Coq, %d rejected" % (len(items), len(rejected)))
    # 2. run everything that compiles under the probes; compare with the model
    run_src = [cand[i] for i in acc]
    ev = vlib.nlh("eval", ["3000 " + vlib.hexs(s) for s in run_src], tag="c02e", timeout=300)
    probe_hit = {}
    for s, o in zip(run_src, ev):
        h = progcheck.head(o)
        ctx.count("run:" + h.split()[0])
        if h.startswith("PANIC") or h.startswith("CRASH") or h.startswith("TIMEOUT"):
            probe_hit[s] = o
            ctx.violate("running an accepted program left the machine's own memory / crashed: %s" % h[:100], source=s, observed=o[:300])
    for i in rejected:
        if cand[i] not in probe_hit:
            ctx.broken.append(dict(kind="certificate-rejected", target=cand[i][:200],
                                   what="the proved bytecode verifier rejects the code the real compiler produced for this accepted source (no probe fired on the path taken): " + comp[i][:300]))
    fam = progcheck.deep_recursion_family()
    fo = vlib.nlh("eval", ["6000000 " + vlib.hexs(s) for s, _ in fam], tag="c02f", timeout=600)
    fd = vlib.nlh("eval", ["6000000 " + vlib.hexs(s) for s, _ in fam], tag="c02fd", profile="debug", timeout=1200)
    for (s, val), o in list(zip(fam, fo)) + list(zip(fam, fd)):
        ctx.seen(s)
        h = progcheck.head(o)
        if h not in ("OK i%d" % val, "ERR Type") and not h.startswith("BUDGET"):
            ctx.violate("a recursion that drives the operand stack to its limit left the machine's memory / computed from a wrapped base pointer", source=s, observed=o[:200], expected="OK i%d or ERR Type" % val)
    for src, exp in progcheck.big_program_family():
        o = vlib.nlh("eval", ["3000000 " + vlib.hexs(src)], tag="c02big", timeout=300)[0]
        ctx.seen(("big", len(src)))
        if progcheck.head(o) not in (exp, "ERR Syntax"):
            ctx.violate("a program whose code crosses 64 KiB made the machine jump or fetch outside its code", source="(array literal program of %d characters)" % len(src), observed=o[:200], expected=exp + " or ERR Syntax")
    sample_n = 500 if ctx.quick else 5000
    pick = list(range(len(run_src)))
    rng.shuffle(pick)
    pick = sorted(pick[:sample_n])
    runcorr.run_corr(ctx, [run_src[j] for j in pick], log, budget=3000, stages=("compile", "eval"), label="accepted-programs")
    ctx.sample(dict(source=cand[acc[0]], bytecode=comp[acc[0]][:160], verified=acc[0] not in rejected))
    m = [i for i in acc if kinds[i] == "mutant"]
    if m:
        ctx.sample(dict(kind="mutant", source=cand[m[0]][:300], verified=m[0] not in rejected))


def replay(ctx, data, log):
    progcheck.replay_source(ctx, data, log, budget=3000)


def search(ctx, log):
    progcheck.search_programs(ctx, log, n=4000 if ctx.quick else 40000)
