"""C12 - calls bind arguments, isolate activations and resume the caller intact."""
import vlib, runcorr, progcheck, nlast, genwf

COQ_TARGETS = ["props/C12.vo", "corr/CorrSem.vo"]
NEEDS_DEBUG = True
RULE = ("generated programs with functions of 0-4 parameters and locals calling each other (direct, through variables, "
        "recursively with a counter) from every expression context (operand, array element, argument, index, condition, "
        "initialiser), functions passed and returned, plus a directed corpus (mutual recursion through a variable, "
        "recursion to depth 200, activation independence, argument order observable through print, deep recursion to the "
        "machine's stack limit in the release AND the debug build): compiler and VM stages compared with Compiler.v/VM.v, "
        "results with Sem.v (fresh activation per call, arguments left to right then the callee). "
        "non-trivial = distinct program that performs at least one call")
ASSUMPTIONS = ["deep recursion past the machine's limits has no documented meaning (DESIGN.md 4.3 item 5): only an error value, no crash, and agreement of both build profiles is required there"]
NOTES = ["proved for every machine state: call_frame, call_binds_by_position, call_pads_with_null, arity_checked, depth_limit, return_restores, call_return_roundtrip, activations_disjoint, step_preserves_wf"]

DIRECTED = [
    "functie r(n) { als n == 0 { antwoord 0 } 1 + r(n - 1) } r(200)",
    "functie r(n, acc) { als n == 0 { antwoord acc } r(n - 1, acc + n) } r(200, 0)",
    "stel oneven = 0; functie even(n) { als n == 0 { antwoord ja } oneven(n - 1) } oneven = functie(n) { als n == 0 { antwoord nee } even(n - 1) }; [even(10), even(7), oneven(7)]",
    "functie f(a, b, c) { print(\"{} {} {}\", a, b, c); a } functie t(x) { print(\"arg {}\", x); x } f(t(1), t(2), t(3))",
    "functie f(n) { stel loc = n * 10; als n > 0 { f(n - 1) } loc } f(3)",
    "functie f(n) { stel a = [n]; als n > 0 { f(n - 1) } a[0] } f(4)",
    "functie app(g, x) { g(x) } functie dbl(y) { y * 2 } app(dbl, 21)",
    "functie mk() { functie(z) { z + 1 } } stel h = mk(); h(1) + mk()(2)",
    "functie f(a) { a } [f(1), f(2) + f(3), f([4])[0], \"ab\"[f(1)]]",
    "functie f(a, b) { a - b } stel x = 100; x - f(x, 1) - f(1, x)",
    "functie c(n) { als n == 0 { antwoord 0 } c(n - 1) + c(n - 1) + 1 } c(8)",
    "functie f(x) { x = x + 1; x } stel v = 1; f(v) + v",
    "functie f(arr) { arr[0] = 9; arr } stel q = [1]; f(q); q",
    "functie outer(n) { functie inner(m) { m * 2 } inner(n) + inner(n + 1) } outer(5)",
    "stel fs = [functie(a) { a + 1 }, functie(a) { a * 2 }]; stel f0 = fs[0]; stel f1 = fs[1]; f0(f1(5))",
    "functie id(x) { x } id(id)(3)",
    "functie f(a, b, c, d) { stel e = a + b; stel g = c + d; stel h = e * g; stel i = h - a; [e, g, h, i] } f(1, 2, 3, 4)",
    "functie kies(c) { als c { 10 } anders { antwoord 20 } } [kies(ja), kies(nee)]", "functie kies(c) { als c { antwoord 10 } anders { 20 } } [kies(ja), kies(nee)]",
    "functie kies(c) { als c { 10 } anders als c { 11 } anders { antwoord 20 } } print(\"{}\", kies(ja)); kies(nee)", "functie k(c) { zolang c { antwoord 1 } } [k(ja), k(nee)]",
    "functie k(c) { als c { 10 } anders { antwoord 20 }; 30 } [k(ja), k(nee)]", "functie k(c) { { als c { 10 } anders { antwoord 20 } } } [k(ja), k(nee)]",
    "functie z(a) { } z(1)", "functie z(a, b) { } [z(1, 2), z(3, 4)]", "functie cb(f) { f(7) } functie negeer(x) { } cb(negeer)",
    "stel t = 1; functie lees() { t } stel t = 100; [lees(), t]", "functie z() { } z()", "functie z() { stel a = 1 } z()", "functie z() { antwoord } 1",
]
DEEP = [
    "functie r(n) { als n == 0 { antwoord 0 } 1 + r(n - 1) } r(40000)",
    "functie r(n) { als n == 0 { antwoord 0 } r(n - 1) } r(70000)",
    "functie r(n) { stel a = n; stel b = n; stel c = n; als n == 0 { antwoord 0 } r(n - 1) } r(30000)",
    "functie r(n) { als n == 0 { antwoord 0 } 1 + r(n - 1) } r(10000)",
]


def run(ctx, log):
    progcheck.run_unspecified(ctx, log)
    # enumerated families decided by Sem.v: how function / loop bodies end; names that live in several name spaces
    extra_sem_families = []
    extra_sem_families += progcheck.function_endings_family(ctx.quick)
    extra_sem_families += progcheck.nested_names_family(ctx.quick)
    progcheck.pipeline(ctx, extra_sem_families, log, budget=20000, label="endings-and-names", shard_size=120)
    for s_ in extra_sem_families:
        ctx.seen(("family", s_))
    # the same small programs at every size around the widths the implementation encodes things in (closed-form results)
    progcheck.run_scale(ctx, log, ['args', 'locals', 'alias', 'literal', 'csc'])
    progcheck.run_scale_wrapped(ctx, log, ['alias', 'cyclic', 'literal', 'objects', 'temporaries', 'rtnest', 'csc', 'constants', 'locals'])
    progcheck.run_code_boundary(ctx, log)
    rng = ctx.rng
    srcs, asts = progcheck.gen_sources(ctx, 500 if ctx.quick else 8000, max_depth=3)
    base = DIRECTED + progcheck.evaluation_order_family() + srcs
    obs = progcheck.pipeline(ctx, base, log, budget=60000, label="calling-programs")
    for s, o in zip(base, obs["eval"]):
        ctx.seen(s, nontrivial="(" in s)
    # the machine's limits: an error value in both build profiles, and the same one
    rel = vlib.nlh("eval", ["3000000 " + vlib.hexs(s) for s in DEEP], tag="c12d", timeout=300)
    dbg = vlib.nlh("eval", ["3000000 " + vlib.hexs(s) for s in DEEP], tag="c12dd", profile="debug", timeout=600)
    for s, a, b in zip(DEEP, rel, dbg):
        ctx.seen(s)
        ha, hb = progcheck.head(a), progcheck.head(b)
        ctx.count("deep:" + ha.split()[0])
        if not (ha.startswith("OK") or ha.startswith("ERR") or ha.startswith("BUDGET")):
            ctx.violate("deep recursion did not end in a value or an error value (release build)", source=s, observed=a[:200])
        elif not (hb.startswith("OK") or hb.startswith("ERR") or hb.startswith("BUDGET")):
            ctx.violate("deep recursion did not end in a value or an error value (debug build)", source=s, observed=b[:200])
        elif ha != hb:
            ctx.violate("release and debug builds disagree on deep recursion", source=s, observed=hb[:200], expected=ha[:200])
    # a fresh activation holds nothing of earlier ones: parameters that got no argument and locals not yet assigned are
    # null whatever ran before (value semantics undocumented, DESIGN 4.3 items 4 and 7: compared with VM.v only)
    fresh = ["functie f(a, b) { type(b) } functie g() { stel y = [1]; stel z = 5; 0 } g(); f(1)",
             "functie f() { stel x = x; type(x) } functie g() { stel y = \"s\"; 0 } g(); g(); f()",
             "functie f(a, b, c) { [type(a), type(b), type(c)] } functie g(p, q, r) { p + q + r } g(1, 2, 3); [f(1), f(), f(1, 2)]",
             "functie t(n) { stel s = s; als n > 0 { s = n; t(n - 1) } type(s) } t(3)",
             "functie f() { stel a = 1; { stel b = b; type(b) } } functie g() { stel u = 1; { stel v = [2]; 0 } } g(); f()"]
    fo = runcorr.run_corr(ctx, fresh, log, budget=5000, stages=("compile", "eval"), label="fresh-activations", shard_size=8)["eval"]
    want = ["OK #0=S110.117.108.108", "OK #0=S110.117.108.108", None, "OK #0=S105.110.116", "OK #0=S110.117.108.108"]
    for s, w, o in zip(fresh, want, fo):
        ctx.seen(s)
        if w is not None and progcheck.head(o) != w:
            ctx.violate("an activation saw something an earlier activation (or the call itself) left behind", source=s, observed=progcheck.head(o)[:200], expected=w)
    # the whole family: every alignment of the stack against its 16-bit limit, both build profiles
    fam = progcheck.deep_recursion_family()
    frel = vlib.nlh("eval", ["6000000 " + vlib.hexs(s) for s, _ in fam], tag="c12f", timeout=600)
    fdbg = vlib.nlh("eval", ["6000000 " + vlib.hexs(s) for s, _ in fam], tag="c12fd", profile="debug", timeout=1200)
    for (s, val), a, b in zip(fam, frel, fdbg):
        ctx.seen(s)
        for label, o in (("release", a), ("debug", b)):
            h = progcheck.head(o)
            ctx.count("family:" + h.split()[0])
            if h not in ("OK i%d" % val, "ERR Type") and not h.startswith("BUDGET"):
                ctx.violate("a deep recursion ended with something other than its value or the recursion-limit error (%s build)" % label, source=s, observed=o[:200], expected="OK i%d or ERR Type" % val)
    # the model on a recursion depth the Coq side can afford (the stack is a list inside Coq)
    runcorr.run_corr(ctx, ["functie r(n) { als n == 0 { antwoord 0 } 1 + r(n - 1) } r(400)"], log, budget=20000, stages=("eval",), label="deep-recursion-model", shard_size=1)
    ctx.sample(dict(source=base[3], eval=obs["eval"][3][:160]))
    ctx.sample(dict(source=DEEP[0], release=rel[0][:100], debug=dbg[0][:100]))


def replay(ctx, data, log):
    progcheck.replay_source(ctx, data, log, budget=60000)


def search(ctx, log):
    progcheck.search_programs(ctx, log, n=4000 if ctx.quick else 40000)
