"""C13 - arrays and strings: shared by reference, indexed exactly, measured in characters."""
import vlib, runcorr, progcheck, nlast

COQ_TARGETS = ["props/C13.vo", "corr/CorrSem.vo"]
RULE = ("arrays of length 0-6 and strings of 0-6 characters drawn from 1- to 4-byte code points: EVERY index from "
        "-(len+2) to len+2 for read and for write (complete), every value type as index and as stored value (complete "
        "over the type alphabet), lengte, aliasing through a second name / a caller / an enclosing array, plus random "
        "operation sequences (literal, alias, read, write, lengte, pass to function, nest): compared with VM.v inside Coq "
        "and judged by Sem.v (README indexing rule, reference semantics, characters not bytes), and by the rule that a "
        "failed write leaves the sequence unchanged (the sequence is printed after the failure in a second program). "
        "non-trivial = distinct program")
ASSUMPTIONS = ["byte-level behaviour of Rust's String::replace_range / char_indices is std (trusted); the model works on code-point lists"]
NOTES = ["proved for every machine state: norm_index_spec, index_get_*/index_set_* specs, set_failure_unchanged, index_set_frame, alias_sees_write, no-implicit-copy per opcode, length_chars"]

CPS = ["a", "é", "€", "🇳", "b", "ß", "語"]
VALS = ["(als nee { 1 })", "ja", "0", "-1", "1.5", "\"z\"", "\"\"", "\"lang\"", "[7]", "functie() { 1 }"]


def run(ctx, log):
    far = []
    for base, el in (("[10, 20, 30]", "i10"), ("\"abc\"", "S97")):
        for idx in (2147483647, 2147483648, 2147483649, 4294967295, 4294967296, 4294967297, 4294967298, 1099511627776, 1152921504606846975):
            for sign in ("", "0 - "):
                far.append(("stel a = %s; a[%s%d]" % (base, sign, idx), "ERR Index"))
                far.append(("stel a = %s; stel b = a; a[%s%d] = %s; b" % (base, sign, idx, "7" if base.startswith("[") else "\"z\""), "ERR Index"))
                far.append(("functie f(s, i) { s[i] } f(%s, %s%d)" % (base, sign, idx), "ERR Index"))
    for src, exp in [("stel a = [1, 2, 3]; a[7]; print(\"na\"); 1", "ERR Index"), ("stel a = [1, 2, 3]; stel i = 0; zolang i < 9 { a[i]; i += 1 } i", "ERR Index"), ("functie f(a, i) { a[i]; 2 } f([1], \"x\")", "ERR Type"),
                     ("stel a = [1, 2, 3]; a[-4]; 0", "ERR Index"), ("stel s = \"ab\"; s[2]; s[0]; 0", "ERR Index"), ("stel a = [1, 2, 3]; a[2]; a[0]; 5", "OK i5"), ("functie f(a) { a[0]; a[1]; a[9]; 1 } f([1, 2])", "ERR Index"),
                     ("stel a = [1]; als ja { a[3]; 1 } anders { 2 }", "ERR Index"), ("stel a = [[1]]; stel b = a[0]; b[1]; 0", "ERR Index")]:
        far.append((src, exp))
    progcheck.run_production(ctx, log, [t[1] for t in progcheck.alias_overwrite_family(ctx.quick)] + [t[1] for t in progcheck.text_size_family(True)][:: 6] + [t[1] for t in progcheck.collect_store_collect_family(ctx.quick)], budget=200000)
    fo = vlib.nlh("eval", ["5000 " + vlib.hexs(x) for x, _ in far], tag="c13far")
    for (x, e), o in zip(far, fo):
        ctx.seen(("far-index", x))
        ctx.count("far-indices-and-unused-reads")
        if progcheck.head(o) != e or (e.startswith("ERR") and "OUT -" not in o):
            ctx.violate("an index outside the sequence (or a read whose value is not used) did not raise the index / type error", source=x, observed=o[:200], expected=e)
    # the same small programs at every size around the widths the implementation encodes things in (closed-form results)
    progcheck.run_scale(ctx, log, ['rtnest', 'objects', 'constants', 'cyclic', 'alias', 'literal', 'text', 'csc'])
    progcheck.run_scale_wrapped(ctx, log, ['alias', 'cyclic', 'literal', 'objects', 'temporaries', 'rtnest', 'csc', 'constants', 'locals'])
    rng = ctx.rng
    progs = []
    for n in range(0, 7):
        arr = "[" + ", ".join(str(10 + k) for k in range(n)) + "]"
        st = nlast.quote("".join(CPS[k % len(CPS)] for k in range(n)))
        for i in range(-(n + 2), n + 3):
            idx = str(i) if i >= 0 else "(0 - %d)" % -i
            progs.append("stel a = %s; a[%s]" % (arr, idx))
            progs.append("stel s = %s; s[%s]" % (st, idx))
            progs.append("stel a = %s; a[%s] = 99; a" % (arr, idx))
            progs.append("stel s = %s; s[%s] = \"ŋ!\"; s" % (st, idx))
            # a failed write leaves the sequence unchanged: observe it through print before the error surfaces
            progs.append("stel a = %s; stel b = a; functie w() { b[%s] = 99 } print(\"{}\", a); w(); print(\"{}\", a); lengte(a)" % (arr, idx))
        progs.append("lengte(%s) + lengte(%s)" % (arr, st))
    ctx.exhaustive = True
    for v in VALS:
        progs.append("stel a = [1, 2, 3]; a[%s]" % v)
        progs.append("stel s = \"abc\"; s[%s]" % v)
        progs.append("stel a = [1, 2, 3]; a[1] = %s; a" % v)
        progs.append("stel s = \"abc\"; s[1] = %s; s" % v)
        progs.append("stel x = %s; x[0]" % v)
        progs.append("stel x = %s; x[0] = \"q\"; x" % v)
    directed = [
        "stel a = [1, 2]; stel b = a; b[0] = 9; a", "stel a = [1, 2]; functie f(x) { x[1] = 8 } f(a); a",
        "stel a = [[1], [2]]; stel in = a[0]; in[0] = 7; a", "stel a = [1]; stel n = [a, a]; n[0][0] = 5; [a, n]",
        "stel s = \"héé\"; stel t = s; t[1] = \"X\"; [s, t, lengte(s)]", "stel s = \"abc\"; s[0] = s; s", "stel s = \"abc\"; s[-1] = \"\"; [s, lengte(s)]",
        "stel s = \"🇳🇱\"; [lengte(s), s[0], s[1], s[-1]]", "stel s = \"a€b\"; s[1] = \"€€\"; [s, lengte(s), s[2]]",
        "stel a = []; functie g(x) { x } g(a) == g(a)", "stel a = [1, 2, 3]; stel i = 0; stel t = 0; zolang i < lengte(a) { t = t + a[i]; i += 1 } t",
        "stel s = \"abc\"; stel c = s[1]; c[0] = \"Z\"; [s, c]", "stel a = [\"x\"]; stel e = a[0]; e[0] = \"y\"; a",
        "stel a = [1, 2, 3]; a[0] = a[1] = 7; a", "stel a = [0]; a[a[0]] = 1; a[a[0] - 1]",
    ]
    directed += [
        "stel a = \"kat\"; stel b = \"kat\"; a[0] = \"r\"; [a, b]", "stel los = \"één\"; stel doos = [\"één\", \"één\"]; stel e = doos[0]; e[2] = \"𝄞𝄞\"; [los, doos, lengte(los)]",
        "stel i = 0; zolang i < 3 { i += 1; stel s = \"abc\"; s[0] = \"\"; print(\"{}\", s) } i", "stel i = 0; stel r = []; zolang i < 2 { i += 1; stel s = \"xy\"; s[1] = \"!\"; r = [r, s] } r",
        "functie f() { stel s = \"abc\"; s[0] = \"Z\"; s } [f(), f(), \"abc\"]", "stel a = \"q\"; { stel b = \"q\"; b[0] = \"w\" } als ja { stel c = \"q\"; c[0] = \"e\" } [a, \"q\"]",
    ]
    directed += [
        # writes made by callees into a sequence the caller (and an enclosing array) holds, with calls in between
        "stel rij = [0, 0, 0]; stel tabel = [rij, \"los\"]; functie zet(r, i) { r[i] = string(i * 11); i; 0 } functie niets() { 0 } niets(); zet(rij, 1); 5; zet(rij, 2); 6; niets(); [rij, tabel]",
        "stel rij = [\"a\", \"b\"]; functie vul(r) { stel i = 0; zolang i < lengte(r) { r[i] = [i + 0.5]; i += 1 } 0 } functie n() { } n(); vul(rij); 1; n(); stel k = rij[1]; [k[0], rij]",
        "stel s = \"héé\"; stel d = [s]; functie wis(t) { t[1] = string(2.5); 1; 0 } functie n() { 0 } n(); wis(s); 0; n(); n(); [s, d, lengte(s)]",
    ]
    progs += directed
    # an array stored into itself or into one of its own elements is still the same array (read back through the
    # cycle, never printed: printing a cyclic array is the recorded finding D26)
    progs += [
        "stel a = [1, 2, 3]; a[0] = a; a[1] = 20; stel t = a[0]; [t[1], lengte(t)]",
        "stel a = [1, 2, 3]; stel b = [0, a]; a[0] = a; a[1] = 20; stel t = a[0]; t[2] = 30; stel u = b[1]; [a[1], a[2], u[2], t[1]]",
        "stel a = [0]; stel b = [a]; a[0] = b; stel c = a[0]; stel d = c[0]; d[0] = 5; a[0]",
        "stel a = [1]; functie zelf(x) { x[0] = x; x } stel r = zelf(a); stel k = r[0]; k[0] = 9; a[0]",
        "stel a = [1, 2]; a[1] = a; stel p = a[1]; stel q = p[1]; q[0] = 7; [a[0], p[0], lengte(q)]",
        "stel a = [1, 2]; a[-1] = a; a[0] = 3; stel p = a[1]; p[0]",
    ]
    # random operation sequences
    for _ in range(300 if ctx.quick else 10000):
        n = rng.randint(0, 5)
        lines = ["stel a = [" + ", ".join(str(rng.randint(0, 9)) for _ in range(n)) + "]", "stel s = " + nlast.quote("".join(rng.choice(CPS) for _ in range(rng.randint(0, 5)))),
                 "stel b = a", "stel t = s", "functie put(x, i, v) { x[i] = v }", "functie get(x, i) { x[i] }", "stel n = [a, s]"]
        for _ in range(rng.randint(2, 7)):
            x = rng.choice(["a", "b", "s", "t", "n[0]", "n[1]"])
            i = rng.randint(-3, 6)
            idx = str(i) if i >= 0 else "(0 - %d)" % -i
            c = rng.random()
            if c < 0.3:
                lines.append("print(\"{}\", %s[%s])" % (x, idx))
            elif c < 0.55:
                val = rng.choice(["\"q\"", "\"\"", "\"ŋŋ\""]) if x in ("s", "t", "n[1]") else rng.choice(["5", "\"w\"", "[1]", "a"])
                if val == "a":
                    val = "7"          # no cycles: they are printed below
                lines.append("%s[%s] = %s" % (x, idx, val) if "[" not in x else "put(%s, %s, %s)" % (x, idx, val))
            elif c < 0.7:
                lines.append("print(\"{} {}\", lengte(%s), lengte(%s))" % (rng.choice(["a", "b"]), rng.choice(["s", "t"])))
            elif c < 0.85:
                lines.append("print(\"{}\", get(%s, %s))" % (x, idx))
            else:
                lines.append("put(%s, %s, %s)" % (rng.choice(["a", "b"]), idx, rng.choice(["1", "2.5", "\"r\""])))
        lines.append("[a, b, s, t, n]")
        progs.append("; ".join(lines))
    obs = progcheck.pipeline(ctx, progs, log, budget=20000, stages=("eval",), label="sequences", shard_size=300)
    for s, o in zip(progs, obs["eval"]):
        ctx.seen(s)
        ctx.count("result:" + progcheck.head(o).split()[0] + (progcheck.head(o)[3:] if o.startswith("ERR") else ""))
        h = progcheck.head(o)
        if h.startswith("PANIC") or h.startswith("CRASH") or h.startswith("TIMEOUT"):
            ctx.violate("an indexing operation crashed", source=s, observed=o[:200])
    ctx.sample(dict(source=progs[7], eval=obs["eval"][7][:120]))
    ctx.sample(dict(source=progs[-1][:300], eval=obs["eval"][-1][:200]))


def replay(ctx, data, log):
    progcheck.replay_source(ctx, data, log)


def search(ctx, log):
    progcheck.search_programs(ctx, log, n=4000 if ctx.quick else 40000)
