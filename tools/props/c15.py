"""C15 - the value encoding is lossless and collision-free."""
import itertools
import progcheck, vlib
from lattice import int_lattice, rand_int, rand_float_bits, FLOAT_SPECIALS

COQ_TARGETS = ["props/C15.vo", "corr/CorrWord.vo"]
RULE = ("Object constructors/accessors called directly in the harness and compared, inside Coq, with Word.v/Value.v: "
        "integer boundary lattice + random 61-bit integers, all (offset,count) pairs of a boundary set, float bit "
        "patterns, UTF-8 strings, arrays (real allocator addresses: alignment observed), pairwise == over a value "
        "sample; non-trivial = distinct case whose word is not 0")
ASSUMPTIONS = ["allocator returns non-null 8-aligned blocks (observed on every heap case, not proved)",
               "NaN payloads are not distinguished inside Coq (one nan); payload round trip is checked on the implementation side"]

TAGS = ["TNull", "TInt", "TBool", "TFunction", "TFloat", "TString", "TArray"]
STRINGS = ["", "a", "abc", "hé", "🇳🇱💖", "a\"b\\c", "{}", "\n\t", "日本語", "x" * 40, "\u0085‎", "z\u0000y"]


def desc_coq(d):
    k, v = d
    if k == "n":
        return "DNull"
    if k == "b":
        return "(DBool %s)" % ("true" if v else "false")
    if k == "i":
        return "(DInt %s)" % vlib.coq_z(v)
    if k == "f":
        return "(DFun %d %d)" % v
    if k == "F":
        return "(DFloat %s)" % vlib.coq_float(v)
    if k == "S":
        return "(DStr %s)" % vlib.coq_text(v)


def desc_rust(d):
    k, v = d
    if k == "n":
        return "n"
    if k == "b":
        return "b%d" % int(v)
    if k == "i":
        return "i%d" % v
    if k == "f":
        return "f%d.%d" % v
    if k == "F":
        return "F" + v
    if k == "S":
        return "S" + vlib.hexs(v)


def run(ctx, log):
    progcheck.run_special_constants(ctx, log)
    # the same small programs at every size around the widths the implementation encodes things in (closed-form results)
    progcheck.run_scale(ctx, log, ['constants', 'alias', 'text', 'csc'])
    rng = ctx.rng
    cases = []   # (rust line, builder(obs) -> coq term or None, python-side oracle(obs) -> error or None, label)
    ints = int_lattice() + [rand_int(rng) for _ in range(300 if ctx.quick else 20000)]
    for z in ints:
        cases.append(("int %d" % z, "int", z))
    for b in (0, 1):
        cases.append(("bool %d" % b, "bool", b))
    cases.append(("null", "null", None))
    offs = [0, 1, 2, 255, 256, 65535, 65536, 2 ** 31, 2 ** 32 - 1]
    cnts = [0, 1, 255, 256, 65535]
    for ip in offs:
        for n in cnts:
            cases.append(("fun %d %d" % (ip, n), "fun", (ip, n)))
    for _ in range(100 if ctx.quick else 5000):
        ip, n = rng.getrandbits(32), rng.getrandbits(16)
        cases.append(("fun %d %d" % (ip, n), "fun", (ip, n)))
    fl = list(FLOAT_SPECIALS) + [rand_float_bits(rng) for _ in range(200 if ctx.quick else 10000)]
    for b in fl:
        cases.append(("float " + b, "float", b))
    strs = list(STRINGS)
    for _ in range(100 if ctx.quick else 3000):
        n = rng.randint(0, 12)
        strs.append("".join(chr(rng.choice([rng.randint(32, 126), rng.randint(160, 0x2fff), rng.randint(0x1f300, 0x1f6ff)])) for _ in range(n)))
    for s in strs:
        cases.append(("str " + vlib.hexs(s), "str", s))
    for n in [0, 1, 2, 3, 10, 100]:
        cases.append(("arr %d" % n, "arr", n))
    # pairwise equality over a sample
    sample = [("n", None), ("b", False), ("b", True)]
    sample += [("i", z) for z in [0, 1, -1, 8, 2 ** 60 - 1, -2 ** 60, 2 ** 32, 2 ** 16, 65536 * 3 + 2]]
    sample += [("f", (0, 0)), ("f", (1, 0)), ("f", (0, 1)), ("f", (3, 2)), ("f", (2 ** 32 - 1, 65535)), ("f", (1, 65535))]
    sample += [("F", b) for b in ["0000000000000000", "8000000000000000", "7ff8000000000000", "3ff0000000000000", "bff0000000000000", "7ff0000000000000", "0000000000000001"]]
    sample += [("S", s) for s in ["", "a", "b", "ab", "hé", "he", "1", "ja"]]
    for b0 in ["3ff0000000000000", "3fd3333333333333", "4330000000000000", "3fb999999999999a", "7fefffffffffffff", "0000000000000001"]:
        for k in (1, 2):
            sample.append(("F", "%016x" % (int(b0, 16) + k)))          # neighbours: 1 and 2 units in the last place apart
    extra = 20 if ctx.quick else 160
    for _ in range(extra):
        c = rng.random()
        if c < 0.4:
            sample.append(("i", rand_int(rng)))
        elif c < 0.6:
            sample.append(("F", rand_float_bits(rng)))
        elif c < 0.8:
            sample.append(("S", rng.choice(strs)))
        else:
            sample.append(("f", (rng.getrandbits(32), rng.getrandbits(16))))
    for x in sample:
        for y in sample:
            cases.append(("eq %s | %s" % (desc_rust(x), desc_rust(y)), "eq", (x, y)))

    log("running %d word cases on the implementation" % len(cases))
    obs = vlib.nlh("word", [c[0] for c in cases], tag="c15")
    items = []
    idx_map = []
    tagnum = {"float": 4, "str": 5, "arr": 6}
    for i, ((line, kind, arg), o) in enumerate(zip(cases, obs)):
        ctx.seen(line, nontrivial=(kind != "null"))
        ctx.count(kind)
        if i % 997 == 0:
            ctx.sample(dict(case=line, impl=o))
        p = o.split()
        if o.startswith("PANIC") or o.startswith("CRASH") or o.startswith("TIMEOUT"):
            # Object::int outside the 61-bit range trips its debug assertion only in debug builds; never here
            ctx.violate("constructor or accessor crashed", case=line, observed=o)
            continue
        try:
            if kind == "int":
                term = "CInt %s %s %s %s" % (vlib.coq_z(arg), p[0], p[1], vlib.coq_z(int(p[2])))
                if int(p[2]) != arg:
                    ctx.violate("integer not read back as written", case=line, observed=o, expected=arg)
            elif kind == "bool":
                term = "CBool %s %s %s %s" % ("true" if arg else "false", p[0], p[1], "true" if p[2] == "1" else "false")
            elif kind == "null":
                term = "CNull %s %s" % (p[0], p[1])
            elif kind == "fun":
                term = "CFun %d %d %s %s %s %s" % (arg[0], arg[1], p[0], p[1], p[2], p[3])
                if (int(p[2]), int(p[3])) != arg:
                    ctx.violate("function descriptor not read back as written", case=line, observed=o, expected=list(arg))
            elif kind in ("float", "str", "arr"):
                term = "CHeap %s %s %s %s" % (TAGS[tagnum[kind]], p[0], p[1], "true" if p[2] == "1" else "false")
                if kind == "float" and p[3] != arg:
                    ctx.violate("float bit pattern not read back as written", case=line, observed=o, expected=arg)
                if kind == "str" and p[3] != ("-" if arg == "" else ".".join(str(ord(c)) for c in arg)):
                    # lossy decoding of the hex case cannot happen: inputs are valid UTF-8
                    ctx.violate("text not read back as written", case=line, observed=o, expected=arg)
                if kind == "arr" and int(p[3]) != arg:
                    ctx.violate("array length not read back", case=line, observed=o, expected=arg)
            elif kind == "eq":
                x, y = arg
                if o == "array":
                    continue
                term = "CEq %s %s %s" % (desc_coq(x), desc_coq(y), "true" if o == "1" else "false")
                # oracle (spec): equal iff same type and same content (IEEE for floats)
                exp = None
                if x[0] != y[0]:
                    exp = False
                elif x[0] == "F":
                    import struct
                    fx = struct.unpack(">d", bytes.fromhex(x[1]))[0]
                    fy = struct.unpack(">d", bytes.fromhex(y[1]))[0]
                    exp = fx == fy
                else:
                    exp = x[1] == y[1]
                if exp != (o == "1"):
                    ctx.violate("== disagrees with equality of type and content", case=line, observed=o, expected=exp)
            items.append(term)
            idx_map.append(i)
        except (IndexError, ValueError):
            ctx.disagree("word", case=line, impl=o, model="(unparseable observation)")
    header = "From NL.Corr Require Import CorrWord.\nOpen Scope Z_scope."
    footer = lambda: "Eval vm_compute in (mismatches check cases)."
    shards, results, errors = vlib.run_coq_shards(ctx.prop, header, items, footer, shard_size=600)
    for e in errors:
        ctx.broken.append(dict(kind="corr-shard", what=e))
    off = 0
    for k, sh in enumerate(shards):
        if k in results:
            bad = vlib.parse_index_list(results[k])
            if bad is None:
                ctx.broken.append(dict(kind="corr-output", what=results[k][-300:]))
            else:
                for j in bad:
                    gi = idx_map[off + j]
                    ctx.disagree("word", case=cases[gi][0], impl=obs[gi], model="Word.v computes a different word / tag / payload (coq term: %s)" % sh[j])
        off += len(sh)
    log("correspondence: %d cases in Coq, %d disagreements" % (len(items), len(ctx.disagreements)))
    # text stays what was written also after it has been edited in place: read back, measured and compared through
    # the language (a box may cache nothing that an edit does not refresh)
    import nlast
    edits = []
    for orig in ["abc", "héé", "🇳🇱x", "a", "aaaa", "é€語🇳"]:
        for i in range(len(orig)):
            for repl in ["", "Z", "ŋŋ", "lang stuk", "é"]:
                e = orig[:i] + repl + orig[i + 1:]
                edits.append(("stel s = %s; s[%d] = %s; stel t = %s; [s == t, t == s, s != t, lengte(s), s]" % (nlast.quote(orig), i, nlast.quote(repl), nlast.quote(e)),
                              "OK #0=A[b1,b1,b0,i%d,#1=S%s]" % (len(e), nlast.cps(e))))
    edits += [("stel nul = 0.0; stel min = -0.0; [1.0 / min, 1.0 / nul]", "OK #0=A[#1=Ffff0000000000000,#2=F7ff0000000000000]"),
              ("stel min = -0.0; stel nul = 0.0; [1.0 / min, 1.0 / nul]", "OK #0=A[#1=Ffff0000000000000,#2=F7ff0000000000000]"),
              ("[0.0, -0.0, 0.0]", "OK #0=A[#1=F0000000000000000,#2=F8000000000000000,#1]"),
              ("stel a = string(\"abc\"); a[0] = \"XY\"; [\"abc\", a, lengte(\"abc\")]", "OK #0=A[#1=S97.98.99,#2=S88.89.98.99,i3]"),
              ("stel a = string(\"q\"); stel b = string(\"q\"); a[0] = \"w\"; [a, b, \"q\" == b]", "OK #0=A[#1=S119,#2=S113,b1]"),
              ("[-1, 0 - 1, -(1), 1]", "OK #0=A[i-1,i-1,i-1,i1]")]
    # literals through the SOURCE TEXT: any text (escapes next to multi-byte characters), any float and integer written
    # as a literal is read back as written, and a value made at run time equals / does not differ from the literal
    import struct
    alpha = ["a", "é", "€", "🇳", "\"", "\\", "{}", "n", " ", "語"]
    texts = ["".join(p) for n in (1, 2) for p in itertools.product(alpha, repeat=n)] + ["".join(rng.choice(alpha) for _ in range(rng.randint(3, 9))) for _ in range(60 if ctx.quick else 2000)]
    for t in texts:
        edits.append(("stel s = %s; stel t = [s]; [s, lengte(s), t[0] == s, s != t[0]]" % nlast.quote(t), "OK #0=A[#1=S%s,i%d,b1,b0]" % (nlast.cps(t), len(t))))
    for t in texts:
        if len(t) >= 2:
            edits.append(("stel s = %s; [s[-1], s[-%d], s[0], s[%d]]" % (nlast.quote(t), len(t), len(t) - 1), "OK #0=A[#1=S%s,#2=S%s,#3=S%s,#4=S%s]" % (nlast.cps(t[-1]), nlast.cps(t[0]), nlast.cps(t[0]), nlast.cps(t[-1]))))
    for b in list(FLOAT_SPECIALS) + [rand_float_bits(rng) for _ in range(40 if ctx.quick else 1500)]:
        x = struct.unpack(">d", bytes.fromhex(b))[0]
        r = repr(x)
        if x != x or "inf" in r or "e" in r or r.startswith("-"):
            continue
        eq = "b1,b0,b1,b0"
        edits.append(("stel a = [%s * 1.0]; stel b = -(-(a[0])); [b == %s, b != %s, %s == b, %s != b, b]" % (r, r, r, r, r), "OK #0=A[%s,#1=F%s]" % (eq, b)))
    # float literals with 1 to 25 significant digits: the literal denotes the nearest binary64 (Python's float() is the reference)
    for _ in range(150 if ctx.quick else 6000):
        nd = rng.randint(1, 25)
        digits = "".join(rng.choice("0123456789") for _ in range(nd))
        ip = rng.choice(["0", "1", "7", "12", "123456", "9007199254740993", "4503599627370497"])
        lit = ip + "." + digits
        bits = "%016x" % struct.unpack(">Q", struct.pack(">d", float(lit)))[0]
        edits.append(("[%s]" % lit, "OK #0=A[#1=F%s]" % bits))
    for lit in ["0.9046212365765801", "0.30000000000000004", "1.0000000000000002", "0.1", "5.55", "3.14", "9007199254740993.0", "0.000000000000000000000000000001", "123456789012345678.0", "1.7976931348623157"]:
        bits = "%016x" % struct.unpack(">Q", struct.pack(">d", float(lit)))[0]
        edits.append(("[%s, %s == %s]" % (lit, lit, lit), "OK #0=A[#1=F%s,b1]" % bits))
    for z in [0, 1, 7, 2 ** 60 - 1, 2 ** 59, 65536 * 3 + 1] + [rand_int(rng) for _ in range(20)]:
        if z >= 0:
            edits.append(("stel a = [%d]; stel b = a[0] + 0; [b == %d, b != %d, b]" % (z, z, z), "OK #0=A[b1,b0,i%d]" % z))
    edits += [("functie leeg() { }; \"de waarde\"; stel a = leeg(); stel b = leeg()", "OK #0=S%s" % nlast.cps("de waarde")), ("functie f() { 2 }; 1.5 + 1.0; stel u = f(); stel v = f()", "OK #0=F4004000000000000"),
              ("functie g(n) { stel l = [n] }; [0.5 + 0.25, \"x\"]; stel p = g(1); stel q = g(2)", "OK #0=A[#1=F3fe8000000000000,#2=S120]"), ("functie kwadraat(n) { n * n }; [kwadraat(2), \"klaar\"]; stel laatste = kwadraat(4)", "OK #0=A[i4,#1=S%s]" % nlast.cps("klaar")),
              ("functie niets() { }; stel t = \"tekst\"; t; stel w = niets(); stel x = niets()", "OK #0=S%s" % nlast.cps("tekst"))]
    eo = vlib.nlh("eval", ["1000 " + vlib.hexs(src) for src, _ in edits], tag="c15e")
    for (src, exp), o in zip(edits, eo):
        ctx.seen(src)
        ctx.count("edited-text")
        if o.split(" | ")[0] != exp:
            ctx.violate("a text edited in place is not read back / compared / measured as written", case=src, observed=o.split(" | ")[0][:200], expected=exp)


def replay(ctx, data, log):
    case = data.get("case")
    if not case:
        log("nothing to replay")
        return
    o = vlib.nlh("word", [case], tag="c15r")[0]
    log("case: %s\nimplementation now: %s\nrecorded: %s" % (case, o, data.get("observed", data.get("impl"))))
