"""C05 - every failure is an error value: no input crashes or hangs the interpreter."""
import json, os, re
import vlib, runcorr, front, progcheck, noise, nlast, genwf

NEEDS_DEBUG = True
COQ_TARGETS = ["props/C05.vo", "corr/CorrFront.vo", "corr/CorrRun.vo"]
RULE = ("input classes of the property, each run through the real eval in a worker process (address-space limit, wall "
        "clock limit per batch, instruction budget) and classified: value / one of the five error kinds / budget are "
        "fine, a caught panic, a dead worker (abort, native stack overflow) or a timeout is a violation: random token "
        "sequences over the regenerated vocabulary, token-level edits of generated well-formed programs, truncations at "
        "every byte offset of well-formed programs, Unicode/byte noise, a directed corpus of boundary programs. The "
        "lexer and parser stages of a sample are compared with Lexer.v/Parser.v (tokens with offsets, trees, error "
        "kinds), the compile and run stages with Compiler.v/VM.v. non-trivial = distinct text")
ASSUMPTIONS = ["native stack and memory exhaustion cannot be exhibited by the model; they are only observable in the worker process",
               "eval_never_panics (front_certifies + eval_total) is a whole-pipeline theorem about the MODEL: every source text, every budget gives a value, an error value or out-of-budget; the implementation's panics and aborts (which the model cannot exhibit) are searched for in the worker process"]
NOTES = ["proved: parse_terminates (all token lists), parse_no_panic, parse_total, lexer progress/coverage; compiler is structurally recursive (no fuel)"]

DIRECTED = [
    "print(\"{} van {} klaar\", 3); print(\"{} {} {}\"); print(\"{}\", \"{}\", 1); 1", "stel namen = [1]; namen.lengte", "\"x\".y", "functie f() { 1 } f().g", "1 . 2", "a.b.c", "[1].0", ".", "1..2", "stel a = 1; a . ",
    "99999999999999999999", "1152921504606846976", "1152921504606846975 + 1", "-1152921504606846975 - 2", "1 / 0", "1 % 0", "1.0 / 0.0", "0.0 % 0.0",
    "(0 - 1152921504606846975 - 1) / (0 - 1)", "-(0 - 1152921504606846975 - 1)", "antwoord 1", "stop", "volgende", "functie f() { stop } f()",
    "stel x = x", "stel x = x + 1; x", "\"é\"[1]", "\"é\"[-1]", "\"\"[0]", "[][0]", "[1][1.5]", "[1][\"a\"]", "1[0]", "stel s = \"a\"; s[0] = 1",
    "[1] == [1]", "functie f() {} functie g() {} f < g", "functie f() {1} f(1, 2)", "functie f(a, b) { a } f(1)", "1(2)", "\"a\"(1)",
    "functie (", "functie(1){}", "functie f(", "als", "als ja", "als ja {", "zolang", "zolang ja", "stel", "stel a", "stel a =", "a =", "1 +", "(", "[", "{", "}", ")", "]",
    "\"abc", "\"abc\\", "1 № 2", "&", "|", "1 & 2", "^", "a.b", "1 . 2", "int(\"4611686018427387904\")", "int(1000000000000000000000.0)", "int(0.0/0.0)",
    "int(\"\")", "int(\" \")", "int(\"-\")", "float(\"x\")", "float(\"\")", "lengte(1)", "lengte()", "type()", "print()", "bool(functie() {})", "string([1])",
    "functie r(n) { als n == 0 { antwoord 0 } 1 + r(n - 1) } r(40000)", "functie r(n) { r(n + 1) } r(0)", "functie r() { r() } r()",
    "stel a = []; stel i = 0; zolang i < 300 { a = [a]; i += 1 } lengte(a)", "stel f = functie() { f }; f()()", "!1", "-ja", "-\"a\"", "!null_",
    "stel a = [1]; a[0] = a; lengte(a)", "stel a = [1]; a[0] = a; a == a",
]
KNOWN = {
    "cyclic_display": ["stel a = [1]; a[0] = a; print(a)", "stel a = [1]; a[0] = a; string(a)", "stel a = [1]; stel b = [a]; a[0] = b; print(\"{}\", b)"],
    "native_stack_exhaustion": ["(" * 100000 + "1" + ")" * 100000, "[" * 100000, "-" * 200000 + "1", "{" * 100000, "als " * 60000],
}


def nesting_depth(s):
    d = m = 0
    for ch in s:
        if ch in "([{":
            d += 1
            m = max(m, d)
        elif ch in ")]}":
            d = max(0, d - 1)
    # prefix operators and keywords that recurse without brackets
    runs = max([len(x) for x in re.findall(r"(?:[-!]\s*)+", s)] + [0])
    kw = len(re.findall(r"\b(?:als|zolang|functie)\b", s))
    return max(m, runs, kw)


def classify_known(src, obs, findings):
    """-> finding text if this failure is one of the recorded findings"""
    for f in findings:
        if f.get("property") != "C05":
            continue
        if f["class"] == "native_stack_exhaustion" and obs.startswith("CRASH") and nesting_depth(src) > 2000:
            return "%s (%s): nesting depth %d" % (f["id"], f["class"], nesting_depth(src))
        if f["class"] == "cyclic_display" and obs.startswith("CRASH") and src in f.get("inputs", []):
            return "%s (%s): %s" % (f["id"], f["class"], src)
    return None


def run(ctx, log):
    # comments of every content (several multi-byte characters, trailing backslashes, quotes, code) change nothing
    progcheck.run_comments(ctx, log, mode='eval')
    # a failing line that completed nothing leaves a retained session as it was (every kind of failure, at every depth)
    progcheck.run_failing_lines(ctx, log)
    # the same small programs at every size around the widths the implementation encodes things in (closed-form results)
    progcheck.run_scale(ctx, log, ['constants', 'locals', 'args', 'statements', 'nesting', 'rtnest', 'objects', 'cyclic', 'alias', 'literal', 'temporaries', 'arity', 'names', 'text', 'csc'])
    progcheck.run_code_boundary(ctx, log)
    # misplaced stop / volgende under every nesting: rejected before anything runs, or run to a value - never a crash
    sj = progcheck.stray_jump_family(ctx.quick, ctx.rng, all_pres_depth=3)
    for prof in ("release", "debug"):
        for x, o in zip(sj, vlib.nlh("eval", ["20000 " + vlib.hexs(x) for x in sj], tag="c05sj", profile=prof, timeout=600)):
            ctx.seen(("stray-jump", x, prof))
            ctx.count("stray-jump")
            ctx.count("stray-jump:" + " ".join(o.split(" |")[0].split()[:2])[:14])      # rejected (and why) / ran to a value
            if not (o.startswith("OK") or o.startswith("ERR") or o.startswith("BUDGET")):
                ctx.violate("a misplaced stop / volgende crashed the interpreter (%s build)" % prof, source=x, observed=o[:300])
    log("stray jumps by outcome: %s" % {k: v for k, v in ctx.stats.items() if k.startswith("stray-jump:")})
    # every special value (NaN, infinities, signed zero, range ends, empty and nested things, null, functions) through every
    # operator, prefix operator, builtin and index position: a value or an error value, never a crash
    sv = progcheck.special_values_family()
    for prof in ("release", "debug"):
        so = vlib.nlh("eval", ["5000 " + vlib.hexs(x) for x in sv], tag="c05sv", profile=prof, timeout=900)
        for x, o in zip(sv, so):
            ctx.seen(("special", x, prof))
            ctx.count("special-values")
            if not (o.startswith("OK") or o.startswith("ERR") or o.startswith("BUDGET")):
                ctx.violate("an operation on a special value crashed instead of giving a value or an error value (%s build)" % prof, source=x, observed=o[:300])
    extra_nc = progcheck.nested_names_family(ctx.quick) + progcheck.function_endings_family(ctx.quick)
    extra_nc += ["functie gemiddelde(a, b, c) { functie deel(som) { som / c } deel(a + b + c) } gemiddelde(1, 2, 3)", "functie f(a, b, c, d) { functie g() { d = 1; [a, b, c, d] } g() } f(1, 2, 3, 4)",
                 "functie f(p) { stel l1 = 1; stel l2 = 2; functie g(q) { l2 + q } g(p) } f(5)", "functie f(p) { functie g() { functie h() { p } h() } g() } f(5)"]
    wv_ = []
    ends_, _ = progcheck.gen_sources(ctx, 150 if ctx.quick else 3000, with_value_out=wv_, max_depth=3, end_with_statement=1.0)
    extra_nc += ends_ + ["functie kwadraat(n) { n * n }; [kwadraat(2), kwadraat(3), \"klaar\"]; stel laatste = kwadraat(4)", "functie niets(x) { stel l = x }; [1.5, \"s\"]; stel u = niets(2)", "functie leeg() { }; \"de waarde\"; stel a = 1; stel c = leeg(); stel b = leeg()"]
    for prof in ("release", "debug"):
        for x, o in zip(extra_nc, vlib.nlh("eval", ["30000 " + vlib.hexs(x) for x in extra_nc], tag="c05nc", profile=prof, timeout=900)):
            ctx.seen(("no-crash", x, prof))
            ctx.count("names-endings-statement-ending-programs")
            if not (o.startswith("OK") or o.startswith("ERR") or o.startswith("BUDGET")):
                ctx.violate("evaluation crashed instead of giving a value or an error value (%s build)" % prof, source=x, observed=o[:300])
    progcheck.run_production(ctx, log, extra_nc[-(len(ends_) + 3):][: 120 if ctx.quick else 1500])
    rng = ctx.rng
    vocab = noise.vocabulary()
    findings = vlib.known_findings()
    inputs, kinds = [], []

    def add(s, k):
        inputs.append(s)
        kinds.append(k)

    for s in DIRECTED:
        add(s, "directed")
    for cls, lst in KNOWN.items():
        for s in lst:
            add(s, "known:" + cls)
    for _ in range(4000 if ctx.quick else 100000):
        add(noise.render(noise.random_tokens(rng, rng.randint(1, 30), vocab)), "random-tokens")
    srcs, asts = progcheck.gen_sources(ctx, 60 if ctx.quick else 400, max_depth=3)
    for a in asts:
        toks = nlast.print_program(a)
        for _ in range(50 if ctx.quick else 150):
            add(noise.render(noise.mutate_tokens(rng, toks, vocab, k=rng.randint(1, 3))), "token-edit")
    for s in srcs[:25 if ctx.quick else 60]:
        for t in noise.truncations(s):
            add(t, "truncation")
    for _ in range(1000 if ctx.quick else 20000):
        add(noise.unicode_noise(rng, rng.randint(1, 40)), "noise")
    for _ in range(3000 if ctx.quick else 60000):
        add(noise.char_soup(rng, rng.randint(1, 14)), "char-soup")
    for _ in range(1500 if ctx.quick else 30000):
        add(noise.glue_tokens(rng, noise.random_tokens(rng, rng.randint(2, 8), vocab)), "glued-tokens")
    # complete: every text of up to 5 characters over the number alphabet (digits and dots fuse in many ways)
    import itertools
    for n in range(1, 6):
        for t in itertools.product("12.", repeat=n):
            add("".join(t), "number-soup")
    # the machine's limits are reported as error values at every alignment (both build profiles are compared in C12)
    for src, val in progcheck.deep_recursion_family():
        add(src, "deep-recursion")
    log("%d inputs" % len(inputs))
    obs = vlib.nlh("eval", [("6000000 " if k == "deep-recursion" else "20000 ") + vlib.hexs(s) for s, k in zip(inputs, kinds)], tag="c05", timeout=300)
    seen_known = set()
    for s, k, o in zip(inputs, kinds, obs):
        h = progcheck.head(o)
        cls = h.split()[0] + (" " + h.split()[1] if h.startswith("ERR") else "")
        ctx.seen(s)
        ctx.count(k.split(":")[0] + ":" + cls)
        if cls in ("OK", "BUDGET", "OOM") or h.startswith("ERR "):
            continue
        kf = classify_known(s, o, findings)
        if kf:
            if kf not in seen_known:
                seen_known.add(kf)
                ctx.known.append(kf[:200] if len(kf) < 200 else kf[:120] + "...")
            continue
        ctx.violate("the interpreter %s instead of returning a value or a documented error" %
                    ("panicked" if h.startswith("PANIC") else "crashed (worker process died)" if h.startswith("CRASH") else "did not return within the time limit"),
                    source=s if len(s) < 2000 else s[:300] + "...(%d chars)" % len(s), observed=o[:300], input_class=k)
    # correspondence of the front end on a sample (short inputs: the model side is evaluated inside Coq)
    idx = [i for i, s in enumerate(inputs) if len(s) < 400 and not kinds[i].startswith("known")]
    rng.shuffle(idx)
    pick = sorted(idx[:1500 if ctx.quick else 20000])
    front.front_corr(ctx, [inputs[i] for i in pick], ("tok", "parse"), log, label="front")
    ok_run = [i for i in pick if not obs[i].startswith("ERR Syntax")][:500 if ctx.quick else 6000]
    runcorr.run_corr(ctx, [inputs[i] for i in ok_run], log, budget=20000, stages=("compile", "eval"), label="run")
    ctx.sample(dict(source=inputs[len(DIRECTED) + 10][:200], kind=kinds[len(DIRECTED) + 10], impl=obs[len(DIRECTED) + 10][:100]))
    ctx.sample(dict(source=DIRECTED[0], impl=obs[0][:100]))


def replay(ctx, data, log):
    progcheck.replay_source(ctx, data, log)


def search(ctx, log):
    progcheck.search_programs(ctx, log, n=4000 if ctx.quick else 40000)
