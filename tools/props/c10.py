"""C10 - how the compiler chooses to implement an expression is unobservable."""
import vlib, runcorr, progcheck, astops, nlast, genwf

COQ_TARGETS = ["props/C10.vo", "corr/CorrSem.vo"]
RULE = ("closed generated programs, each compared ON THE IMPLEMENTATION with its variants under: (a) moving the top-level "
        "code into a function body (globals become locals; programs without function definitions, since the language "
        "has no closures), (b) replacing an integer literal operand by a fresh variable holding it (each literal in turn, "
        "sampled in the quick tier), (c) mirroring `c op x` to `x op' c` and back for the mirrorable operators, (d) "
        "prepending statements that mention the same and other literals (shifts and merges constant-pool entries): value, "
        "output and error must be identical; the base programs are also compared with Compiler.v/VM.v and Sem.v. "
        "non-trivial = distinct (program, variant) pair whose program compiles")
ASSUMPTIONS = ["literal_vs_variable and global_vs_local follow from compile_correct, proved for fragments F3 (scalars + functions, where fused instructions occur) and F2h (top-level heap values); for programs combining functions with heap values they rest on these metamorphic runs"]
NOTES = ["proved for every machine state: fused_step_equiv (11 opcodes), fused_selection_sound/meaning, mirror_sound, pool_stable, pool_prefix, pool_nodup_preserved, const_string_copied"]

MIRROR = {"+": "+", "*": "*", "==": "==", "!=": "!=", "<": ">", ">": "<", "<=": ">=", ">=": "<="}


def int_literal_count(t):
    cnt = [0]

    def f(n):
        if n[0] == "int":
            cnt[0] += 1
        return n
    astops.walk(t, f)
    return cnt[0]


def replace_literal(t, k, name):
    cnt = [0]
    val = [None]

    def f(n):
        if n[0] == "int":
            cnt[0] += 1
            if cnt[0] - 1 == k:
                val[0] = n[1]
                return ("id", name)
        return n
    t2 = astops.walk(t, f)
    return t2, val[0]


def mirror_all(t):
    changed = [0]

    def f(n):
        if n[0] == "infix" and n[1] in MIRROR and ((n[2][0] == "int" and n[3][0] == "id") or (n[2][0] == "id" and n[3][0] == "int")):
            changed[0] += 1
            return ("infix", MIRROR[n[1]], n[3], n[2])
        return n
    return astops.walk(t, f), changed[0]


def literals_of(t):
    out = []

    def f(n):
        if n[0] in ("int", "float", "str"):
            out.append(n)
        return n
    astops.walk(t, f)
    return out


DIRECTED = [
    "functie f(n) { 10 - n } f(3)", "functie f(n) { n - 10 } f(3)", "functie f(n) { 10 / n } f(3)", "functie f(n) { 10 % n } f(3)",
    "functie f(n) { 10 < n } f(3)", "functie f(n) { 10 >= n } f(10)", "functie f(n) { [n + 1, 1 + n, n * 2, 2 * n, n == 2, 2 == n, n != 2, 2 != n] } f(2)",
    "functie f(c) { stel s = \"abc\"; stel r = s[0]; s[0] = c; r } f(\"x\"); f(\"y\")",
    "stel a = \"abc\"; stel b = \"abc\"; a[0] = \"x\"; b", "stel i = 0; zolang i < 3 { i += 1; stel s = \"abc\"; s[0] = \"\"; print(\"{}\", s) } \"abc\"",
    "stel a = \"kat\"; stel b = [\"kat\"]; stel c = b[0]; c[1] = \"o\"; [a, b, \"kat\"]", "functie f(x) { x + 1.5 } f(1.5) + 1.5",
    "stel nul = 0.0; stel min = -0.0; [1.0 / min, 1.0 / nul, 1.0 / -0.0]", "stel min = -0.0; stel nul = 0.0; [1.0 / min, 1.0 / nul]", "[-1, 1, -1, 0 - 1, -(1)]", "functie f(x) { [x - 1, -1 + x, x * -1] } f(5)",
    "stel a = string(\"abc\"); a[0] = \"XY\"; [\"abc\", a, string(\"abc\"), lengte(\"abc\")]", "stel a = string(\"q\"); stel b = string(\"q\"); a[0] = \"w\"; [a, b, \"q\"]",
    "print(\"abc\"); stel s = string(\"abc\"); s[1] = \"\"; print(\"abc\"); type(\"abc\")",
    "functie f(n) { n + 1152921504606846975 } f(1)", "functie f(n) { 1152921504606846975 + n } f(1)", "functie f(n) { n / 0 } f(1)", "functie f(n) { 0 / n } f(0)",
    "functie f(s) { s + 1 } f(\"a\")", "functie f(s) { 1 < s } f(nee)",
]


def run(ctx, log):
    # the same small programs at every size around the widths the implementation encodes things in (closed-form results)
    progcheck.run_scale(ctx, log, ['constants', 'locals', 'csc'])
    progcheck.run_special_constants(ctx, log)
    # global or local placement is unobservable also where the documentation is silent (a name read in its own
    # initialiser, redeclaration that mentions the old variable): the same statements at top level and as a function body
    bodies = ["stel teller = 1; stel teller = teller + 1; teller", "stel t = 1; als ja { stel t = t * 10; t }", "stel y = y; type(y)", "stel a = 2; stel b = a + a; stel a = a * b; [a, b]",
              "stel v = 3; als ja { stel v = v + 1; v } anders { 0 }", "stel i = 0; stel r = 0; zolang i < 2 { i += 1; stel i2 = i2; r = type(i2) }; r", "stel q = 1; stel q = [q, q]; q",
              "stel m = 5; stel m = m; m", "stel n = 5; als ja { stel n = n; type(n) }", "stel w = 1; stel w = als w == 1 { 10 } anders { 20 }; w", "stel z = 4; stel z = -z; z", "stel s = \"a\"; stel s = lengte(s); s"]
    tops = vlib.nlh("eval", ["20000 " + vlib.hexs(b) for b in bodies], tag="c10p")
    wraps = vlib.nlh("eval", ["20000 " + vlib.hexs("functie hoofd_() { %s } hoofd_()" % b) for b in bodies], tag="c10pw")
    for b, t, w in zip(bodies, tops, wraps):
        ctx.seen(("placement", b))
        ctx.count("variant:placement-of-self-initialisers")
        if progcheck.visible(t) != progcheck.visible(w):
            ctx.violate("the same statements behave differently at top level and as the body of a function", source="functie hoofd_() { %s } hoofd_()" % b, original=b, observed=progcheck.visible(w)[:300], expected=progcheck.visible(t)[:300])
    # prepending statements only moves code: every control-flow template at every code offset 0..620 and 1200..1500
    offs = list(range(0, 620, 1 if not ctx.quick else 2)) + list(range(1200, 1500))
    sweep = progcheck.layout_sweep(offs)
    base_obs = vlib.nlh("eval", ["200000 " + vlib.hexs(src) for src, _ in progcheck.LAYOUT_TEMPLATES], tag="c10lb")
    so = vlib.nlh("eval", ["200000 " + vlib.hexs(src) for _, _, src in sweep], tag="c10ls", timeout=600)
    for (t_, k_, src_), o_ in zip(sweep, so):
        ctx.seen(("layout", t_, k_))
        ctx.count("variant:prepended-code-bytes")
        if progcheck.visible(o_) != progcheck.visible(base_obs[t_]):
            ctx.violate("the same construct behaves differently after %d bytes of prepended literal statements" % k_, source=src_ if len(src_) < 1500 else "(%d bytes of `ja;` statements) " % k_ + progcheck.LAYOUT_TEMPLATES[t_][0],
                        observed=progcheck.visible(o_)[:300], expected=progcheck.visible(base_obs[t_])[:300], offset=k_)
    rng = ctx.rng
    n = 300 if ctx.quick else 5000
    srcs_a, asts_a = progcheck.gen_sources(ctx, n, max_depth=3, funcs=False)
    srcs_b, asts_b = progcheck.gen_sources(ctx, n, max_depth=3)
    base = DIRECTED + srcs_a + srcs_b
    asts = [None] * len(DIRECTED) + asts_a + asts_b
    obs = progcheck.pipeline(ctx, base, log, budget=20000, label="base-programs")
    ev = obs["eval"]
    v_src, v_kind, v_base = [], [], []
    for i, a in enumerate(asts):
        if a is None or not obs["compile"][i].startswith("OK") or ev[i].startswith("BUDGET"):
            continue
        ctx.seen(base[i])
        if i < len(DIRECTED) + len(asts_a):
            # (a) into a function body
            v_src.append(nlast.to_source([("expr", ("fn", "hoofd_", [], a)), ("expr", ("call", ("id", "hoofd_"), []))]))
            v_kind.append("wrap-in-function")
            v_base.append(i)
        else:
            fns = [s for s in a if s[0] == "expr" and s[1][0] == "fn" and s[1][1]]
            rest = [s for s in a if not (s[0] == "expr" and s[1][0] == "fn" and s[1][1])]
            declared = {s[1] for s in rest if s[0] == "let"}
            fn_names = [f[1][1] for f in fns]
            # (moving the functions in front of the other statements must not reorder two declarations of one name)
            if fns and rest and not any(astops.names_in(f[1][3]) & declared for f in fns) and "'fn'" not in repr(rest) \
                    and not (set(fn_names) & declared) and len(set(fn_names)) == len(fn_names):
                v_src.append(nlast.to_source(fns + [("expr", ("fn", "hoofd_", [], rest)), ("expr", ("call", ("id", "hoofd_"), []))]))
                v_kind.append("statements-into-function")
                v_base.append(i)
        nl = int_literal_count(a)
        ks = range(nl) if not ctx.quick else rng.sample(range(nl), min(nl, 3))
        for k in ks:
            a2, val = replace_literal(a, k, "lit_%d" % k)
            v_src.append(nlast.to_source([("let", "lit_%d" % k, ("int", val))] + a2))
            v_kind.append("literal-to-variable")
            v_base.append(i)
        a3, ch = mirror_all(a)
        if ch:
            v_src.append(nlast.to_source(a3))
            v_kind.append("mirror")
            v_base.append(i)
        lits = literals_of(a)
        pre = []
        for j in range(rng.randint(1, 4)):
            l = rng.choice(lits) if lits and rng.random() < 0.6 else rng.choice([("int", 12345), ("str", "voorop"), ("float", "8.125"), ("int", 0)])
            pre.append(("let", "voor_%d" % j, l) if rng.random() < 0.6 else ("expr", l))
        v_src.append(nlast.to_source(pre + a))
        v_kind.append("prepend-literals")
        v_base.append(i)
    # an integer literal equal to the packed word of a function constant of the same program (entry << 16 | locals) is still
    # that integer: append it to programs that define functions, reading the constants from the REAL bytecode
    import re as _re
    coll_src, coll_exp = [], []
    for i, a in enumerate(asts):
        if a is None or not obs["compile"][i].startswith("OK") or ev[i].startswith("BUDGET") or not ev[i].startswith("OK"):
            continue
        for ip, nl in _re.findall(r" f(\d+)\.(\d+)", obs["compile"][i])[:2]:
            lit = int(ip) * 65536 + int(nl)
            coll_src.append(base[i] + " ; print(\"{}\", %d) ; %d + 1" % (lit, lit))
            coll_exp.append((str(lit), "OK i%d" % (lit + 1)))
    for (src, (txt, val)), o in zip(zip(coll_src, coll_exp), vlib.nlh("eval", ["40000 " + vlib.hexs(s) for s in coll_src], tag="c10c", timeout=300)):
        ctx.seen(("collide", src))
        ctx.count("variant:colliding-literal")
        out = progcheck.out_of(o)
        if progcheck.head(o) != val or not out.endswith(".".join(str(ord(c)) for c in txt) + ".10"):
            ctx.violate("an integer literal that happens to equal the encoding of a function constant of the same program is not that integer any more", source=src[-300:], observed=(progcheck.head(o) + " | " + out[-80:])[:300], expected=val)
    ve = vlib.nlh("eval", ["40000 " + vlib.hexs(s) for s in v_src], tag="c10v", timeout=300)
    for s, kind, bi, e in zip(v_src, v_kind, v_base, ve):
        ctx.seen((kind, s))
        ctx.count("variant:" + kind)
        if e.startswith("BUDGET"):
            continue
        if progcheck.visible(e) != progcheck.visible(ev[bi]):
            ctx.violate("the %s variant of a program behaves differently" % kind, source=s, original=base[bi], observed=progcheck.visible(e)[:300], expected=progcheck.visible(ev[bi])[:300])
    log("variants: %s" % {k: v for k, v in ctx.stats.items() if k.startswith("variant:")})
    ctx.sample(dict(source=base[0], eval=ev[0][:100]))
    if v_src:
        ctx.sample(dict(variant=v_kind[0], source=v_src[0][:300], eval=ve[0][:100]))


def replay(ctx, data, log):
    progcheck.replay_source(ctx, data, log, budget=40000)


def search(ctx, log):
    progcheck.search_programs(ctx, log, n=4000 if ctx.quick else 40000)
