"""C03 - a value that is still reachable is never reclaimed."""
import vlib, runcorr, gccheck, progcheck

COQ_TARGETS = ["props/C03.vo", "corr/CorrGC.vo", "corr/CorrSem.vo"]
RULE = ("(a) collector driven directly (allocate float/string/array, link x into array y - sharing and cycles -, collect "
        "with a chosen root set, hand over, drop) through the re-exported GC: every sequence compared operation by "
        "operation with GC.v inside Coq (managed order, allocated set) and judged by a reachability specification "
        "(nothing reachable from the roots or unmanaged is ever released; shadow heap: no double free, no use after "
        "free); (b) allocating programs (directed corpus with nested/aliased/cyclic arrays, strings and floats alive "
        "across calls + generated programs) run with the shadow heap on: any liveness probe is a violation, the "
        "whole run is compared with VM.v (result graph, output, steps, ledger) and with Sem.v (a reclaimed-but-used "
        "value would change the result). non-trivial = distinct sequence / program that performs a collection")
ASSUMPTIONS = ["address reuse by the system allocator is invisible to the model; the shadow heap quarantines released boxes instead",
               "VM-level root completeness is proved for the model (VMInv, vm_inv_step, vm_inv_run_loop: every value reachable from stack, globals, constants, frames and the pending result is live after every step); for the implementation it rests on the correspondence and the shadow heap for the explored programs"]
NOTES = ["proved: run_no_fault, run_preserves_reachable, run_leaves_unmanaged, run_keeps_invariant, mark_fuel_suffices (collector, all heaps / root sets / cyclic graphs)"]


def run(ctx, log):
    # the same small programs at every size around the widths the implementation encodes things in (closed-form results)
    progcheck.run_scale(ctx, log, ['rtnest', 'objects', 'cyclic', 'alias', 'literal', 'temporaries', 'csc', 'collections'])
    progcheck.run_scale_wrapped(ctx, log, ['alias', 'cyclic', 'literal', 'objects', 'temporaries', 'rtnest', 'csc', 'constants', 'locals'])
    rng = ctx.rng
    seqs = [gccheck.gen_sequence(rng) for _ in range(2000 if ctx.quick else 50000)]
    if not ctx.quick:
        for pre in (["A", "A", "F", "S"], ["A", "A", "A", "A"]):
            prefix = [(k, []) for k in pre]
            seqs += list(gccheck.enum_sequences(prefix, 2, 4))
        ctx.notes.append("thorough: all sequences of 2 non-allocating operations over two 4-object universes enumerated completely")
    else:
        prefix = [(k, []) for k in ["A", "A", "F"]]
        seqs += list(gccheck.enum_sequences(prefix, 3, 3))
        seqs += list(gccheck.enum_sequences([(k, []) for k in ["A", "A", "A"]], 3, 3))
    gccheck.run_sequences(ctx, seqs, log, "C03")
    stress = progcheck.alloc_stress_family()
    wv = list(gccheck.ALLOC_CORPUS_WITH_VALUE) + [True] * len(stress)
    progs = list(gccheck.ALLOC_CORPUS) + stress + gccheck.gen_alloc_programs(rng, 300 if ctx.quick else 6000, with_value_out=wv)
    obs = runcorr.run_corr(ctx, progs, log, budget=50000, stages=("eval",), label="alloc-programs")
    ev = obs["eval"]
    ncoll = 0
    for s, o in zip(progs, ev):
        runs, _ = gccheck.gc_of(o)
        ctx.seen(s, nontrivial=runs > 0)
        ncoll += runs
        gccheck.judge_run(ctx, s, o, "C03")
    ctx.count("collections-observed", ncoll)
    for i, impl, spec in runcorr.run_sem(ctx, progs, ev, log, with_value=wv):
        ctx.violate("the program's result differs from what its source denotes (a reclaimed or recycled value would do this)",
                    source=progs[i], observed=impl, specification=spec)
    ctx.sample(dict(source=progs[1], impl=ev[1][:200]))


def replay(ctx, data, log):
    if data.get("ops"):
        o = vlib.nlh("gc", [data["ops"]], tag="c03r")[0]
        log("ops: %s\nimplementation now: %s\nrecorded: %s" % (data["ops"], o, data.get("observed")))
    elif data.get("source"):
        o = vlib.nlh("eval", ["50000 " + vlib.hexs(data["source"])], tag="c03r")[0]
        log("source: %s\nimplementation now: %s\nrecorded: %s" % (data["source"], o, data.get("observed")))


def search(ctx, log):
    progcheck.search_programs(ctx, log, n=4000 if ctx.quick else 40000)
