"""C16 - evaluation is a pure function of the program text."""
import re
import os, subprocess
import vlib, runcorr, progcheck

COQ_TARGETS = ["props/C16.vo", "corr/CorrRun.vo"]
NEEDS_DEBUG = True
RULE = ("a batch of generated programs (plus a directed corpus that prints, allocates, errs and overflows) evaluated (a) "
        "once each in a FRESH process, (b) in three random orders and repeatedly inside ONE process, (c) concurrently from "
        "16 threads taking programs from a seeded random permutation (three seeds), (d) by harness binaries built in the "
        "release AND the debug profile (overflow checks, debug assertions): value graph, printed output, error kind and "
        "executed-instruction count must agree item by item across all four, and with Pipeline.v's single answer inside "
        "Coq for a sample; (d') the stack-limit alignment family of C12 answered identically by the release and the debug build. non-trivial = distinct program that runs at least one instruction")
ASSUMPTIONS = ["thread scheduling, the system allocator and stdout are shared in reality and are not modelled: contexts (b), (c) are exploration, not proof",
               "the hand-written `unsafe impl Send/Sync for Object` is a trusted item of the regenerated inventory"]
NOTES = ["proved: eval_fresh_pipeline, no_global_state (regenerated inventory), interleaving_independent (any schedule)"]

DIRECTED = [
    "print(\"a\"); print(\"{}\", 1.5); [1, \"x\"]", "1152921504606846975 + 1", "1152921504606846975 * 1152921504606846975", "(0 - 1152921504606846975 - 1) / (0 - 1)",
    "int(\"4611686018427387904\")", "functie f(n) { als n == 0 { antwoord [] } [f(n - 1), \"s\", 0.5] } f(6)", "als ja { stel a = 1 }",
    "stel i = 0; zolang i < 1000 { {} i += 1 } i", "functie f(a) { a } stel i = 0; zolang i < 300 { f([i]); i += 1 } i", "stel s = \"abc\"; s[0] = s; s",
    "stel a = [3, 1, 2]; stel i = 0; zolang i < 3 { stel j = 0; zolang j < 2 { als a[j] > a[j + 1] { stel t = a[j]; a[j] = a[j + 1]; a[j + 1] = t } j += 1 } i += 1 } a",
    "1 / 0", "[1][2]", "x", "1 +", "lengte(1, 2)",
    # rendering and parsing depth: the same in every context and build profile (these stay below the native-stack finding D27)
    "stel a = []; stel i = 0; zolang i < 70 { a = [a]; i += 1 } print(\"{}\", a); [1, [2, [3]]]", "print(\"{}\", [1, [2, [3, [4]]]]); [[[[5]]]]",
    "(" * 100 + "1" + ")" * 100, "(" * 300 + "1" + ")" * 300, "[" * 120 + "1" + "]" * 120, "lengte(" * 60 + "\"x\"" + ")" * 60,
    "stel k = 63; " + " anders ".join("als k == %d { print(\"tak {}\", %d) }" % (j, j) for j in range(64)) + " anders { print(\"geen\") }",
    "stel t = 0; " + "".join("als ja { " for _ in range(40)) + "t = 1" + " }" * 40 + " t",
    # range ends of every arithmetic path (a build profile must not decide between a value, a wrap and a trap)
    "-(0 - 1152921504606846975 - 1)", "functie f(x) { -x } f(0 - 1152921504606846975 - 1)", "(0 - 1152921504606846975 - 1) - 1", "functie f(x) { x - 1 } f(0 - 1152921504606846975 - 1)",
    "functie f(x) { x + 1 } f(1152921504606846975)", "functie f(x) { 1 + x } f(1152921504606846975)", "functie f(x) { x * 2 } f(1152921504606846975)", "(0 - 1152921504606846975 - 1) % (0 - 1)",
    "int(1152921504606846976.0)", "int(0 - 1152921504606846977.0)", "1152921504606846975 + 1 - 1",
    # a name read before its first assignment is null whatever ran before in this process or on this thread
    "stel a = 1; stel b = b; b", "stel p = 10; stel q = 32; stel r = r; [p, q, r]", "stel f = functie() { g }; stel g = g; g", "stel x = x; stel y = y; stel z = z; [x, y, z]",
    "stel s = \"tekst\"; stel t = [s, 2.5]; stel u = u; u",
    # ... also inside a fresh activation: parameters that got no argument and locals read in their own initialiser, at
    # every slot depth, next to programs that leave the operand stack full of other things
    # values of the same size in memory but different content, in separate evaluations (nothing keyed by an address survives)
    "lengte(\"héé\")", "lengte(\"hallo\")", "stel s = \"héé\"; [lengte(s), s[2], s[-1]]", "stel s = \"hallo\"; [lengte(s), s[4], s[-1]]", "stel s = \"語\"; [lengte(s), s[0]]", "stel s = \"abc\"; [lengte(s), s[2]]",
    "stel s = \"🇳🇱\"; [lengte(s), s[1]]", "stel s = \"abcdefgh\"; [lengte(s), s[7]]", "stel i = 0; stel t = 0; zolang i < 40 { i += 1; stel s = \"héé\"; t += lengte(s) } t", "stel i = 0; stel t = 0; zolang i < 40 { i += 1; stel s = \"hallo\"; t += lengte(s) } t",
    "stel a = [1, 2, 3]; lengte(a)", "stel a = [1.5, 2.5, 3.5]; lengte(a) + 1", "stel s = \"é\"; s[0] = \"ab\"; [s, lengte(s)]", "stel s = \"ab\"; s[0] = \"é\"; [s, lengte(s)]",
    "stel a = 0.0 / 0.0; stel b = 0.0 / 0.0; [a < b, b < a, a <= b, a >= b, a > b]", "stel l = [0.0 / 0.0, 0.0 / 0.0, 0.0 / 0.0]; [l[0] < l[1], l[1] < l[2], l[2] < l[0], l[0] >= l[2]]",
    "functie m(x, y) { als x < y { x } anders { y } } [m(0.0 / 0.0, 1.0), m(1.0, 0.0 / 0.0), m(0.0 / 0.0, 0.0 / 0.0)]",
    "functie kwadraat(n) { n * n }; [kwadraat(2), 1.5, \"klaar\"]; stel laatste = kwadraat(4)", "functie f() { 2 }; 1.5 + 0.0; stel u = f(); stel v = f()", "functie leeg() { }; \"de waarde\"; stel a = leeg(); stel b = leeg()",
    "functie g(n) { [n] }; [0.5 + 0.25, [\"x\"]]; stel p = g(1); stel q = g(2)",
    "functie f(n) { als n < 1 { antwoord 0 } 1 + f(n - 1) } [0, f(32767)]", "functie f(n) { als n < 1 { antwoord 0 } 1 + f(n - 1) } [0, 1, f(32766)]", "functie f(n) { als n < 1 { antwoord 0 } f(n - 1) } f(65533)",
    "functie f(n, a) { als n < 1 { antwoord a } f(n - 1, a + 1) } f(21844, 0)", "functie f(n, a) { als n < 1 { antwoord a } 1 + f(n - 1, a) } [f(16383, 0), f(16384, 0)]",
    "stel a = float(\"1e-310\"); [a + a, a * 2.0, a == 0.0]", "stel x = 1.5; x + ja", "stel d = 0.0000000000000000000000000000000000000000000000000001; stel e = d * d * d * d * d * d; [e, e + e, e > 0.0]", "2.5 + \"a\"", "stel f = float(\"5e-324\"); [f, f / 2.0, f * 3.0]",
    # floats made WITHOUT any float literal in the text (conversions only), at the edges where a mode of the processor
    # left behind by an earlier evaluation on this thread would show: denormal operands and results, results that
    # depend on the rounding direction, next to float programs (with literals) that end in an error
    "stel a = float(\"1e-310\"); [a + a, a * float(2), a == float(0), a > float(0)]", "stel f = float(\"5e-324\"); [f, f + f, f * float(3), f / float(2)]",
    "float(\"3e-308\") / float(4)", "stel m = float(\"2.2250738585072014e-308\"); [m / float(2), m - m / float(2), m * float(\"0.5\")]", "stel d = float(\"1e-200\"); [d * d, d * d * float(\"1e80\"), d * d == float(0)]",
    "[float(1) / float(3), float(2) / float(3), float(\"0.1\") + float(\"0.2\"), float(10) / float(7)]", "stel t = float(1); stel i = 0; zolang i < 60 { t = t / float(3) + float(1); i += 1 } t",
    "stel h = float(\"1e-320\"); stel i = 0; stel s = float(0); zolang i < 50 { s = s + h; i += 1 } [s, s == float(0)]", "int(float(\"4e-310\") * float(\"1e310\"))",
    "stel y = 0.5; y[0]", "stel z = [0.25]; z[3]", "stel w = 1.0e-5; w()", "stel q = 2.5; zolang q { q = 1.5 }", "stel r = 1.5; -\"a\"", "functie g(n) { g(n + 1) + 0.5 } g(0)",
    "functie f(a, b, c, d, e) { [a, b, c, d, e] } f()", "functie f(a, b, c) { stel x = x; stel y = y; [a, b, c, x, y] } f(1)",
    "functie g(n) { als n > 0 { antwoord g(n - 1) } stel diep = diep; [n, diep] } g(30)", "[11, 22, 33, 44, 55, 66, 77, 88, 99, 110, 121, 132]",
    "functie vul(a, b, c, d, e, f) { [a, b, c, d, e, f] } vul(\"a\", [1], 2.5, 4, ja, 6)", "functie h() { stel p = p; stel q = [q]; als ja { stel r = r; [p, q, r] } } h()",
    "functie k(a, b) { als a { b } anders { type(b) } } [k(ja), k(nee)]", "functie som(a, b, c, d) { stel t = 0; als type(a) == \"int\" { t += a } als type(d) == \"int\" { t += d } t } [som(1), som(1, 2, 3, 4), som()]",
    "functie m(a, b, c, d, e, f, g, h) { stel l1 = l1; stel l2 = l2; stel l3 = l3; [h, l1, l2, l3] } functie vol() { [1.5, \"x\", [2], 3, 4, 5, 6, 7, 8, 9] } vol(); m(1)",
]


def key(o):
    p = o.split(" | ")
    return " | ".join(p[:3]) if len(p) >= 3 else o


def run(ctx, log):
    rng = ctx.rng
    srcs, _ = progcheck.gen_sources(ctx, 300 if ctx.quick else 3000, max_depth=3)
    # thousands of distinct names over the life of the process (every evaluation brings its own)
    many = ["; ".join("stel n%d_%d = %d" % (k, j, j) for j in range(60)) + "; " + " + ".join("n%d_%d" % (k, j) for j in range(60)) for k in range(90 if ctx.quick else 400)]
    progs = DIRECTED + srcs + many
    lines = ["20000 " + vlib.hexs(s) for s in progs]
    base = vlib.nlh("eval", lines, tag="c16b")
    for s, o in zip(progs, base):
        ctx.seen(s, nontrivial="STEPS 0" not in o)
        if o.startswith("PANIC") or o.startswith("CRASH"):
            ctx.violate("an evaluation read released memory or crashed: what it answers depends on the state of the allocator, not on its text", source=s, observed=o[:300])

    def compare(label, got, order=None):
        n = 0
        for j, o in enumerate(got):
            i = order[j] if order else j
            ctx.evaluations += 1
            if key(o) != key(base[i]):
                n += 1
                ctx.violate("the same text evaluated differently %s" % label, source=progs[i], observed=key(o)[:300], expected=key(base[i])[:300], context=label)
        ctx.count("context:" + label, len(got))
        return n

    # (a) one fresh process per program
    fresh_idx = list(range(len(progs))) if not ctx.quick else list(range(len(DIRECTED))) + rng.sample(range(len(DIRECTED), len(progs)), 100)
    fresh = []
    for i in fresh_idx:
        fresh.append(vlib.nlh("eval", [lines[i]], tag="c16f")[0])
    compare("in a fresh process", fresh, fresh_idx)
    # (b) random orders, repeated, one process
    for r in range(3):
        order = list(range(len(progs))) * 2
        rng.shuffle(order)
        got = vlib.nlh("eval", [lines[i] for i in order], tag="c16o")
        compare("after other evaluations in the same process (order %d)" % r, got, order)
    # (c) 16 threads
    os.makedirs(os.path.join(vlib.WORK, "cases"), exist_ok=True)
    for seed in (1, 2, 3) if ctx.quick else range(1, 11):
        path = os.path.join(vlib.WORK, "cases", "c16_threads_%d.txt" % os.getpid())
        with open(path, "w") as f:
            f.write("%d\n" % (seed * 7919 + ctx.seed) + "\n".join(lines) + "\n")
        p = subprocess.run([vlib.NLH, "threads", path], stdout=subprocess.PIPE, stderr=subprocess.PIPE, text=True, timeout=600)
        os.unlink(path)
        got = p.stdout.split("\n")[:len(progs)]
        if p.returncode != 0 or len(got) < len(progs):
            ctx.violate("concurrent evaluation from 16 threads crashed (exit %d)" % p.returncode, source="(whole batch, seed %d)" % seed, observed=p.stderr[-300:])
            continue
        compare("concurrently from 16 threads (seed %d)" % seed, got)
    # a text that takes seconds gives the same answer however fast the build is (nothing depends on elapsed time)
    slow = ["stel i = 0; stel t = 0; zolang i < %d { i += 1; t = t + i %% 7 } t" % n for n in ((3000000,) if ctx.quick else (3000000, 20000000))]
    s_rel = vlib.nlh("eval", ["2000000000 " + vlib.hexs(x) for x in slow], tag="c16s", timeout=1200)
    s_dbg = vlib.nlh("eval", ["2000000000 " + vlib.hexs(x) for x in slow], tag="c16sd", profile="debug", timeout=2400)
    for x, a_, b_ in zip(slow, s_rel, s_dbg):
        ctx.seen(("slow", x))
        ctx.count("context:slow-text-both-builds")
        n_ = int(re.search(r"i < (\d+)", x).group(1))
        want = "OK i%d" % sum(i % 7 for i in range(1, n_ + 1))
        if progcheck.head(a_) != want or progcheck.head(b_) != want:
            ctx.violate("a long-running text does not give its value in both builds", source=x, observed="release %s / debug %s" % (progcheck.head(a_)[:60], progcheck.head(b_)[:60]), expected=want)
    # (d) debug build
    dbg = vlib.nlh("eval", lines, tag="c16d", profile="debug", timeout=900)
    compare("by the debug build", dbg)
    # (d') every alignment of the operand stack against its 16-bit limit (the family C12 scans for values): here only
    # the question of C16 is asked - do the two build profiles give the same answer, whatever it is
    fam = [s for s, _ in progcheck.deep_recursion_family()]
    fam += ["functie f(n) { als n < 1 { antwoord 0 } 1 + f(n - 1) } [%sf(%d)]" % ("0, " * k, d) for k in range(0, 4) for d in range(32760, 32772)]
    frel = vlib.nlh("eval", ["6000000 " + vlib.hexs(s) for s in fam], tag="c16l", timeout=600)
    fdbg = vlib.nlh("eval", ["6000000 " + vlib.hexs(s) for s in fam], tag="c16ld", profile="debug", timeout=1200)
    for s, a_, b_ in zip(fam, frel, fdbg):
        ctx.seen(("limit", s))
        ctx.count("context:stack-limit-alignment-both-builds")
        ctx.evaluations += 2
        if key(a_) != key(b_) or a_.startswith("PANIC") or a_.startswith("CRASH"):
            ctx.violate("a recursion at the limit of the 16-bit stack index is answered differently by the release and the debug build", source=s, observed="debug: " + key(b_)[:200], expected="release: " + key(a_)[:200], context="by the debug build")
    # (e) the command-line program built without the observation hooks, one process per program
    progcheck.run_production(ctx, log, [progs[i] for i in sorted(rng.sample(range(len(progs)), min(len(progs), 120 if ctx.quick else 1200)))], budget=20000)
    # the model's single answer
    pick = sorted(rng.sample(range(len(progs)), min(len(progs), 250 if ctx.quick else 2500)))
    runcorr.run_corr(ctx, [progs[i] for i in pick], log, budget=20000, stages=("eval",), label="model")
    log("contexts: %s" % {k: v for k, v in ctx.stats.items() if k.startswith("context:")})
    ctx.sample(dict(source=progs[0], release=key(base[0]), debug=key(dbg[0])))


def replay(ctx, data, log):
    progcheck.replay_source(ctx, data, log)
