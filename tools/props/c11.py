"""C11 - structured control flow goes exactly where the source says."""
import itertools
import vlib, runcorr, progcheck

COQ_TARGETS = ["props/C11.vo", "corr/CorrSem.vo"]
RULE = ("a template set enumerated completely: nestings of als / anders als / anders, zolang, bare blocks and functions up to "
        "depth 3 (thorough: 4) with each of stop / volgende / antwoord / a plain statement at every statement position, "
        "each construct used as a statement and as a value, every branch taken through a counter-driven condition; loops "
        "run 0, 1, 2, 3 times, and (directed) 70 000 and 100 000 times with code after the loop (no residue); random "
        "programs beyond. Compiler and VM stages compared with Compiler.v/VM.v, results (value, output trace of which "
        "branch ran, error kind) with Sem.v. non-trivial = distinct program")
ASSUMPTIONS = ["control flow is proved at source level by compile_correct_F2 / F3 / F2h (every if-chain, loop, stop, volgende, antwoord goes where Sem.v says); programs combining functions with heap values are decided per program against Sem.v"]
NOTES = ["proved for every compiler state: break_innermost, continue_innermost, function_resets_loops, function_body_break, while_patches_breaks, return_outside_function; machine: return_restores"]

LEAVES = ["stop", "volgende", "antwoord t", "t = t + 1", "print(\"L\")"]


def bodies(depth, in_loop, in_fn):
    """statement lists exercising every early exit at every position of a nested structure"""
    leaves = [l for l in LEAVES if (in_loop or l not in ("stop", "volgende")) and (in_fn or not l.startswith("antwoord"))]
    out = [[l] for l in leaves]
    if depth > 0:
        for inner in bodies(depth - 1, in_loop, in_fn)[:6]:
            out.append(["als t %% 2 == 0 { %s } anders { print(\"E\") }" % "; ".join(inner)])
            out.append(["als t > 90 { print(\"A\") } anders als t %% 3 == 1 { %s } anders { print(\"C\") }" % "; ".join(inner)])
            out.append(["{ %s }" % "; ".join(inner), "print(\"na blok\")"])
        for inner in bodies(depth - 1, True, in_fn)[:6]:
            out.append(["stel j = 0; zolang j < 2 { j += 1; t = t + 10; %s; print(\"in {}\", j) }" % "; ".join(inner), "print(\"na lus {}\", j)"])
    return out


def programs(depth):
    out = []
    for n in (0, 1, 2, 3):
        for b in bodies(depth, True, False):
            out.append("stel t = 0; stel i = 0; zolang i < %d { i += 1; t = t + 1; %s; print(\"einde {}\", i) } print(\"klaar {} {}\", i, t); t" % (n, "; ".join(b)))
    for b in bodies(depth, False, True):
        out.append("stel t = 1; functie f(t) { %s; print(\"f einde\"); t + 100 } stel r = f(t); print(\"terug {}\", r); [r, t]" % "; ".join(b))
        out.append("stel t = 2; functie f(t) { stel k = 0; zolang k < 3 { k += 1; %s } k } f(t)" % "; ".join(b))
    # constructs as values
    for c, a, b2 in itertools.product(["ja", "nee", "t > 0"], ["1", "stel q = 1", "", "{ 2 }", "zolang nee { 3 }", "1; {}", "1; { }; {}", "{ 1; {} }", "1; stel q = 2", "1; { stel q = 2 }"], ["5", "", "stel z = 0", "7; {}"]):
        out.append("stel t = 1; stel v = als %s { %s } anders { %s }; [v, t]" % (c, a, b2))
        out.append("stel t = 1; stel v = als %s { %s }; v" % (c, a))
    # what the value of a function is when its body ends in each kind of statement, and of an if whose branches return
    for tail in ["3", "3; {}", "{ 3 }", "{ 3; {} }", "stel q = 3", "3; stel q = 4", "als ja { 3 }", "als ja { 3; {} }", "zolang nee { }", "3; zolang nee { }", "{}", ""]:
        out.append("functie g() { %s } [g()]" % tail)
    for cnd in ("ja", "nee"):
        for th, el in itertools.product(["10", "antwoord 10", "10; {}", "print(\"t\")"], ["20", "antwoord 20", "", "print(\"e\"); antwoord 21"]):
            out.append("functie kies(c) { als c { %s } anders { %s } } print(\"{}\", kies(%s)); kies(%s)" % (th, el, cnd, cnd))
            out.append("functie kies(c) { als c { %s } anders { %s }; 99 } [kies(%s)]" % (th, el, cnd))
    for n in (0, 1, 3):
        out.append("stel i = 0; stel v = zolang i < %d { i += 1; i * 7 }; [v, i]" % n)
        out.append("stel i = 0; stel v = zolang i < %d { i += 1; als i == 2 { stop } i }; [v, i]" % n)
        out.append("stel i = 0; stel v = zolang i < %d { i += 1; als i == %d { volgende } i }; [v, i]" % (n, n))
        out.append("stel i = 0; stel v = zolang i < %d { i += 1; stel w = i }; [v, i]" % n)
    return out


LONG = [
    "stel i = 0; zolang i < 70000 { i += 1 } functie f(a) { a } f(5) + i",
    "stel i = 0; zolang i < 70000 { {} i += 1 } functie f(a) { a } f(5)",
    "stel i = 0; stel t = 0; zolang i < 100000 { i += 1; als i % 2 == 0 { volgende } t += 1 } functie f(a, b) { a - b } f(t, i)",
    "stel i = 0; zolang i < 70000 { i += 1; als ja { stel a = i } anders { } } i",
    "stel i = 0; zolang ja { i += 1; als i >= 66000 { stop } } functie g() { 1 } g() + i",
    "functie f() { stel i = 0; zolang i < 70000 { i += 1; { stel x = i } } i } f()",
    "stel i = 0; stel t = 0.0; zolang i < 70000 { i += 1; t = t + 0.5 } functie tel(n) { stel k = 0; stel u = 0.0; zolang k < n { k += 1; u = u + 1.0 } u }; [t, tel(1), 1.5 + 2.25, \"na de lus\", tel(70000), tel(2), 2.5 * 4.0]",
    "stel i = 0; stel s = \"\"; zolang i < 140000 { i += 1; als i % 2 == 0 { volgende } s = \"oneven\" }; [s, \"tekst\", 0.25 + 0.5, i]",
]


def run(ctx, log):
    eo_ = progcheck.evaluation_order_family()
    progcheck.pipeline(ctx, eo_, log, budget=20000, label="evaluation-order", shard_size=60)
    for s_ in eo_:
        ctx.seen(("evaluation-order", s_))
    # enumerated families decided by Sem.v: how function / loop bodies end; names that live in several name spaces
    extra_sem_families = []
    extra_sem_families += progcheck.function_endings_family(ctx.quick)
    progcheck.pipeline(ctx, extra_sem_families, log, budget=20000, label="endings-and-names", shard_size=120)
    for s_ in extra_sem_families:
        ctx.seen(("family", s_))
    # stray `stop` / `volgende` under every nesting of loops, functions, blocks and branches
    sj = progcheck.stray_jump_family(ctx.quick, ctx.rng)
    sjo = progcheck.pipeline(ctx, sj, log, budget=20000, label="stray-jumps", shard_size=120)
    for s_, o_ in zip(sj, sjo["eval"]):
        ctx.seen(("stray-jump", s_))
        ctx.count("stray-jump:" + progcheck.head(o_).split()[0] + (progcheck.head(o_)[3:] if o_.startswith("ERR") else ""))
    # the same small programs at every size around the widths the implementation encodes things in (closed-form results)
    progcheck.run_scale(ctx, log, ['statements', 'nesting'])
    progcheck.run_code_boundary(ctx, log)
    rng = ctx.rng
    progs = programs(2 if ctx.quick else 3)
    ctx.exhaustive = True
    srcs, _ = progcheck.gen_sources(ctx, 300 if ctx.quick else 6000, max_depth=4)
    allp = progs + srcs
    log("%d template programs, %d random" % (len(progs), len(srcs)))
    obs = progcheck.pipeline(ctx, allp, log, budget=40000, label="control-flow", shard_size=200)
    for s, o in zip(allp, obs["eval"]):
        ctx.seen(s)
        ctx.count("outcome:" + progcheck.head(o).split()[0])
    # loops past 65 536 iterations: later code behaves the same (the implementation alone: too long for the Coq side)
    expect = ["OK i70005", "OK i5", "OK i-50000", "OK i70000", "OK i66001", "OK i70000", None, None]
    want_graph = {6: [35000.0, 1.0, 3.75, "na de lus", 70000.0, 2.0, 10.0], 7: ["oneven", "tekst", 0.75, 140000]}
    long_obs = vlib.nlh("eval", ["5000000 " + vlib.hexs(s) for s in LONG], tag="c11l", timeout=300)
    long_dbg = vlib.nlh("eval", ["5000000 " + vlib.hexs(s) for s in LONG], tag="c11ld", profile="debug", timeout=900)
    for s, e, o, d in zip(LONG, expect, long_obs, long_dbg):
        ctx.seen(s)
        for label, got in (("release", o), ("debug", d)):
            if e is None:
                ok_, want_ = progcheck.scale_ok(got, want_graph[LONG.index(s)])
                if not ok_:
                    ctx.violate("after a loop run many times literals / later code behave differently (%s build)" % label, source=s, observed=got[:200], expected=want_)
                continue
            if progcheck.head(got) != e:
                ctx.violate("a loop run many times left a residue / later code behaved differently (%s build)" % label, source=s, observed=got[:200], expected=e)
    # where code lands must not matter: every template at every code offset of a range that covers the one- and
    # two-byte operand boundaries and the jump placeholder (metamorphic on the implementation; a sample in Coq)
    offs = list(range(0, 620)) + list(range(1200, 1500)) + ([] if ctx.quick else list(range(620, 1200)) + list(range(1500, 5200)))
    sweep = progcheck.layout_sweep(offs)
    base_obs = vlib.nlh("eval", ["200000 " + vlib.hexs(src) for src, _ in progcheck.LAYOUT_TEMPLATES], tag="c11lb")
    so = vlib.nlh("eval", ["200000 " + vlib.hexs(src) for _, _, src in sweep], tag="c11ls", timeout=600)
    for (t, k, src), o in zip(sweep, so):
        ctx.seen(("layout", t, k))
        ctx.count("layout-sweep")
        if progcheck.visible(o) != progcheck.visible(base_obs[t]):
            ctx.violate("the same construct behaves differently when it is compiled at code offset %d" % k, source=src if len(src) < 1500 else "(%d bytes of `ja;` padding) " % k + progcheck.LAYOUT_TEMPLATES[t][0],
                        observed=progcheck.visible(o)[:300], expected=progcheck.visible(base_obs[t])[:300], offset=k)
    pick = rng.sample(range(len(sweep)), 60 if ctx.quick else 400)
    runcorr.run_corr(ctx, [sweep[i][2] for i in pick], log, budget=200000, stages=("compile", "eval"), label="layout-sweep-model", shard_size=8)
    for src, exp in progcheck.big_program_family():
        o = vlib.nlh("eval", ["3000000 " + vlib.hexs(src)], tag="c11big", timeout=300)[0]
        ctx.seen(("big", len(src)))
        ctx.count("big-programs")
        if progcheck.head(o) not in (exp, "ERR Syntax"):
            ctx.violate("a program whose code crosses 64 KiB neither ran correctly nor was rejected as too large", source="(array literal program of %d characters)" % len(src), observed=o[:200], expected=exp + " or ERR Syntax")
    ctx.sample(dict(source=progs[5][:300], eval=obs["eval"][5][:200]))
    ctx.sample(dict(source=LONG[1], eval=long_obs[1][:100]))


def replay(ctx, data, log):
    progcheck.replay_source(ctx, data, log, budget=5000000)


def search(ctx, log):
    progcheck.search_programs(ctx, log, n=4000 if ctx.quick else 40000)
