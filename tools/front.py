"""Correspondence of the front-end stages (lexer, parser): shared by C05, C07, C08."""
import re
import vlib


def oracle_tables(sources, tag="orc"):
    """unicode table for every non-ASCII code point and parse table for every float literal"""
    cpset = sorted({ord(c) for s in sources for c in s if ord(c) >= 128})
    flags = vlib.nlh("unicode", [str(c) for c in cpset], tag=tag + "u") if cpset else []
    utab = []
    for c, fl in zip(cpset, flags):
        a, n = fl.split()
        utab.append("(%d%%N, %s, %s)" % (c, "true" if a == "1" else "false", "true" if n == "1" else "false"))
    lits = vlib.nlh("floatlits", [vlib.hexs(s) for s in sources], tag=tag + "f")
    ptab = {}
    for l in lits:
        for ent in l.split():
            if ":" not in ent:
                continue
            t, b = ent.rsplit(":", 1)
            ptab[t] = b
    pt = []
    for t, b in sorted(ptab.items()):
        txt = "[]" if t == "-" else "[" + ";".join(x + "%N" for x in t.split(".")) + "]"
        pt.append("(%s, %s)" % (txt, "None" if b == "none" else "Some " + vlib.coq_float(b)))
    return utab, pt


def tables_header(utab, pt, extra=""):
    return ("From Coq Require Import Floats Uint63.\nFrom NL.Corr Require Import CorrFront.\n" + extra +
            "Open Scope Z_scope.\n"
            "Definition utab : list (N * bool * bool) := [%s].\n"
            "Definition ptab : list (text * option float) := [%s].\n" % ("; ".join(utab), "; ".join(pt)))


def decode_text_output(out):
    """`= [79%N; 75%N] : text` -> 'OK'"""
    m = re.search(r"=\s*(\[.*?\])\s*:\s*(text|list N|list cp)", out, re.S)
    if not m:
        return None
    return "".join(chr(int(x)) for x in re.findall(r"\d+", m.group(1).replace("%N", "")))


def front_corr(ctx, sources, stages, log, shard_size=250, label="front"):
    """Runs the sources through the implementation's lexer/parser and through the model; records
    disagreements in ctx.  Returns {stage: [impl observation per source]}."""
    utab, pt = oracle_tables(sources, tag=ctx.prop.lower())
    obs = {}
    items = []
    index = []
    for st in stages:
        cmd = "tokens" if st == "tok" else "parse"
        obs[st] = vlib.nlh(cmd, [vlib.hexs(s) for s in sources], tag=ctx.prop.lower() + st)
        for i, (s, o) in enumerate(zip(sources, obs[st])):
            ctor = "FTok" if st == "tok" else "FParse"
            items.append("%s %s %s" % (ctor, vlib.coq_text(s), vlib.coq_hash(o)))
            index.append((st, i))
    header = tables_header(utab, pt)
    footer = lambda: "Eval vm_compute in (mismatches (check utab ptab) cases)."
    shards, results, errors = vlib.run_coq_shards(ctx.prop, header, items, footer, shard_size=shard_size, tag=label)
    for e in errors:
        ctx.broken.append(dict(kind="corr-shard", what=e))
    bad_global = []
    off = 0
    for k, sh in enumerate(shards):
        if k in results:
            bad = vlib.parse_index_list(results[k])
            if bad is None:
                ctx.broken.append(dict(kind="corr-output", what=results[k][-300:]))
            else:
                bad_global += [off + j for j in bad]
        off += len(sh)
    # second pass: the model's own observation for the disagreeing cases
    for gi in bad_global[:8]:
        st, i = index[gi]
        fn = "model_tokens" if st == "tok" else "model_parse"
        hdr = header
        shards2, res2, err2 = vlib.run_coq_shards(ctx.prop, hdr, ["0%N"], lambda: "Eval vm_compute in (%s utab ptab %s)." % (fn, vlib.coq_text(sources[i])), tag=label + "m")
        model = decode_text_output(res2.get(0, "")) if res2 else None
        ctx.disagree("lexer" if st == "tok" else "parser", source=sources[i], impl=obs[st][i], model=model)
    for gi in bad_global[8:]:
        st, i = index[gi]
        ctx.disagree("lexer" if st == "tok" else "parser", source=sources[i], impl=obs[st][i], model="(not recomputed)")
    log("%s: %d sources x %s in Coq, %d disagreements" % (label, len(sources), "+".join(stages), len(bad_global)))
    return obs
