"""Shared by the program-level properties (C01, C02, C09-C13, C16): generate sources, run the
implementation, compare with the model (correspondence) and with Sem.v (specification oracle)."""
import vlib, runcorr, genwf, nlast


def gen_sources(ctx, n, with_value_out=None, **kw):
    """with_value_out: a list that receives, per program, whether its last statement is an expression statement
    (only then is the program's VALUE specified, DESIGN.md 4.3 item 1)"""
    out, asts = [], []
    for _ in range(n):
        p, st = genwf.gen_program(ctx.rng, **kw)
        wv = bool(st.pop("__ends_with_value", 1))
        if with_value_out is not None:
            with_value_out.append(wv)
        for k, v in st.items():
            ctx.count("gen:" + k, v)
        asts.append(p)
        out.append(nlast.to_source(p))
    return out, asts


def pipeline(ctx, sources, log, budget=20000, stages=("compile", "eval"), sem=True, label="programs", with_value=None, shard_size=150, what="the program's value, output or error differs from what its source denotes (Sem.v)"):
    """correspondence with Compiler.v/VM.v + specification oracle.  Returns the observations."""
    obs = runcorr.run_corr(ctx, sources, log, budget=budget, stages=stages, label=label, shard_size=shard_size)
    if sem:
        for i, impl, spec in runcorr.run_sem(ctx, sources, obs["eval"], log, label=label + "-sem", with_value=with_value):
            ctx.violate(what, source=sources[i], observed=impl, specification=spec)
    return obs


def head(o):
    return o.split(" | ")[0]


def out_of(o):
    p = o.split(" | ")
    return p[1] if len(p) > 1 else ""


def visible(o):
    """what a user observes of one evaluation: result (functions by kind only), output"""
    return runcorr.canon_sem(o)


def replay_source(ctx, data, log, budget=20000):
    src = data.get("source")
    if not src:
        log("nothing to replay: %s" % (data.get("what") or data.get("kind")))
        return
    o = vlib.nlh("eval", ["%d %s" % (budget, vlib.hexs(src))], tag=ctx.prop.lower() + "r")[0]
    log("source: %s\nimplementation now: %s\nrecorded: %s\nspecification: %s" % (src, o, data.get("observed", data.get("impl")), data.get("specification", data.get("model"))))
    exp = data.get("expected")
    if exp is not None and visible(o) != exp:
        ctx.violate("replayed: still differs from the expected observation", source=src, observed=visible(o), expected=exp)


def deep_recursion_family():
    """Recursions that drive the operand stack across its 16-bit limit at every alignment: p parameters, l own
    locals, m pending operands per level.  Each returns (source, value it has if it is allowed to finish): every
    level adds to an accumulator parameter (p >= 2) and to the pending additions, and the innermost activation checks
    its own parameters.  The machine may answer with the recursion-limit error instead - never with another value."""
    out = []
    for p in (1, 2, 3):
        for l in (0, 1, 2):
            for m in (0, 1, 2):
                per = p + l + m + 1
                for depth in (300, 66000 // per + 40, 66000 // max(1, per - 1) + 40, 33000, 70000):
                    params = ["n"] + (["acc"] if p >= 2 else []) + (["mark"] if p >= 3 else [])
                    args = ["n - 1"] + (["acc + 2"] if p >= 2 else []) + (["mark"] if p >= 3 else [])
                    locs = "".join("stel w%d = n; " % i for i in range(l))
                    base = "acc" if p >= 2 else "5"
                    if p >= 3:
                        base = "als mark == 77 { %s } anders { 0 - 1 }" % base
                    expr = "f(%s)" % ", ".join(args)
                    for _ in range(m):
                        expr = "1 + (%s)" % expr
                    first = [str(depth)] + (["0"] if p >= 2 else []) + (["77"] if p >= 3 else [])
                    src = "functie f(%s) { %sals n == 0 { antwoord %s } %s } f(%s)" % (", ".join(params), locs, base, expr, ", ".join(first))
                    out.append((src, m * depth + (2 * depth if p >= 2 else 5)))
    # the innermost activation calls a function that needs no slot at all, at every depth around the limit
    shapes = []
    for k in range(0, 4):
        leaf = "1 + (" * k + "z()" + ")" * k
        shapes.append((2, "functie f(n) { als n == 0 { antwoord %s } f(n - 1) }" % leaf, k, 0))
        shapes.append((3, "functie f(n) { als n == 0 { antwoord %s } 1 + (f(n - 1)) }" % leaf, k, 1))
    for per, shape, k, perlevel in shapes:
        for depth in list(range(65536 // per - 40, 65536 // per + 41)) + list(range(65536 // (per - 1) - 12, 65536 // (per - 1) + 13)):
            src = "functie z() { 3 } %s f(%d)" % (shape, depth)
            out.append((src, 3 + k + perlevel * depth))
    return out


LAYOUT_TEMPLATES = [
    # (program text, expected head) - every kind of jump the compiler patches, and function entry points
    ("stel i = 0; stel e = 0; stel o = 0; zolang i < 6 { i += 1; als i % 2 == 0 { e += 1 } anders { o += 1 } } [i, e, o]", None),
    ("stel i = 0; stel t = 0; zolang i < 9 { i += 1; als i == 3 { volgende } als i == 7 { stop } t += i } [i, t]", None),
    ("stel i = 0; stel t = 0; zolang i < 4 { i += 1; stel j = 0; zolang j < 3 { j += 1; als j == 2 { volgende } t += 1 } } t", None),
    ("functie f(n) { als n < 2 { antwoord n } f(n - 1) + f(n - 2) } f(9)", None),
    ("functie g(c) { als c == 0 { 10 } anders als c == 1 { antwoord 20 } anders { 30 } } [g(0), g(1), g(2)]", None),
    ("stel v = als nee { 1 } anders als ja { zolang nee { } } anders { 3 }; stel w = [v, 2]; lengte(w)", None),
    ("stel i = 0; zolang i < 3 { i += 1; functie h(x) { als x { antwoord 1 } 2 } h(i == 2) } i", None),
]


def pad(k):
    """k bytes of top-level code that does nothing: `ja;` is True Pop (2 bytes), `!ja;` is True Not Pop (3 bytes)"""
    if k <= 0:
        return ""
    if k == 1:
        return None
    if k % 2 == 0:
        return "ja; " * (k // 2)
    return "!ja; " + "ja; " * ((k - 3) // 2)


def layout_sweep(offsets):
    """every template shifted to every requested code offset: where code lands must not matter"""
    out = []
    for t, (src, _) in enumerate(LAYOUT_TEMPLATES):
        for k in offsets:
            p = pad(k)
            if p is not None:
                out.append((t, k, p + src))
    return out


def evaluation_order_family():
    """operands are evaluated left to right, arguments left to right then the callee, whatever the operator and
    whatever kind of variable stands on either side: the right operand's call changes what the left one named"""
    ops = ["+", "-", "*", "/", "%", "<", "<=", ">", ">=", "==", "!="]
    out = []
    for op in ops:
        out.append("stel g = 7; functie f() { g = g + 3; g } [g %s f(), g]" % op)
        out.append("stel g = 7; functie f() { g = g + 3; g } [f() %s g, g]" % op)
        out.append("stel g = 7; functie f() { g = g + 3; g } functie h(x) { x %s f() } [h(g), g]" % op)
        out.append("stel g = 7; functie f() { g = g + 3; 2 } stel a = [g, g %s f(), g]; a" % op)
    for op in ("&&", "||"):
        out.append("stel g = ja; functie f() { g = !g; g } [g %s f(), g]" % op)
        out.append("stel g = ja; functie f() { g = !g; g } [f() %s g, g]" % op)
    out += [
        "stel g = 1; functie f() { g = g * 10; g } functie k(a, b, c) { [a, b, c] } k(g, f(), g)",
        "stel g = 1; functie f() { g = g * 10; g } [g, f(), g, f(), g]",
        "stel g = 1; functie f() { g = g + 1; g } stel a = [0, 0, 0, 0]; a[g] = f(); [a, g]",
        "stel g = 1; functie f() { g = g + 1; g } stel a = [5, 6, 7, 8]; a[f()] + g",
        "stel fs = [functie(x) { x + 1 }, functie(x) { x * 100 }]; stel i = 0; functie nxt() { i = i + 1; i } stel f = fs[i]; f(nxt())",
        "functie p(x) { print(\"p {}\", x); x } print(\"{} {} {}\", p(1), p(2), p(3)); lengte([p(4), p(5)])", "stel n = 0; functie tel() { n = n + 1; n } print(\"{} {} {}\", tel(), tel(), tel()); n",
        "print(\"{} {}\", 1 / 0, [1][5])", "print(\"{} {}\", [1][5], 1 / 0)", "functie p(x) { print(\"p {}\", x); x } string(p(1)) == string(p(1))", "functie p(x) { print(\"p {}\", x); x } int(p(2)) + int(p(3)) * lengte([p(4)])",
        "functie p(x) { print(\"p {}\", x); x } p(1) + p(2) * p(3) - p(4)", "functie p(x) { print(\"p {}\", x); x } p(p(1) + p(2))",
    ]
    return out


def big_program_family():
    """programs whose code crosses 64 KiB (constants are 3 bytes each): either a syntax error ("te groot") or the
    exact result - never a wild jump.  (source, expected value head)"""
    out = []
    for n in (21830, 21840, 21845, 21846, 21850, 22000):
        lit = "[" + ", ".join("7" for _ in range(n)) + "]"
        out.append(("functie f(x) { x + 1 } stel a = %s; print(\"{}\", f(41)); lengte(a)" % lit, "OK i%d" % n))
        out.append(("functie f(x) { x + 1 } stel a = %s; stel r = f(41); stel i = 0; zolang i < 3 { i += 1 } r + i" % lit, "OK i45"))
    return out


def alloc_stress_family():
    """many allocations between two function returns, then fresh heap values held only by a half-built literal,
    an argument list or a pending operand"""
    out = []
    for n in (10, 250, 260, 300, 520, 600):
        out.append("stel i = 0; stel keep = []; zolang i < %d { i += 1; stel t = [i + 0.5] } stel l = [2.5 * 2.0, \"x\", [1.5]]; [l[0], l[1], l[2]]" % n)
        out.append("stel i = 0; zolang i < %d { i += 1; stel t = \"s\" } functie k(a, b) { [a, b] } k([0.25 + 0.5], [\"y\", 1.5 * 3.0])" % n)
        out.append("stel i = 0; stel acc = 0.0; zolang i < %d { i += 1; acc = acc + 0.5 } stel l = [[acc], [acc + 1.0]]; stel m = [l, [l[0]]]; m" % n)
    return out
