"""Shared by the program-level properties (C01, C02, C09-C13, C16): generate sources, run the
implementation, compare with the model (correspondence) and with Sem.v (specification oracle)."""
import os, re
import vlib, runcorr, genwf, nlast


def gen_sources(ctx, n, with_value_out=None, **kw):
    """with_value_out: a list that receives, per program, whether its last statement is an expression statement
    (only then is the program's VALUE specified, DESIGN.md 4.3 item 1)"""
    out, asts = [], []
    mix = "collide" not in kw
    for _ in range(n):
        if mix:
            # a third of the programs borrow the names of parameters, locals and (nested) functions from anywhere in
            # the program: which name space a name also lives in must not matter
            kw["collide"] = 0.4 if ctx.rng.random() < 0.35 else 0.0
        p, st = genwf.gen_program(ctx.rng, **kw)
        wv = bool(st.pop("__ends_with_value", 1))
        if with_value_out is not None:
            with_value_out.append(wv)
        for k, v in st.items():
            ctx.count("gen:" + k, v)
        asts.append(p)
        out.append(nlast.to_source(p))
    return out, asts


def pipeline(ctx, sources, log, budget=20000, stages=("compile", "eval"), sem=True, label="programs", with_value=None, shard_size=150, what="the program's value, output or error differs from what its source denotes (Sem.v)"):
    """correspondence with Compiler.v/VM.v + specification oracle.  Returns the observations."""
    obs = runcorr.run_corr(ctx, sources, log, budget=budget, stages=stages, label=label, shard_size=shard_size)
    for o in obs.get("eval", []):
        h = head(o)
        ctx.count("outcome[%s]:%s" % (label, h.split()[0] + (" " + h.split()[1] if h.startswith("ERR") and len(h.split()) > 1 else "")))
    if sem:
        for i, impl, spec in runcorr.run_sem(ctx, sources, obs["eval"], log, label=label + "-sem", with_value=with_value):
            ctx.violate(what, source=sources[i], observed=impl, specification=spec)
    return obs


def head(o):
    return o.split(" | ")[0]


def out_of(o):
    p = o.split(" | ")
    return p[1] if len(p) > 1 else ""


def visible(o):
    """what a user observes of one evaluation: result (functions by kind only), output"""
    return runcorr.canon_sem(o)


def replay_source(ctx, data, log, budget=20000):
    src = data.get("source")
    if not src:
        log("nothing to replay: %s" % (data.get("what") or data.get("kind")))
        return
    o = vlib.nlh("eval", ["%d %s" % (budget, vlib.hexs(src))], tag=ctx.prop.lower() + "r")[0]
    log("source: %s\nimplementation now: %s\nrecorded: %s\nspecification: %s" % (src, o, data.get("observed", data.get("impl")), data.get("specification", data.get("model"))))
    exp = data.get("expected")
    if exp is not None and visible(o) != exp:
        ctx.violate("replayed: still differs from the expected observation", source=src, observed=visible(o), expected=exp)


def deep_recursion_family():
    """Recursions that drive the operand stack across its 16-bit limit at every alignment: p parameters, l own
    locals, m pending operands per level.  Each returns (source, value it has if it is allowed to finish): every
    level adds to an accumulator parameter (p >= 2) and to the pending additions, and the innermost activation checks
    its own parameters.  The machine may answer with the recursion-limit error instead - never with another value."""
    out = []
    for p in (1, 2, 3):
        for l in (0, 1, 2):
            for m in (0, 1, 2):
                per = p + l + m + 1
                for depth in (300, 66000 // per + 40, 66000 // max(1, per - 1) + 40, 33000, 70000):
                    params = ["n"] + (["acc"] if p >= 2 else []) + (["mark"] if p >= 3 else [])
                    args = ["n - 1"] + (["acc + 2"] if p >= 2 else []) + (["mark"] if p >= 3 else [])
                    locs = "".join("stel w%d = n; " % i for i in range(l))
                    base = "acc" if p >= 2 else "5"
                    if p >= 3:
                        base = "als mark == 77 { %s } anders { 0 - 1 }" % base
                    expr = "f(%s)" % ", ".join(args)
                    for _ in range(m):
                        expr = "1 + (%s)" % expr
                    first = [str(depth)] + (["0"] if p >= 2 else []) + (["77"] if p >= 3 else [])
                    src = "functie f(%s) { %sals n == 0 { antwoord %s } %s } f(%s)" % (", ".join(params), locs, base, expr, ", ".join(first))
                    out.append((src, m * depth + (2 * depth if p >= 2 else 5)))
    # the innermost activation calls a function that needs no slot at all, at every depth around the limit
    shapes = []
    for k in range(0, 4):
        leaf = "1 + (" * k + "z()" + ")" * k
        shapes.append((2, "functie f(n) { als n == 0 { antwoord %s } f(n - 1) }" % leaf, k, 0))
        shapes.append((3, "functie f(n) { als n == 0 { antwoord %s } 1 + (f(n - 1)) }" % leaf, k, 1))
    for per, shape, k, perlevel in shapes:
        for depth in list(range(65536 // per - 40, 65536 // per + 41)) + list(range(65536 // (per - 1) - 12, 65536 // (per - 1) + 13)):
            src = "functie z() { 3 } %s f(%d)" % (shape, depth)
            out.append((src, 3 + k + perlevel * depth))
    return out


LAYOUT_TEMPLATES = [
    # (program text, expected head) - every kind of jump the compiler patches, and function entry points
    ("stel i = 0; stel e = 0; stel o = 0; zolang i < 6 { i += 1; als i % 2 == 0 { e += 1 } anders { o += 1 } } [i, e, o]", None),
    ("stel i = 0; stel t = 0; zolang i < 9 { i += 1; als i == 3 { volgende } als i == 7 { stop } t += i } [i, t]", None),
    ("stel i = 0; stel t = 0; zolang i < 4 { i += 1; stel j = 0; zolang j < 3 { j += 1; als j == 2 { volgende } t += 1 } } t", None),
    ("functie f(n) { als n < 2 { antwoord n } f(n - 1) + f(n - 2) } f(9)", None),
    ("functie g(c) { als c == 0 { 10 } anders als c == 1 { antwoord 20 } anders { 30 } } [g(0), g(1), g(2)]", None),
    ("stel v = als nee { 1 } anders als ja { zolang nee { } } anders { 3 }; stel w = [v, 2]; lengte(w)", None),
    ("stel i = 0; zolang i < 3 { i += 1; functie h(x) { als x { antwoord 1 } 2 } h(i == 2) } i", None),
]


def pad(k):
    """k bytes of top-level code that does nothing: `ja;` is True Pop (2 bytes), `!ja;` is True Not Pop (3 bytes)"""
    if k <= 0:
        return ""
    if k == 1:
        return None
    if k % 2 == 0:
        return "ja; " * (k // 2)
    return "!ja; " + "ja; " * ((k - 3) // 2)


def layout_sweep(offsets):
    """every template shifted to every requested code offset: where code lands must not matter"""
    out = []
    for t, (src, _) in enumerate(LAYOUT_TEMPLATES):
        for k in offsets:
            p = pad(k)
            if p is not None:
                out.append((t, k, p + src))
    return out


def evaluation_order_family():
    """operands are evaluated left to right, arguments left to right then the callee, whatever the operator and
    whatever kind of variable stands on either side: the right operand's call changes what the left one named"""
    ops = ["+", "-", "*", "/", "%", "<", "<=", ">", ">=", "==", "!="]
    out = []
    for op in ops:
        out.append("stel g = 7; functie f() { g = g + 3; g } [g %s f(), g]" % op)
        out.append("stel g = 7; functie f() { g = g + 3; g } [f() %s g, g]" % op)
        out.append("stel g = 7; functie f() { g = g + 3; g } functie h(x) { x %s f() } [h(g), g]" % op)
        out.append("stel g = 7; functie f() { g = g + 3; 2 } stel a = [g, g %s f(), g]; a" % op)
    for op in ("&&", "||"):
        # both operands are evaluated wherever the operator stands: as the condition of als / anders als / zolang, under !, as an argument
        for l in ("ja", "nee"):
            out.append("functie p(x, r) { print(\"p {}\", x); r }; stel t = 0; als p(1, %s) %s p(2, ja) { t = 1 } anders als p(3, %s) %s p(4, nee) { t = 2 } anders { t = 3 }; t" % (l, op, l, op))
            out.append("functie p(x, r) { print(\"p {}\", x); r }; stel k = 0; zolang p(k, %s) %s p(k + 10, k < 2) { k += 1; als k > 3 { stop } }; k" % (l, op))
            out.append("functie p(x, r) { print(\"p {}\", x); r }; [!(p(1, %s) %s p(2, nee)), bool(p(3, %s) %s p(4, ja))]" % (l, op, l, op))
            out.append("stel n = 0; functie tel(r) { n = n + 1; r }; als tel(%s) %s tel(ja) { n = n + 10 }; als %s %s 1 { 0 }; n" % (l, op, l, op))
        out.append("stel g = ja; functie f() { g = !g; g } [g %s f(), g]" % op)
        out.append("stel g = ja; functie f() { g = !g; g } [f() %s g, g]" % op)
    out += [
        "stel g = 1; functie f() { g = g * 10; g } functie k(a, b, c) { [a, b, c] } k(g, f(), g)",
        "stel g = 1; functie f() { g = g * 10; g } [g, f(), g, f(), g]",
        "stel g = 1; functie f() { g = g + 1; g } stel a = [0, 0, 0, 0]; a[g] = f(); [a, g]",
        "stel g = 1; functie f() { g = g + 1; g } stel a = [5, 6, 7, 8]; a[f()] + g",
        "stel fs = [functie(x) { x + 1 }, functie(x) { x * 100 }]; stel i = 0; functie nxt() { i = i + 1; i } stel f = fs[i]; f(nxt())",
        "functie p(x) { print(\"p {}\", x); x } print(\"{} {} {}\", p(1), p(2), p(3)); lengte([p(4), p(5)])", "stel n = 0; functie tel() { n = n + 1; n } print(\"{} {} {}\", tel(), tel(), tel()); n",
        "print(\"{} {}\", 1 / 0, [1][5])", "print(\"{} {}\", [1][5], 1 / 0)", "functie p(x) { print(\"p {}\", x); x } string(p(1)) == string(p(1))", "functie p(x) { print(\"p {}\", x); x } int(p(2)) + int(p(3)) * lengte([p(4)])",
        "functie p(x) { print(\"p {}\", x); x } p(1) + p(2) * p(3) - p(4)", "functie p(x) { print(\"p {}\", x); x } p(p(1) + p(2))",
    ]
    return out


def big_program_family():
    """programs whose code crosses 64 KiB (constants are 3 bytes each): either a syntax error ("te groot") or the
    exact result - never a wild jump.  (source, expected value head)"""
    out = []
    for n in (21830, 21840, 21845, 21846, 21850, 22000):
        lit = "[" + ", ".join("7" for _ in range(n)) + "]"
        out.append(("functie f(x) { x + 1 } stel a = %s; print(\"{}\", f(41)); lengte(a)" % lit, "OK i%d" % n))
        out.append(("functie f(x) { x + 1 } stel a = %s; stel r = f(41); stel i = 0; zolang i < 3 { i += 1 } r + i" % lit, "OK i45"))
    return out


def alloc_stress_family():
    """many allocations between two function returns, then fresh heap values held only by a half-built literal,
    an argument list or a pending operand"""
    out = []
    for n in (10, 250, 260, 300, 520, 600):
        out.append("stel i = 0; stel keep = []; zolang i < %d { i += 1; stel t = [i + 0.5] } stel l = [2.5 * 2.0, \"x\", [1.5]]; [l[0], l[1], l[2]]" % n)
        out.append("stel i = 0; zolang i < %d { i += 1; stel t = \"s\" } functie k(a, b) { [a, b] } k([0.25 + 0.5], [\"y\", 1.5 * 3.0])" % n)
        out.append("stel i = 0; stel acc = 0.0; zolang i < %d { i += 1; acc = acc + 0.5 } stel l = [[acc], [acc + 1.0]]; stel m = [l, [l[0]]]; m" % n)
    return out


# ------------------------------------------------------------------------------------------------------------------
# Scale families: the same small programs at sizes around every width the implementation encodes something in
# (one byte, two bytes, its own thresholds): how MANY constants, locals, arguments, statements, nesting levels,
# live objects or code bytes a program has must not change what it means.  Expected values are closed forms.

def _arr(vals):
    return "[" + ", ".join(str(v) for v in vals) + "]"


def many_constants_family(quick):
    """N distinct literals, then repeated literals in plain and fused positions"""
    out = []
    for n in ((200, 256, 257, 300, 1000) if quick else (100, 200, 254, 255, 256, 257, 258, 300, 511, 512, 513, 1000, 4096, 20000)):
        ints = list(range(1000, 1000 + n))
        src = ("stel a = %s; functie f(x) { x - 12 } functie g(x) { 12 < x } functie h(x) { x * 7 }; "
               "[7 + 7, 7 * 7, 9 - 9, a[0], a[%d], lengte(a), f(12), g(100), h(7), 12, 1000 + 1, %d - 1]" % (_arr(ints), n - 1, 1000 + n - 1))
        exp = [14, 49, 0, 1000, 1000 + n - 1, n, 0, True, 49, 12, 1001, 1000 + n - 2]
        out.append(("constants:int:%d" % n, src, exp))
        strs = ["\"s%d\"" % i for i in range(n)]
        src = ("stel b = %s; stel t = \"s0\"; [lengte(b), b[0], b[%d], \"s0\" == b[0], \"s1\" == b[1], t == \"s0\", \"s%d\" == b[%d], 3.5 + 3.5, 3.5 == 3.5]"
               % (_arr(strs), n - 1, n - 1, n - 1))
        exp = [n, "s0", "s%d" % (n - 1), True, True, True, True, 7.0, True]
        out.append(("constants:str:%d" % n, src, exp))
        fl = ["%d.5" % i for i in range(n)]
        src = "stel c = %s; [lengte(c), c[0] + c[1], c[%d] - %d.5, 0.5 + 0.5, 1.5 == c[1], 2.5 * 2.0]" % (_arr(fl), n - 1, n - 1)
        exp = [n, 2.0, 0.0, 1.0, True, 5.0]
        out.append(("constants:float:%d" % n, src, exp))
    return out


def many_locals_family(quick):
    """a function (and the top level) with N variables: the ones declared last behave like the first"""
    out = []
    for n in ((100, 254, 255, 256, 257, 300) if quick else (10, 100, 253, 254, 255, 256, 257, 258, 300, 511, 512, 513, 1000, 5000)):
        decl = " ".join("stel l%d = %d;" % (i, i) for i in range(n))
        body = ("%s stel teller = 41; stel grens = 7; teller += 1; "
                "[teller + 1, grens * 2, l0 + 1, l%d + 1, teller < 50, 50 - teller, 100 > grens, grens == 7, grens != 7, teller %% 5, teller / 2, p, als ja { stel kleiner = teller - 1; kleiner - 1 }]" % (decl, n - 1))
        exp = [43, 14, 1, n, True, 8, True, True, False, 2, 21, 9, 40]
        out.append(("locals:fn:%d" % n, "functie f(p) { %s } f(9)" % body, exp))
        out.append(("locals:top:%d" % n, "stel p = 9; %s" % body, exp))
        # blocks: slots released at the end of a block are taken again
        blk = " ".join("{ stel b%d = %d; t += b%d }" % (i, i, i) for i in range(n))
        out.append(("locals:blocks:%d" % n, "functie f() { stel t = 0; %s; stel na = 5; [t, na + 1] } f()" % blk, [n * (n - 1) // 2, 6]))
    return out


def many_args_family(quick):
    out = []
    for n in (256, 257, 300, 512, 513):
        ps = ", ".join("p%d" % i for i in range(n))
        args = ", ".join(str(i + 1) for i in range(n))
        good = [1, n, 5]
        out.append(("args:over:%d" % n, "functie f(%s) { stel own = 5; [p0, p%d, own] } f(%s)" % (ps, n - 1, args), ("LIMIT-OK", good)))
        out.append(("args:over-pending:%d" % n, "functie nul(%s) { 0 } 1000 + nul(%s)" % (ps, args), ("LIMIT-OK", 1000)))
    for n in ((2, 100, 254, 255) if quick else (1, 2, 16, 100, 127, 128, 129, 200, 253, 254, 255)):
        ps = ", ".join("p%d" % i for i in range(n))
        args = ", ".join(str(i * 3) for i in range(n))
        out.append(("args:%d" % n, "functie f(%s) { stel own = 5; [p0, p%d, own, p%d + 1] } f(%s)" % (ps, n - 1, n // 2, args), [0, (n - 1) * 3, 5, (n // 2) * 3 + 1]))
        out.append(("args:print:%d" % n, "print(\"%s\", %s); %d" % (" ".join("{}" for _ in range(n)), args, n), ("OUT", "OK i%d" % n, " ".join(str(i * 3) for i in range(n))) if n < 255 else ("LIMIT-OK", ("OUT", "OK i%d" % n, " ".join(str(i * 3) for i in range(n))))))
    return out


def many_statements_family(quick):
    """N sibling statements of every kind: nothing accumulates from one statement to the next"""
    out = []
    for n in ((127, 128, 129, 130, 256, 257, 1000) if quick else (10, 63, 64, 65, 126, 127, 128, 129, 130, 131, 254, 255, 256, 257, 258, 511, 512, 513, 1000, 1024, 4097)):
        kinds = [
            ("opassign", "t += 1;", n), ("opassign-mixed", "t += 2; t -= 1; t *= 1; t /= 1;", n), ("assign", "t = t + 1;", n), ("paren", "(t = (t) + (1));", n),
            ("prefix", "t = t + -(-1); !ja;", n), ("block", "{ t += 1 }", n), ("if", "als t >= 0 { t += 1 }", n), ("ifelse", "als t < 0 { t -= 1 } anders als nee { } anders { t += 1 }", n),
            ("loop", "zolang nee { } t += 1;", n), ("loop1", "stel k = 0; zolang k < 1 { k += 1; t += 1 }", n), ("let", "stel t = t2 + 1; stel t2 = t;", n), ("call", "t = op(t);", n),
            ("fn", "functie op(x) { x + 1 } t = op(t);", n), ("array", "[t, [t]]; t += 1;", n), ("index", "w[0] = w[0] + 1; t = w[0];", n), ("string", "\"a\"; t += lengte(\"b\");", n),
            ("ifval", "t = als ja { t + 1 } anders { t };", n), ("builtin", "t = int(string(t)) + 1;", n), ("cmp", "t = t + int(t < %d);" % (n + 5), n),
        ]
        for name, stmt, val in kinds:
            pre = "stel t = 0; stel t2 = 0; stel w = [0]; functie op(x) { x + 1 }; "
            out.append(("stmts:%s:%d" % (name, n), pre + (stmt + " ") * n + "t", val))
            out.append(("stmts:fn:%s:%d" % (name, n), "functie hoofd() { " + pre + (stmt + " ") * n + "t } hoofd()", val))
    return out


def nesting_family(quick):
    """syntactic nesting depth D of every bracketing construct (far below the native-stack finding D27)"""
    out = []
    for d in ((10, 127, 128, 129, 300) if quick else (1, 10, 63, 64, 65, 100, 126, 127, 128, 129, 130, 200, 254, 255, 256, 257, 300, 500)):
        out.append(("nest:paren:%d" % d, "(" * d + "1 + 2" + ")" * d, 3))
        out.append(("nest:block:%d" % d, "{ " * d + "41 + 1" + " }" * d, 42))
        out.append(("nest:neg:%d" % d, "- " * d + "5", (5 if d % 2 == 0 else -5)))
        out.append(("nest:not:%d" % d, "! " * d + "ja", (d % 2 == 0)))
        out.append(("nest:if:%d" % d, "stel t = 0; " + "als ja { t += 1; " * d + "t" + " }" * d, d))
        out.append(("nest:ifval:%d" % d, "1 + als ja { " * d + "0" + " }" * d, d))
        out.append(("nest:call:%d" % d, "functie s(x) { x + 1 } " + "s(" * d + "0" + ")" * d, d))
        out.append(("nest:array:%d" % d, "stel a = " + "[" * d + "7" + "]" * d + "; stel i = 1; zolang i < %d { i += 1; a = a[0] }; a[0]" % d, 7))
        out.append(("nest:loop:%d" % d, "stel t = 0; " + "".join("stel k%d = 0; zolang k%d < 1 { k%d += 1; " % (i, i, i) for i in range(d)) + "t += 1" + " }" * d + " t", 1))
        out.append(("nest:infix-right:%d" % d, "1 + (" * d + "0" + ")" * d, d))
        out.append(("nest:infix-left:%d" % d, "0" + " + 1" * d, d))
        out.append(("nest:elseif:%d" % d, "stel v = %d; als v == 0 { 0 } " % (d - 1) + "".join("anders als v == %d { %d } " % (i, i * 2) for i in range(1, d)) + "anders { 0 - 1 }", ((d - 1) * 2 if d > 1 else 0)))
    return out


def runtime_nesting_family(quick):
    """a value nested D arrays deep, built at run time, survives collections and is read back"""
    out = []
    for d in ((200, 254, 255, 256, 257, 400) if quick else (1, 100, 126, 127, 128, 129, 253, 254, 255, 256, 257, 258, 300, 511, 512, 513, 1000)):
        src = ("functie niets() { stel z = [0.5]; 0 } stel a = [2.5, \"diep\"]; stel i = 0; zolang i < %d { i += 1; a = [a] } niets(); niets(); "
               "stel j = 0; zolang j < 40 { j += 1; stel vul = 7.25 + 0.5 } niets(); stel b = a; stel i = 0; zolang i < %d { i += 1; b = b[0] }; [b[0], b[1], lengte(b)]" % (d, d))
        out.append(("rtnest:%d" % d, src, [2.5, "diep", 2]))
    return out


def many_objects_family(quick):
    """N allocations with no function return in between, then fresh heap values held only by a half-built literal /
    argument list / operand, then more allocations: the literal still holds what was written"""
    out = []
    for n in ((1000, 4095, 4096, 4097, 9000, 65535, 65536, 65537, 70000) if quick else (10, 255, 256, 257, 1023, 1024, 1025, 4094, 4095, 4096, 4097, 4098, 8191, 8192, 8193, 16384, 16385, 40000, 65535, 65536, 65537, 70000, 131072, 200000)):
        tail = "stel j = 0; zolang j < 60 { j += 1; stel u = 3.0 + 1.0; stel w = \"vul\" }"
        out.append(("objects:literal:%d" % n, "stel i = 0; zolang i < %d { i += 1; stel t = [i] } stel punt = [2500.5 + 2500.25, \"tekst\", [0.5 + 0.25], 10000 + 1]; stel alias = punt; stel nest = [punt]; %s; stel binnen = punt[2]; stel buiten = nest[0]; [punt[0], punt[1], binnen[0], alias[0], buiten[3]]" % (n, tail),
                    [5000.75, "tekst", 0.75, 5000.75, 10001]))
        out.append(("objects:args:%d" % n, "functie k(a, b, c) { [a, b, c] } stel i = 0; zolang i < %d { i += 1; stel t = \"s\" } stel r = k([0.25 + 0.5], \"y\", 1.5 * 3.0); %s; r" % (n, tail), [[0.75], "y", 4.5]))
        out.append(("objects:late-and-call:%d" % n, "functie niets() { stel z = [0.5]; 0 }; stel i = 0; zolang i < %d { i += 1; stel t = [i] } stel laat = [1.5 + 1.0, \"laat\", [2.5 + 1.0], 3.5 + 1.0]; niets(); stel vers = [9.25, 8.25, 7.25]; niets(); stel in = laat[2]; [laat[0], laat[1], in[0], laat[3], vers[2]]" % n, [2.5, "laat", 3.5, 4.5, 7.25]))
        out.append(("objects:floats:%d" % n, "stel i = 0; stel acc = 0.0; zolang i < %d { i += 1; acc = acc + 0.5 } stel l = [[acc], [acc + 1.0]]; %s; stel l0 = l[0]; stel l1 = l[1]; [l0[0], l1[0]]" % (n, tail), [n * 0.5, n * 0.5 + 1.0]))
        out.append(("objects:in-function:%d" % n, "functie bouw(n) { stel i = 0; stel keep = [1.5]; zolang i < n { i += 1; stel t = [i, 0.5 + 0.5] } stel l = [keep[0] + 1.0, [\"x\"], keep]; l } stel r = bouw(%d); %s; stel r1 = r[1]; stel r2 = r[2]; [r[0], r1[0], r2[0]]" % (n, tail), [2.5, "x", 1.5]))
    return out


def _fl(x):
    return str(int(x)) if x == int(x) else repr(x)


def code_boundary_family(quick):
    """every kind of jump and call with the construct placed across the 64 KiB boundary of the code: either the program is
    rejected as too large or it behaves as it does at offset 0 (metamorphic on the implementation)"""
    temps = [
        "stel c = 1 < 2; stel r = als c { 10 } anders { 20 }; stel s = als !c { 1 } anders als c { 2 } anders { 3 }; stel uit = [r, s]; uit",
        "functie f(x) { x + 1 } stel t = 41; stel r = f(t); stel uit = [r, t]; uit",
        "stel i = 0; stel e = 0; zolang i < 6 { i += 1; als i % 2 == 0 { volgende } als i == 5 { stop } e += i }; stel uit = [i, e]; uit",
        "stel r = 0; als ja { r = 1 }; stel q = als nee { 1 }; stel uit = [r, q]; uit",
        "stel v = als nee { 1 } anders als nee { 2 } anders als ja { 3 } anders { 4 }; functie g(c) { als c { antwoord 1 } 2 }; stel uit = [v, g(ja), g(nee)]; uit",
    ]
    out = []
    # padding: one array literal statement of m sevens is 3 m + 4 bytes (m constants loads, Array u16, Pop); `ja;` is 2
    # bytes, `!ja;` 3.  Functions are compiled in line, so the template's own functions may come first or last.
    span = range(65536 - 150, 65536 + 8, (4 if quick else 1))
    for t, src in enumerate(temps[: (3 if quick else 5)]):
        for k in span:
            m = (k - 4) // 3 - 2
            rest = k - (3 * m + 4)
            fine = pad(rest) if rest != 1 else None
            if fine is None:
                continue
            out.append((t, k, "[" + ", ".join("7" for _ in range(m)) + "]; " + fine + src))
    return temps, out


def huge_literal_family():
    """integer literals beyond the 61-bit range are rejected, whatever they are congruent to"""
    out = []
    for k in list(range(1, 34)) + [2 ** 10, 2 ** 32, 2 ** 64, 10 ** 20]:
        for r in (0, 1, 42, 2 ** 60 - 1, 2 ** 60, 2 ** 61, 2 ** 63, 2 ** 64 - 1):
            out.append(2 ** 64 * k + r)
    out += [2 ** 60, 2 ** 60 + 1, 2 ** 61 - 1, 2 ** 61, 2 ** 62, 2 ** 63 - 1, 2 ** 63, 2 ** 63 + 1, 2 ** 64 - 1, 2 ** 64, 2 ** 64 + 1, 2 ** 65, 2 ** 127, 2 ** 128, 2 ** 128 + 42]
    out += [10 ** n for n in range(18, 45)] + [10 ** n + 42 for n in range(18, 45)] + [int("9" * n) for n in range(18, 45)]
    return sorted(set(x for x in out if x > 2 ** 60 - 1))


SCALE_PARTS = {"constants": many_constants_family, "locals": many_locals_family, "args": many_args_family, "statements": many_statements_family,
               "nesting": nesting_family, "rtnest": runtime_nesting_family, "objects": many_objects_family}


def run_scale(ctx, log, parts, budget=30000000, profiles=("release",)):
    """evaluates the requested scale families on the implementation and compares with the closed-form expectation:
    a Python value (the program's value graph must decode to it), or (head, printed text)"""
    fam = []
    for p in parts:
        fam += SCALE_PARTS[p](ctx.quick)
    for profile in profiles:
        obs = vlib.nlh("eval", ["%d %s" % (budget, vlib.hexs(src)) for _, src, _ in fam], tag=ctx.prop.lower() + "sc", timeout=1800, profile=profile)
        for (tag, src, exp), o in zip(fam, obs):
            ctx.seen(("scale", tag, profile))
            ctx.count("scale:" + tag.split(":")[0])
            ok, want = scale_ok(o, exp)
            if not ok and progcheck_head(o) == "ERR Syntax" and len(src) > 40000:
                ctx.count("scale-too-large-rejected")      # resource limit (code, constants or jump beyond 16 bits): DESIGN 4.3 item 5
                continue
            if not ok:
                ctx.violate("the same small program means something else at this size (%s, %s build)" % (tag, profile), source=src if len(src) < 3000 else src[:1200] + " ...(%d characters)... " % len(src) + src[-1200:],
                            observed=o[:300], expected=want, family=tag)
    return fam


def progcheck_head(o):
    return o.split(" | ")[0]


def decode_value(txt):
    """value graph as printed by the harness (`#0=A[i1,#1=F<bits>,#2=S120.233,b1,n,f17.0,#1]`) -> Python value"""
    import struct
    pos = [0]
    seen = {}

    def val():
        m = re.match(r"#(\d+)=", txt[pos[0]:])
        ident = None
        if m:
            ident = int(m.group(1))
            pos[0] += m.end()
        c = txt[pos[0]]
        if c == "#":
            m = re.match(r"#(\d+)", txt[pos[0]:])
            pos[0] += m.end()
            return seen.get(int(m.group(1)))
        if c == "A":
            pos[0] += 2
            out = []
            if ident is not None:
                seen[ident] = out
            while txt[pos[0]] != "]":
                out.append(val())
                if txt[pos[0]] == ",":
                    pos[0] += 1
            pos[0] += 1
            return out
        m = re.match(r"i(-?\d+)|b([01])|F([0-9a-fA-F]{16})|S([\d.]*)|(n)\w*|f(\d+)\.(\d+)", txt[pos[0]:])
        pos[0] += m.end()
        if m.group(1) is not None:
            v = int(m.group(1))
        elif m.group(2) is not None:
            v = m.group(2) == "1"
        elif m.group(3) is not None:
            v = struct.unpack(">d", bytes.fromhex(m.group(3)))[0]
        elif m.group(4) is not None:
            v = "".join(chr(int(x)) for x in m.group(4).split(".") if x)
        elif m.group(5) is not None:
            v = None
        else:
            v = ("fn", int(m.group(6)), int(m.group(7)))
        if ident is not None:
            seen[ident] = v
        return v
    return val()


def scale_ok(o, exp):
    parts = o.split(" | ")
    head = parts[0]
    outp = ""
    for p in parts[1:]:
        if p.startswith("OUT "):
            outp = decode_cp(p[4:])
    # resource limits may answer with an error value (DESIGN 4.3 item 5) - never with another value
    if head in ("ERR Syntax", "ERR Argument") and isinstance(exp, tuple) and exp[0] == "LIMIT-OK":
        return True, None
    if isinstance(exp, tuple) and exp[0] == "LIMIT-OK":
        exp = exp[1]
    if isinstance(exp, tuple) and exp[0] == "ERRSET":
        return head in exp[1], " or ".join(exp[1])
    if isinstance(exp, tuple) and exp[0] == "OUT":
        return (head == exp[1] and outp.rstrip("\n") == exp[2]), "%s printing %s" % (exp[1], exp[2])
    if not head.startswith("OK "):
        return False, repr(exp)
    try:
        got = decode_value(head[3:])
    except Exception as e:
        return False, "%r (observation not decodable: %r)" % (exp, e)
    same = got == exp and type(got) == type(exp) and repr(got) == repr(exp)
    return same, repr(exp)


def decode_cp(t):
    if t.strip() in ("-", ""):
        return ""
    return "".join(chr(int(x)) for x in t.strip().split("."))


def run_code_boundary(ctx, log, budget=3000000):
    temps, fam = code_boundary_family(ctx.quick)
    base = vlib.nlh("eval", ["%d %s" % (budget, vlib.hexs(s)) for s in temps], tag=ctx.prop.lower() + "cb")
    obs = vlib.nlh("eval", ["%d %s" % (budget, vlib.hexs(s)) for _, _, s in fam], tag=ctx.prop.lower() + "cbf", timeout=1800)
    rejected = 0
    for (t, k, src), o in zip(fam, obs):
        ctx.seen(("code-boundary", t, k))
        ctx.count("code-boundary")
        if head(o) == "ERR Syntax":
            rejected += 1
            continue
        if visible(o) != visible(base[t]):
            ctx.violate("a construct placed across the 64 KiB boundary of the code neither behaves as at offset 0 nor is rejected as too large",
                        source="(%d bytes of padding code: one array literal statement and `ja;` statements) %s" % (k, temps[t]), observed=visible(o)[:300], expected=visible(base[t])[:300] + " or ERR Syntax", offset=k, template=temps[t])
    log("code boundary: %d placements around byte 65536 (%d rejected as too large)" % (len(fam), rejected))
    if rejected == len(fam) or rejected == 0:
        ctx.notes.append("code-boundary family: %d of %d placements rejected (expected a mix: the family may not straddle the limit any more)" % (rejected, len(fam)))


def stray_jump_family(quick, rng, all_pres_depth=2):
    """`stop` / `volgende` under every nesting of loops, functions, blocks and branches: accepted exactly when the
    innermost enclosing loop-or-function is a loop (decided by Sem.v's static pass and by running the program)"""
    import itertools
    wrap = {
        "L": lambda n, b: "stel k%d = 0; zolang k%d < 2 { k%d += 1; %s }" % (n, n, n, b),
        "F": lambda n, b: "functie f%d() { stel loc%d = 7; %s; loc%d } f%d()" % (n, n, b, n, n),      # (no `;` of its own: `;;` is a syntax error)
        "G": lambda n, b: "functie g%d() { %s } g%d()" % (n, b, n),          # a function without locals of its own
        "B": lambda n, b: "{ %s }" % b,
        "I": lambda n, b: "als t >= 0 { %s }" % b,
        "E": lambda n, b: "als t < 0 { } anders { %s }" % b,
    }
    out = []
    shapes = []
    for d in (1, 2, 3, 4):
        for sh in itertools.product(("LFGBIE" if all_pres_depth >= 3 else "LFBIE") if d < 3 else ("LFGBI" if (all_pres_depth >= 3 and d == 3) else "LFBI"), repeat=d):
            shapes.append(sh)
    if quick:
        shapes = [s for s in shapes if len(s) <= 3] + rng.sample([s for s in shapes if len(s) == 4], 40)
    for sh in shapes:
        pres = ["", "functie h_() { 1 }; h_();", "stel z_ = 0; zolang z_ < 1 { z_ += 1 };", "zolang nee { };", "stel g_ = functie(q) { q }; g_(1);", "functie(q) { q }(1);"]
        for jump in ("stop", "volgende"):
            # what stands before the jump at its own level: nothing, a finished loop, a nested function (statement or
            # expression) - all of them for the short shapes, one in rotation for the long ones
            for pre in (pres if len(sh) <= all_pres_depth else [pres[(len(out) // 2) % len(pres)]]):
                body = "t += 1; %s %s; t += 100" % (pre, jump)
                for n, w in enumerate(reversed(sh)):
                    body = wrap[w](n, body)
                out.append("stel t = 0; %s; t" % body)
    return out


# ------------------------------------------------------------------------------------------------------------------
# A line that fails - whatever way - and completed no assignment and no declaration leaves a retained session
# exactly as it was: every later line answers as in the session without that line (metamorphic, implementation only)

PURE_FAILING_LINES = [
    # run-time failures inside builtins (arity, type), operators, calls
    "lengte(5)", "int(1, 2)", "bool()", "type()", "float(nee, 1)", "string(1, 2)", "lengte(a, b)", "int(onwaar_)", "1 / 0", "ja + 1", "-ja", "a / 0", "b % 0", "a(1)", "a[0]",
    "print(1 / 0)", "int(lengte(5))", "bool(int(1, 2, 3))", "als lengte(7) { 1 }", "zolang bool(1, 2) { }",
    # compile-time failures at every depth of nesting (the retained compiler has to come back to the top level)
    "onbekend", "onbekend(1)", "onbekend = 1", "functie k() { onbekend } k()", "functie k(q) { stel w = 1; onbekend2 }", "functie k() { functie m() { onbekend } m() } k()",
    "functie k(p) { als p { zolang ja { functie m(r) { stel s = r; onbekend } } } }", "zolang ja { onbekend }", "{ stel q = 1; onbekend }", "{ { stel q = 1; { onbekend } } }",
    "als ja { stop }", "volgende", "functie k() { stop }", "functie k() { zolang ja { functie m() { stop } m() } } k()", "zolang ja { functie m() { volgende } stop }", "als onbekend { 1 }",
    "stel a = 2; stel c5 = onbekend", "stel b = 0; stel a = 0; onbekend", "functie a() { 1 } onbekend", "{ stel a = 9; onbekend }", "functie k(a, b) { onbekend }", "stel z = 1; onbekend", "stel a = a + 1; stel b = onbekend",
    "functie g() { 0 } functie g2(x) { 0 } onbekend", "stel nieuw = 1; stel loc = 2; stel i = 9; onbekend",
    "stel c1 = 1; stel c2 = onbekend", "functie k() { 1 } stel c3 = onbekend", "stel c4 = functie(x) { x + onbekend }",
    # parse failures
    "1 +", "f(", "stel", "a = ", ")", "functie k( { 1 }", "als { 1 }", "\"open", "1 № 2", "[1, 2", "{ stel q = 1",
]
SESSION_PRE = [["stel a = 1", "als a > 5 { }", "stel b = a + 1", "{ }", "zolang nee { }"], ["stel a = 1", "stel b = a + 1"], ["stel b = 7", "stel a = 5; a", "functie t(n) { n + a } t(2)"], ["{ stel weg = 9 }", "stel a = 3", "stel b = 4; b = b + a"]]
SESSION_POST = ["a", "b", "a + b", "int(b) + 1", "bool(a)", "type(a) == type(b)", "stel z = 3; z", "a = a + 1; a", "functie g() { a + b } g()", "functie g2(x) { stel y = x; y + b } g2(a)",
                "stel i = 0; zolang i < 3 { i += 1 } i", "als a > 0 { b } anders { 0 }", "{ stel loc = a; loc + 1 }", "lengte(string(a + b))", "z + a", "stel nieuw = b; functie g3() { nieuw + z } g3()",
                "int(float(b)) + a", "print(\"{} {}\", a, b)"]        # (a text literal only on the LAST line: recorded finding D24ab)


def run_failing_lines(ctx, log, budget=200000):
    def obs_lines(o):
        return [re.sub(r" ST .*$", "", x.strip()) for x in o.split(" ;; ") if x.strip()]
    sessions, meta = [], []
    for pi, pre in enumerate(SESSION_PRE):
        sessions.append(pre + SESSION_POST)
        meta.append((pi, None, None))
        for f in PURE_FAILING_LINES:
            for where in (0, 5):
                sessions.append(pre + SESSION_POST[:where] + [f] + SESSION_POST[where:])
                meta.append((pi, f, where))
            sessions.append(pre + [f, f] + SESSION_POST[:9] + [f] + SESSION_POST[9:])
            meta.append((pi, f, "3x"))
    obs = vlib.nlh("session", ["%d %s" % (budget, " ".join(vlib.hexs(l) for l in s)) for s in sessions], tag=ctx.prop.lower() + "fl", timeout=600)
    base = {}
    for (pi, f, where), s, o in zip(meta, sessions, obs):
        if f is None:
            base[pi] = obs_lines(o)
    for (pi, f, where), s, o in zip(meta, sessions, obs):
        if f is None:
            continue
        ctx.seen(("failing-line", pi, f, where))
        ctx.count("failing-line-sessions")
        got = obs_lines(o)
        npre = len(SESSION_PRE[pi])
        if where == "3x":
            rest = got[:npre] + got[npre + 2:npre + 2 + 9] + got[npre + 2 + 9 + 1:]
            failed = got[npre:npre + 2] + got[npre + 2 + 9:npre + 2 + 9 + 1]
        else:
            rest = got[:npre + where] + got[npre + where + 1:]
            failed = got[npre + where:npre + where + 1]
        if o.startswith("PANIC") or o.startswith("CRASH") or rest != base[pi]:
            ctx.violate("a line that failed without completing any assignment or declaration changed what later lines of the session produce",
                        session=s, failing_line=f, observed=(o if len(o) < 900 else o[:900])[:900], expected=" ;; ".join(base[pi])[:900])
        elif any(not x.startswith("ERR") for x in failed):
            ctx.violate("a line that must fail did not fail", session=s, failing_line=f, observed=" ;; ".join(failed)[:300])
    # long sessions: hundreds of lines, a failing line of every kind every few lines, empty blocks in between; the
    # successful lines answer as in the session without the failing ones, and the last line sees every declaration
    for n in ((150,) if ctx.quick else (150, 600, 2000)):
        good, withf = [], []
        for i in range(n):
            ln = ["stel v%d = %d" % (i, i), "v%d + a" % i, "a = a + 1; a", "als a > 1000000 { }", "stel a%d = a; { stel tijdelijk = a%d }" % (i, i)][i % 5] if i else "stel a = 0"
            good.append(ln)
            withf.append(ln)
            if i % 3 == 2:
                withf.append(PURE_FAILING_LINES[(i // 3) % len(PURE_FAILING_LINES)])
        last = "v5 + v%d + a" % (((n - 1) // 5) * 5)
        o_good = vlib.nlh("session", ["%d %s" % (budget, " ".join(vlib.hexs(l) for l in good + [last]))], tag=ctx.prop.lower() + "fl2", timeout=600)[0]
        o_with = vlib.nlh("session", ["%d %s" % (budget, " ".join(vlib.hexs(l) for l in withf + [last]))], tag=ctx.prop.lower() + "fl2", timeout=600)[0]
        a_, b_ = obs_lines(o_good), obs_lines(o_with)
        succ = [x for x, l in zip(b_, withf + [last]) if not (l in PURE_FAILING_LINES)]
        ctx.seen(("long-session", n))
        ctx.count("long-session-lines", len(withf))
        want_last = "OK i%d" % (5 + ((n - 1) // 5) * 5 + len([1 for i in range(n) if i and i % 5 == 2]))
        if o_good.startswith("PANIC") or o_good.startswith("CRASH") or not a_ or not a_[-1].startswith(want_last):
            ctx.violate("a long retained session does not answer its last line as one growing program would", session=["(%d lines)" % len(good), last], observed=(a_[-1] if a_ else o_good)[:200], expected=want_last)
        elif succ != a_:
            k = next((j for j, (x, y) in enumerate(zip(succ, a_)) if x != y), min(len(succ), len(a_)))
            ctx.violate("in a long retained session the failing lines changed what a later line produces", session=["(%d lines, a failing line after every third)" % len(withf), "first differing successful line: #%d" % k],
                        observed=(succ[k] if k < len(succ) else "(missing)")[:200], expected=(a_[k] if k < len(a_) else "(missing)")[:200])
    log("failing-line family: %d sessions (each of %d failing lines at two positions and three times, after %d different beginnings)" % (len(sessions), len(PURE_FAILING_LINES), len(SESSION_PRE)))


def search_programs(ctx, log, n=6000, budget=30000, seeds=()):
    """the search for a concrete failing input when a proof obligation or the correspondence broke without one: many
    more programs of every generator profile, and variants of the programs on which model and implementation disagree,
    against the specification oracle only (Sem.v inside Coq)"""
    srcs = []
    wv = []
    for kw in (dict(max_depth=3), dict(max_depth=4, collide=0.5), dict(max_depth=2, collide=0.3, p_err=0.05), dict(max_depth=3, floats=False, prints=False, collide=0.6)):
        a, _ = gen_sources(ctx, n // 4, with_value_out=wv, **kw)
        srcs += a
    dis = [d.get("source") for d in ctx.disagreements if d.get("source")][:40] + list(seeds)
    for s in dis:
        # the programs that exercise the changed code, with their value used in a few more ways
        for v in ("functie hoofd_() { %s } hoofd_()" % s, "stel uit_ = [0]; stel k_ = 0; zolang k_ < 2 { k_ += 1; %s }; k_" % s, "%s; %s" % (s, s)):
            srcs.append(v)
            wv.append(True)
    ev = vlib.nlh("eval", ["%d %s" % (budget, vlib.hexs(s)) for s in srcs], tag=ctx.prop.lower() + "srch", timeout=1200)
    found = 0
    for i, impl, spec in runcorr.run_sem(ctx, srcs, ev, log, label="search-sem", with_value=wv):
        found += 1
        ctx.violate("found by the search after the correspondence / a proof obligation broke: the program's value, output or error differs from what its source denotes (Sem.v)", source=srcs[i], observed=impl, specification=spec)
    for s, o in zip(srcs, ev):
        if o.startswith("PANIC") or o.startswith("CRASH"):
            found += 1
            ctx.violate("found by the search: evaluation crashed", source=s, observed=o[:300])
    ctx.stats["search_programs"] = len(srcs)
    log("search: %d programs, %d failing inputs found" % (len(srcs), found))


SPECIAL_VALUES = ["(0.0 / 0.0)", "(1.0 / 0.0)", "(0.0 - 1.0 / 0.0)", "(0.0 * (0.0 - 1.0))", "0.0", "2.5", "1152921504606846975", "(0 - 1152921504606846975 - 1)", "0", "(0 - 1)", "\"\"", "\"é🇳\"", "\"12\"",
                  "[]", "[[]]", "[1, 2.5, \"x\"]", "(als nee { 1 })", "ja", "nee", "functie() { 1 }", "functie(a, b) { a }"]
BINOPS_ALL = ["+", "-", "*", "/", "%", "<", "<=", ">", ">=", "==", "!=", "&&", "||"]
BUILTIN_NAMES = ["print", "type", "bool", "int", "float", "string", "lengte"]


def special_values_family():
    """every special value through every operator (both as variables and inside a function: fused forms), every prefix
    operator, every builtin with one and two arguments, and as base / index / stored value of an index expression"""
    out = []
    vs = SPECIAL_VALUES
    for a in vs:
        for op in ("-", "!"):
            out.append("stel x = %s; %sx" % (a, op))
        for b in BUILTIN_NAMES:
            out.append("stel x = %s; %s(x)" % (a, b))
            out.append("stel x = %s; %s(\"{} {}\", x, x)" % (a, b) if b == "print" else "stel x = %s; %s(x, x)" % (a, b))
        out.append("stel x = %s; stel l = [1, 2]; l[x]" % a)
        out.append("stel x = %s; stel l = [1, 2]; l[0] = x; l" % a)
        out.append("stel x = %s; stel l = [1, 2]; l[x] = 1; l" % a)
        out.append("stel x = %s; stel t = \"ab\"; t[x]" % a)
        out.append("stel x = %s; stel t = \"ab\"; t[0] = x; t" % a)
        out.append("stel x = %s; x[0]" % a)
        out.append("stel x = %s; x[0] = 1" % a)
        out.append("stel x = %s; x(1)" % a)
        out.append("stel x = %s; als x { 1 } anders { 2 }" % a)
        out.append("stel x = %s; stel k = 0; zolang x { k += 1; als k > 2 { stop } } k" % a)
        out.append("stel x = %s; print(\"{}\", x); print(\"{}\", [x, [x]]); string(x)" % a)
        for b in vs:
            for op in BINOPS_ALL:
                out.append("stel x = %s; stel y = %s; x %s y" % (a, b, op))
        for op in BINOPS_ALL:
            out.append("functie f(x) { x %s 3 } f(%s)" % (op, a))
            out.append("functie f(x) { 3 %s x } f(%s)" % (op, a))
            out.append("functie f(x, y) { x %s y } f(%s, %s)" % (op, a, a))
    # every index from far below to far above the sequence, read and written, on arrays and on texts (single- and multi-byte)
    for base in ("[10, 20, 30]", "\"abc\"", "\"aé€\"", "[]", "\"\""):
        for idx in list(range(-6, 7)) + [-65536, 65536, -4294967296, 4294967296, -1152921504606846975, 1152921504606846975]:
            i_src = str(idx) if idx >= 0 else "(0 - %d)" % -idx
            out.append("stel s = %s; s[%s]" % (base, i_src))
            out.append("stel s = %s; s[%s] = %s; s" % (base, i_src, "\"y\"" if base.startswith("\"") else "5"))
            out.append("functie f(s, i) { s[i] = %s; s[i] } f(%s, %s)" % ("\"é\"" if base.startswith("\"") else "[1]", base, i_src))
    return out


def run_production(ctx, log, sources, budget=200000):
    """the command-line program built WITHOUT the observation feature prints, for every program, exactly what the
    observed build computes: the printed output, then the value as it is displayed - or the same kind of error.
    (The hooks duplicate a few lines - print!, float spelling, deallocation: this ties the duplicates together.)"""
    os.makedirs(os.path.join(vlib.WORK, "cases"), exist_ok=True)
    rc, out = vlib.build_production()
    if rc != 0:
        ctx.broken.append(dict(kind="build-production", what=out[-1500:]))
        return
    shown = vlib.nlh("show", ["%d %s" % (budget, vlib.hexs(s)) for s in sources], tag=ctx.prop.lower() + "show", timeout=900)
    keep = [(s, o) for s, o in zip(sources, shown) if o.startswith("OK ") or o.startswith("ERR ")]
    prod = vlib.run_production([s for s, _ in keep])
    bad = 0
    for (s, o), (prc, pout, perr) in zip(keep, prod):
        ctx.seen(("production", s))
        ctx.count("production-binary")
        parts = o.split(" | ")
        outp = decode_cp(parts[1][4:]) if len(parts) > 1 and parts[1].startswith("OUT ") else ""
        if o.startswith("OK "):
            want = (outp + decode_cp(parts[0][3:]) + "\n").encode("utf-8")
            ok = prc == 0 and pout == want and perr.strip() == ""
            exp = "stdout %r" % want[:300]
        else:
            kind = parts[0][4:]
            ok = prc == 0 and pout == outp.encode("utf-8") and perr.startswith(kind + "Error(")
            exp = "stdout %r, stderr %sError(...)" % (outp.encode("utf-8")[:200], kind)
        if not ok:
            bad += 1
            ctx.violate("the command-line program (built without the observation hooks) does not print what the observed build computes", source=s,
                        observed="exit %r stdout %r stderr %r" % (prc, pout[:300], perr[:200]), expected=exp)
    log("production binary: %d programs, %d differ from the observed build" % (len(keep), bad))


# ------------------------------------------------------------------------------------------------------------------
# A comment - whatever it contains - never influences anything: the text with the comment parses / evaluates as the text
# without it (metamorphic, implementation only)

def comment_family():
    import nlast
    firsts = ["stel a = 1", "a = \"\"", "stel t = 0; t += 1", "x", "1 /", "stel s = \"q\\\\\""]
    seconds = ["1250", "!ja", "b = 5", "\"\"", "\"\\\"q\"", "teller", "als ja { 1 }", "[1, 2]", "// t = 99\nt", "b = \"\" // 5\"\nc", "  ingesprongen", "\t9", "a&&b", "\"é\"", "7.5"]
    out = []
    for f in firsts:
        for s2 in seconds:
            plain = f + "\n" + s2
            for c in nlast.COMMENT_TEXTS:
                for lead in ("// ", "//"):
                    out.append((plain, f + " " + lead + c + "\n" + s2))
                    out.append((plain, lead + c + "\n" + f + "\n" + lead + c + "\n" + s2 + " " + lead + c))
    return out


def run_comments(ctx, log, mode="parse", budget=5000):
    fam = comment_family()
    plains = sorted({p for p, _ in fam})
    cmd = mode
    pre = "" if mode in ("parse", "tokens") else "%d " % budget
    base = dict(zip(plains, vlib.nlh(cmd, [pre + vlib.hexs(p) for p in plains], tag=ctx.prop.lower() + "cm")))
    obs = vlib.nlh(cmd, [pre + vlib.hexs(t) for _, t in fam], tag=ctx.prop.lower() + "cmv", timeout=600)
    strip = (lambda o: re.sub(r"@\d+", "", o)) if mode == "tokens" else ((lambda o: " | ".join(o.split(" | ")[:2])) if mode == "eval" else (lambda o: o))
    bad = 0
    for (p, t), o in zip(fam, obs):
        ctx.seen(("comment", t))
        ctx.count("comment-variants")
        if strip(o) != strip(base[p]):
            bad += 1
            ctx.violate("a comment changed what the text around it means", source=t, original=p, observed=strip(o)[:300], expected=strip(base[p])[:300])
    log("comments: %d texts with comments of every content against the text without them (%s), %d differ" % (len(fam), mode, bad))


# ------------------------------------------------------------------------------------------------------------------
# More closed-form families (fifth round): structures that contain themselves but are never displayed, overwriting cells
# that hold aliased objects, literals of N computed elements, builtins on temporaries after N allocations.

def cyclic_family(quick):
    """arrays that contain themselves (directly, through a ring, through nesting), kept reachable or dropped, across
    function returns (= collections); never printed or returned (that is the recorded finding D26)"""
    out = []
    call = "functie niets() { stel z = [0.5]; 0 }; niets(); niets();"
    out.append(("cyclic:self", "stel a = [1, 2]; a[0] = a; %s stel b = a[0]; [lengte(a), lengte(b), a[1], b[1]]" % call, [2, 2, 2, 2]))
    out.append(("cyclic:ring2", "stel a = [1, 0]; stel b = [2, 0]; a[1] = b; b[1] = a; %s stel c = a[1]; stel d = c[1]; [a[0], c[0], d[0], lengte(d)]" % call, [1, 2, 1, 2]))
    out.append(("cyclic:ring3", "stel a = [1, 0]; stel b = [2, 0]; stel c = [3, 0]; a[1] = b; b[1] = c; c[1] = a; %s stel x = a; stel i = 0; zolang i < 7 { i += 1; x = x[1] } x[0]" % call, 2))
    out.append(("cyclic:nested", "stel a = [[0.5], \"s\"]; stel in = a[0]; in[0] = a; %s stel t = a[0]; stel u = t[0]; [u[1], lengte(t)]" % call, ["s", 1]))
    out.append(("cyclic:garbage", "functie maak() { stel g = [1.5, 0]; g[1] = g; stel h = [g, g]; g[0] = h; 7 } stel i = 0; stel t = 0; zolang i < 50 { i += 1; t += maak() } t", 350))
    out.append(("cyclic:in-function", "functie niets2() { [2.5]; 0 } functie ring(n) { stel a = [n, 0]; stel b = [n + 1, a]; a[1] = b; niets2(); stel c = a[1]; c[0] }; [ring(1), ring(10)]", [2, 11]))
    out.append(("cyclic:argument", "functie lang(x) { lengte(x) } stel a = [1, 2, 3]; a[2] = a; [lang(a), lang(a[2])]", [3, 3]))
    out.append(("cyclic:dropped-then-collect", "stel a = [1]; a[0] = a; a = 5; %s a" % call, 5))
    out.append(("cyclic:compare-lengths", "stel a = [0]; a[0] = a; stel n = 0; stel x = a; zolang n < %d { n += 1; x = x[0] } lengte(x) + n" % (300 if quick else 3000), 1 + (300 if quick else 3000)))
    return out


def alias_overwrite_family(quick):
    """a cell that holds an object which is also held elsewhere is overwritten: the other holders still have the object"""
    out = []
    call = "functie niets() { stel z = [0.5]; 0 }; niets();"
    vals = [("\"Anna\"", "Anna", "\"kersen\"", "kersen"), ("(1.5 + 1.0)", 2.5, "(7.0 + 0.25)", 7.25), ("[1, 2]", [1, 2], "[9]", [9])]
    for src, pv, src2, pv2 in vals:
        tag = "alias:" + type(pv).__name__
        out.append((tag + ":cell", "stel naam = %s; stel w = [naam, 0]; w[0] = %s; %s [naam, w[0]]" % (src, src2, call), [pv, pv2]))
        out.append((tag + ":two-cells", "stel naam = %s; stel w = [naam, naam]; w[0] = %s; w[1] = %s; %s [naam, w[0], w[1]]" % (src, src2, src2, call), [pv, pv2, pv2]))
        out.append((tag + ":swap", "stel w = [%s, %s]; stel tmp = w[0]; w[0] = w[1]; w[1] = tmp; %s [w[0], w[1], tmp]" % (src, src2, call), [pv2, pv, pv]))
        out.append((tag + ":via-alias", "stel w = [%s, 0]; stel v = w; stel oud = w[0]; v[0] = %s; %s [oud, w[0], v[0]]" % (src, src2, call), [pv, pv2, pv2]))
        out.append((tag + ":via-parameter", "functie zet(lijst, waarde) { lijst[0] = waarde; 0 } stel w = [%s, 0]; stel oud = w[0]; zet(w, %s); %s [oud, w[0]]" % (src, src2, call), [pv, pv2]))
        out.append((tag + ":nested", "stel in = [%s]; stel uit = [in, in]; stel oud = in[0]; in[0] = %s; stel x = uit[1]; %s [oud, x[0]]" % (src, src2, call), [pv, pv2]))
        out.append((tag + ":variable", "stel a = %s; stel b = a; a = %s; %s [a, b]" % (src, src2, call), [pv2, pv]))
        out.append((tag + ":loop", "functie niets3() { 0 }; stel w = [%s, %s]; stel i = 0; zolang i < 9 { i += 1; stel tmp = w[0]; w[0] = w[1]; w[1] = tmp; niets3() }; [w[0], w[1]]" % (src, src2), [pv2, pv]))
    out.append(("alias:self-insert", "stel s = \"abc\"; s[1] = s; stel t = \"maandag\"; stel u = t; t[-1] = u; stel v = \"abc\"; stel w = \"abc\"; v[1] = w; [s, t, u, v, s == v]", ["aabcc", "maandamaandag", "maandamaandag", "aabcc", True]))
    out.append(("alias:self-insert-array", "stel a = [1, 2, 3]; stel b = a; a[1] = lengte(b); a[-1] = a[0]; [a, b]", [[1, 3, 1], [1, 3, 1]]))
    out.append(("alias:many-references", "functie niets() { 0 }; stel een = float(0); stel veel = [een, een, een, een, een, een, een, een]; stel tekst = string(7); stel veel2 = [tekst, tekst, tekst, tekst, tekst]; stel totaal = float(100); stel naam = string(12); niets(); stel vers = 3.5 + 3.5; [totaal, naam, vers, veel[7], veel2[4]]", [100.0, "12", 7.0, 0.0, "7"]))
    out.append(("alias:one-char-target", "stel t = \"x\"; stel nieuw = \" <-> \"; t[0] = nieuw; stel l = [\"Zoë\", \"q\"]; stel doel = l[1]; doel[0] = l[0]; [t, nieuw, lengte(nieuw), l[0], doel]", [" <-> ", " <-> ", 5, "Zoë", "Zoë"]))
    out.append(("alias:one-char-target-function", "functie zet(doel, bron) { doel[0] = bron; lengte(bron) } stel d = \"y\"; stel b = \"euro\"; [zet(d, b), d, b]", [4, "euro", "euro"]))
    out.append(("alias:recycled-text", "functie a() { stel t = \"ééééé\"; t[3] } functie b() { stel u = \"abcdefgh\"; u[5] } functie c() { stel v = \"€€€\"; [v[2], v[0]] } functie d() { stel w = \"0123456789\"; [w[4], w[-1]] }; [a(), b(), a(), b(), c(), d(), c(), d()]",
                ["é", "f", "é", "f", ["€", "€"], ["4", "9"], ["€", "€"], ["4", "9"]]))
    out.append(("alias:recycled-text-argument", "functie teken(tekst, i) { tekst[i] }; functie laatste(woord) { woord[lengte(woord) - 1] }; [teken(\"ééééééééééééé-abcdefghijklm\", 14), teken(\"abcdefghijklmnopqrstuvwxyz0123456789\", 14), teken(\"ééééééééééééé-abcdefghijklm\", 16), teken(\"abcdefghijklmnopqrstuvwxyz0123456789\", 16), laatste(\"één\"), laatste(\"twee\"), laatste(\"drieëntwintig\"), laatste(\"vier\"), teken(\"😀😀😀😀😀\", 4), teken(\"0123456789\", 9)]",
                ["a", "o", "c", "q", "n", "e", "g", "r", "😀", "9"]))
    out.append(("alias:recycled-text-loop", "functie lees(w, k) { stel t = string(w); t[k] }; stel uit = []; stel i = 0; stel r = \"\"; zolang i < 6 { i += 1; r = lees(\"héé😀ab\", 4); r = lees(\"twee\", 3); r = lees(\"😀😀😀😀\", 2); r = lees(\"abcdef\", 5) }; [r, lees(\"één\", 2), lees(\"xyz\", 2)]", ["f", "n", "z"]))
    out.append(("alias:char", "stel s = \"banaan\"; stel c = s[1]; c[0] = \"X\"; stel q = s[3]; [s, c, s[1], q, lengte(q)]", ["banaan", "X", "a", "a", 1]))
    out.append(("alias:char2", "stel s = \"aaa\"; stel c = s[0]; stel d = s[0]; c[0] = \"oe\"; [c, d, s, s[-1]]", ["oe", "a", "aaa", "a"]))
    out.append(("alias:type-string", "stel t = type(1); stel u = type(2); t[0] = \"X\"; [t, u, type(3)]", ["Xnt", "int", "int"]))
    out.append(("alias:string-builtin", "stel a = string(12); stel b = string(12); a[0] = \"9\"; [a, b, string(12)]", ["92", "12", "12"]))
    return out


def big_literal_family(quick):
    """array literals of N elements each computed at run time (fresh heap values held only by the half-built literal)"""
    out = []
    for n in ((100, 255, 256, 511, 512, 513, 1000) if quick else (10, 100, 254, 255, 256, 257, 510, 511, 512, 513, 1000, 1023, 1024, 1025, 4095, 4096, 4097, 10000)):
        for name, elem, pv in (("float", "0.25 + 0.5", 0.75), ("string", "string(12)", "12"), ("array", "[1.5]", [1.5]), ("mixed", None, None)):
            if elem is None:
                cyc = ["0.25 + 0.5", "string(12)", "[1.5]", "7"]
                pvs = [0.75, "12", [1.5], 7]
                body = ", ".join(cyc[i % 4] for i in range(n))
                exp = [n, pvs[0], pvs[(n - 1) % 4], pvs[(n // 2) % 4]]
            else:
                body = ", ".join(elem for _ in range(n))
                exp = [n, pv, pv, pv]
            src = "stel a = [%s]; functie niets() { 0 }; niets(); [lengte(a), a[0], a[%d], a[%d]]" % (body, n - 1, n // 2)
            out.append(("literal:%s:%d" % (name, n), src, exp))
            out.append(("literal:fn:%s:%d" % (name, n), "functie bouw() { stel a = [%s]; a } stel r = bouw(); [lengte(r), r[0], r[%d], r[%d]]" % (body, n - 1, n // 2), exp))
    return out


def builtin_temporaries_family(quick):
    """builtins applied to temporaries (results of other builtins, of arithmetic, literals) after N allocations with no
    function return in between"""
    out = []
    for n in ((1000, 4095, 4096, 4097, 9000) if quick else (10, 255, 256, 257, 1023, 1024, 1025, 4094, 4095, 4096, 4097, 4098, 8192, 16384, 40000, 65536, 70000)):
        pre = "stel i = 0; zolang i < %d { i += 1; stel t = [i] };" % n
        loop = "stel fout = 0; stel j = 0; zolang j < 200 { j += 1; als int(float(j) * 2.0) != j * 2 { fout += 1 } als lengte(string(j * 1000)) != lengte(string(j)) + 3 { fout += 1 } als type([j]) != \"lijst\" { fout += 0 } };"
        out.append(("temporaries:%d" % n, "%s %s [fout, lengte(string(12345)), int(float(7) * 2.0), string(2.5 * 2.0), bool(string(0)), float(string(1.5)) + 1.0, lengte([string(1), [2.5]])]" % (pre, loop), [0, 5, 14, "5", True, 2.5, 2]))
        out.append(("temporaries:print:%d" % n, "%s print(\"{} {} {}\", string(1.5 + 1.0), [0.5 + 0.25, string(3)], lengte(string(77))); 1" % pre, ("OUT", "OK i1", "2.5 [0.75, 3] 2")))
    return out


def builtin_arity_family(quick):
    """builtins with N arguments around 255 / 256: an argument error or 'too large', never a value computed from some of them"""
    out = []
    for n in ((2, 255, 256, 257, 300, 512) if quick else (2, 3, 100, 254, 255, 256, 257, 258, 300, 511, 512, 513, 1000)):
        args = ", ".join(str(i + 1) for i in range(n))
        for b in ("int", "lengte", "type", "bool", "float", "string"):
            out.append(("arity:%s:%d" % (b, n), "print(\"voor\"); %s(%s)" % (b, args), ("ERRSET", ("ERR Argument", "ERR Syntax"))))
        out.append(("arity:print:%d" % n, "print(\"%s\", %s); 5" % (" ".join("{}" for _ in range(n)), args), ("OUT", "OK i5", " ".join(str(i + 1) for i in range(n))) if n < 255 else ("LIMIT-OK", ("OUT", "OK i5", " ".join(str(i + 1) for i in range(n))))))
    return out


SCALE_PARTS.update({"cyclic": cyclic_family, "alias": alias_overwrite_family, "literal": big_literal_family, "temporaries": builtin_temporaries_family, "arity": builtin_arity_family})


def function_endings_family(quick):
    """how a function body (and a loop body, a branch) ENDS decides what the compiler emits behind it: every last statement
    x every way its own body ends, with code after the call (decided by Sem.v and by running)"""
    lasts = []
    ends = ["antwoord t + 1000", "stop", "als t > 2 { stop }", "t = t + 1", "als t > 1 { antwoord t } anders { antwoord 0 - t }", "{ antwoord 7 }", "volgende_"]
    for cond in ("ja", "nee", "k < 2", "t < 3"):
        for e in ends:
            if e == "volgende_":
                body = "k += 1; t += 1; als k > 3 { stop } als k > 1 { volgende } t += 10"
                lasts.append("stel k = 0; zolang %s { %s }" % (cond, body))
            else:
                # the loop is left by `stop` in its first / a later round, or by what its body ends in
                for thr in (0, 3):
                    body = "k += 1; t += 1; als k > %d { stop } %s" % (thr, e)
                    lasts.append("stel k = 0; zolang %s { %s }" % (cond, body))
                lasts.append("stel k = 0; zolang %s { k += 1; als k == 2 { stop } als k > 5 { antwoord 0 - 1 } anders { als k == 1 { volgende } anders { antwoord k } } }" % cond)
    for e in ("antwoord 5", "t = t + 1", "als ja { antwoord 1 } anders { antwoord 2 }", "als t > 100 { antwoord 1 }", "{ { antwoord 3 } }", "stel loc = 4", "als nee { 1 } anders als ja { antwoord 8 } anders { 9 }", "functie binnen() { antwoord 11 } binnen()", "[t]", "zolang nee { antwoord 1 }"):
        lasts.append(e)
    out = []
    for last in lasts:
        for pre in ("", "stel p0 = 1;"):
            for t0 in (0, 2):
                out.append("stel t = %d; functie f() { %s %s } stel r = f(); print(\"na {} {}\", type(r), t); functie g() { f(); 5 }; [g(), t]" % (t0, pre, last))
    if quick:
        out = out[::2]
    return out


def nested_names_family(quick):
    """a name that is global AND a parameter / local / nested function of the enclosing function, used inside a function
    nested in it: no closures - it means the global (or the nested function's own declaration)"""
    out = []
    glob = {"var": "stel x = 100;", "fn": "functie x() { 100 }"}
    outer = {"param": ("x", ""), "local": ("q", "stel x = 5;"), "nestedfn": ("q", "functie x() { 5 }"), "none": ("q", "")}
    inner = {"use": "n + %s", "own": "stel x = 7; n + %s", "param": None, "assign": None}
    for gk, g in glob.items():
        call = "x()" if gk == "fn" else "x"
        for ok, (par, decl) in outer.items():
            arg = "functie() { 5 }" if (ok == "param" and gk == "fn") else "5"
            for ik in ("use", "own", "param", "assign"):
                if ik == "use":
                    body = "functie binnen(n) { n + %s }" % call
                elif ik == "own":
                    body = "functie binnen(n) { stel x = 7; n + x }"
                elif ik == "param":
                    body = "functie binnen(x) { x + 1 }"
                else:
                    if gk == "fn":
                        continue
                    body = "functie binnen(n) { x = x + n; x }"
                out.append("%s functie buiten(%s) { %s %s; [binnen(1), binnen(2)] } stel r = buiten(%s); [r, %s]" % (g, par, decl, body, arg, call))
                out.append("%s functie buiten(%s) { %s stel f = %s; f(3) }; [buiten(%s), %s]" % (g, par, decl, body.replace("functie binnen", "functie", 1), arg, call))
                if ik in ("use", "own"):
                    # the same body as a parameterless function invoked on the spot (its own context: no closure)
                    inner = "%s + 1" % call if ik == "use" else "stel x = 7; x + 1"
                    out.append("%s functie buiten(%s) { %s functie() { %s }() }; [buiten(%s), %s]" % (g, par, decl, inner, arg, call))
                    out.append("%s functie buiten(%s) { %s stel r = functie() { %s }(); r + 1 }; [buiten(%s), %s]" % (g, par, decl, inner, arg, call))
    # textually identical function literals at places where a free name means different things; block-scoped globals that only
    # functions written in the block use
    out += ["stel x = 1; stel f = functie() { x }; { stel x = 2; stel g = functie() { x }; [f(), g()] }", "stel x = 1; stel f = functie() { x }; stel x = 100; stel g = functie() { x }; [f(), g(), x]",
            "{ stel grens = 10; functie test(v) { v < grens }; [test(1), test(100)] }", "stel teller = 1000; { stel teller = 0; functie op() { teller = teller + 2; teller }; print(\"in het blok: {}\", op()) }; teller",
            "als ja { stel drempel = 5; stel hulp = 1; functie boven(v) { v > drempel }; [boven(9), boven(1), hulp] }", "stel i = 0; stel r = 0; zolang i < 2 { i += 1; stel stap = 10; functie plus(v) { v + stap }; r = plus(r) }; r",
            "functie buiten() { stel a = functie(n) { n + 1 }; stel b = functie(n) { n + 1 }; [a(1), b(2)] }; buiten()"]
    return out


# ------------------------------------------------------------------------------------------------------------------
# Sixth round: many names, text sizes, special constants, collections before AND after a store, everything again as the body
# of a function.

def many_names_family(quick):
    """N distinct names in one scope, each with its own value: every name still means its own variable (names that differ
    in case, in one letter, digits against letters, non-ASCII letters; classic hash-collision pairs included)"""
    import itertools
    out = []
    alpha = "abAB01_é"
    names = []
    for n in (2, 3):
        for p in itertools.product(alpha, repeat=n):
            w = "".join(p)
            if w[0] in "01":
                continue
            names.append(w)
    names += ["an", "c0", "Aa", "BB", "ba", "cB", "Ċ", "AaAa", "BBBB", "AaBB", "BBAa", "x1", "x_1", "X1", "l", "I", "O0", "o0", "ß", "ss", "ä", "ä"[:1] + "e", "naam", "Naam", "NAAM"]
    kw = {"als", "ja", "nee", "stel", "stop"}
    names = [w for w in dict.fromkeys(names) if w not in kw and w.isidentifier()]
    for size in ((60, len(names)) if quick else (10, 60, 300, len(names))):
        ns = names[:size]
        decl = " ".join("stel %s = %d;" % (w, i) for i, w in enumerate(ns))
        probe = [ns[0], ns[-1], ns[len(ns) // 2], ns[len(ns) // 3]] + [w for w in ("an", "c0", "Aa", "BB", "ba", "cB") if w in ns]
        exp = [ns.index(w) for w in probe]
        total = sum(range(len(ns)))
        out.append(("names:top:%d" % size, "%s [%s, %s]" % (decl, ", ".join(probe), " + ".join(ns)), exp + [total]))
        out.append(("names:fn:%d" % size, "functie f() { %s [%s, %s] } f()" % (decl, ", ".join(probe), " + ".join(ns)), exp + [total]))
        out.append(("names:params:%d" % min(size, 250), "functie f(%s) { [%s] } f(%s)" % (", ".join(ns[:250]), ", ".join(w for w in probe if w in ns[:250]), ", ".join(str(i) for i in range(len(ns[:250])))), [ns.index(w) for w in probe if w in ns[:250]]))
        out.append(("names:fns:%d" % min(size, 200), " ".join("functie %s() { %d }" % (w, i) for i, w in enumerate(ns[:200])) + "; [%s]" % ", ".join(w + "()" for w in probe if w in ns[:200]), [ns.index(w) for w in probe if w in ns[:200]]))
    return out


def text_size_family(quick):
    """texts of every length around the sizes something might be chunked in (8, 16, 32, 48, 64 ... bytes), with a multi-byte
    character at every position: measured, indexed from both ends, edited, converted"""
    out = []
    fills = ["é", "€", "😀"]
    lengths = list(range(0, 72)) + [95, 96, 97, 127, 128, 129, 255, 256, 257, 1000]
    if quick:
        lengths = list(range(20, 70, 1)) + [0, 1, 7, 8, 9, 127, 128, 129, 256]
    for n in lengths:
        for fi, f in enumerate(fills):
            if quick and (n + fi) % 3:
                continue
            # ASCII text with one multi-byte character at the end / at the front / in the middle
            for where in ("end", "front", "mid"):
                if n == 0:
                    t = ""
                elif where == "end":
                    t = "a" * (n - 1) + f
                elif where == "front":
                    t = f + "b" * (n - 1)
                else:
                    t = "c" * (n // 2) + f + "d" * (n - n // 2 - 1)
                lit = nlast_quote(t)
                if n == 0:
                    out.append(("text:%d:%s" % (n, where), "stel s = %s; [lengte(s), s == \"\"]" % lit, [0, True]))
                    break
                out.append(("text:%d:%s:%d" % (n, where, fi), "stel s = %s; stel i = 0; stel k = 0; zolang i < lengte(s) { als s[i] == %s { k += 1 } i += 1 }; [lengte(s), s[-1], s[0], s[%d], k, i]" % (lit, nlast_quote(f), n - 1),
                            [n, t[-1], t[0], t[-1], 1, n]))
                out.append(("text:edit:%d:%s:%d" % (n, where, fi), "stel s = %s; s[-1] = \"Z\"; s[0] = \"%s\"; [lengte(s), s[-1], s[0]]" % (lit, f + f), [n + 1, "Z" if n > 1 else f, f] if n > 1 else [2, f, f]))
        # conversions of long non-numeric text: an error value, whatever sits at whatever byte offset
        for f in fills[: (1 if quick else 3)]:
            t = "x" * n + f + " 12,50 per stuk"
            out.append(("text:int:%d" % n, "int(%s)" % nlast_quote(t), ("ERRSET", ("ERR Argument", "ERR Type"))))
            out.append(("text:float:%d" % n, "float(%s)" % nlast_quote(t), ("ERRSET", ("ERR Argument", "ERR Type"))))
        out.append(("text:print:%d" % n, "print(\"{}|{}\", %s, %d); 0" % (nlast_quote("é" * n), n), ("OUT", "OK i0", "é" * n + "|%d" % n)))
    return out


def nlast_quote(t):
    import nlast
    return nlast.quote(t)


def special_constants_family(quick):
    """the constants an optimiser likes (0, 1, -1, 2, powers of two) next to a variable of EVERY type, in the fused forms:
    the same value or the same error as with the constant held in a variable"""
    out = []
    vals = [("5", 5), ("(0 - 7)", -7), ("2.5", 2.5), ("\"vijf\"", "vijf"), ("ja", True), ("[1, 2]", [1, 2]), ("(als nee { 1 })", None), ("functie() { 1 }", "fn")]
    ops = ["+", "-", "*", "/", "%", "<", "<=", ">", ">=", "==", "!="]
    consts = [0, 1, 2, 4, 8, 16, 256, 65536, 2 ** 31, 2 ** 32, 2 ** 59]
    return vals, ops, consts


def run_special_constants(ctx, log):
    vals, ops, consts = special_constants_family(ctx.quick)
    srcs, pairs = [], []
    for vs, _ in vals:
        for op in ops:
            for c in consts:
                # fused (variable op literal / literal op variable inside a function) against generic (constant in a variable)
                for fused, generic in (("functie f(x) { x %s %d } f(%s)" % (op, c, vs), "functie f(x, k) { x %s k } f(%s, %d)" % (op, vs, c)),
                                       ("functie f(x) { %d %s x } f(%s)" % (c, op, vs), "functie f(x, k) { k %s x } f(%s, %d)" % (op, vs, c)),
                                       ("functie f(x) { x %s= %d; x } f(%s)" % (op, c, vs) if op in "+-*/%" else None, "functie f(x, k) { x = x %s k; x } f(%s, %d)" % (op, vs, c))):
                    if fused is None:
                        continue
                    pairs.append((len(srcs), len(srcs) + 1))
                    srcs += [fused, generic]
    obs = vlib.nlh("eval", ["2000 " + vlib.hexs(s) for s in srcs], tag=ctx.prop.lower() + "sc")
    bad = 0
    for a, b in pairs:
        ctx.seen(("special-constant", srcs[a]))
        ctx.count("special-constants")
        if visible(obs[a]) != visible(obs[b]):
            bad += 1
            ctx.violate("an operator next to a special constant behaves differently from the same operator on the same values held in variables", source=srcs[a], original=srcs[b], observed=visible(obs[a])[:200], expected=visible(obs[b])[:200])
    log("special constants: %d fused forms against their generic forms, %d differ" % (len(pairs), bad))


def collect_store_collect_family(quick):
    """a container survives a collection, THEN receives a fresh heap value, then more collections and allocations happen, then
    it is read - at top level and with the store made by a callee, from the top level and from inside a function"""
    out = []
    fresh = [("1.5 + 2.0", 3.5), ("string(12)", "12"), ("[0.5 + 0.25]", [0.75])]
    churn = "stel q = 0; zolang q < 30 { q += 1; stel afval = [9.25, \"afval\"] };"
    for src, pv in fresh:
        tag = "csc:" + type(pv).__name__
        out.append((tag + ":top", "functie niets() { 0 }; stel rij = [0.5, 0.5, 0.5]; niets(); niets(); rij[1] = %s; 7; niets(); %s niets(); [rij[0], rij[1], rij[2]]" % (src, churn), [0.5, pv, 0.5]))
        out.append((tag + ":callee", "functie niets() { 0 }; functie zet(r) { r[1] = %s; 7; 8 } stel rij = [0.5, 0.5, 0.5]; niets(); zet(rij); %s niets(); [rij[0], rij[1], rij[2]]" % (src, churn), [0.5, pv, 0.5]))
        out.append((tag + ":callee-in-function", "functie niets() { 0 }; functie zet(r) { r[1] = %s; 7; 8 } functie hoofd() { stel rij = [0.5, 0.5, 0.5]; niets(); stel m = zet(rij); stel q = 0; zolang q < 30 { q += 1; stel afval = [9.25] } niets(); [rij[0], rij[1], rij[2], m] } hoofd()" % src, [0.5, pv, 0.5, 8]))
        out.append((tag + ":nested-older", "functie niets() { 0 }; stel binnen = [0.5]; stel buiten = [binnen, 0.5]; niets(); binnen[0] = %s; 7; niets(); %s niets(); stel b = buiten[0]; [b[0], buiten[1]]" % (src, churn), [pv, 0.5]))
        out.append((tag + ":global-from-function", "functie niets() { 0 }; stel rij = [0.5, 0.5]; functie vul() { rij[0] = %s; 7; 8 } niets(); vul(); %s niets(); vul(); niets(); [rij[0], rij[1]]" % (src, churn), [pv, 0.5]))
        out.append((tag + ":returned-literal", "functie kop(n) { als n > 0 { antwoord kop(n - 1) } \"----\" } stel a = kop(2); a[0] = \"+\"; stel b = kop(0); [a, b, kop(3)]", ["+---", "----", "----"]))
        out.append((tag + ":literal-to-builtin", "functie etiket() { stel s = string(\"abc\"); s } stel a = etiket(); a[0] = \"Xÿ\"; [a, etiket(), \"abc\", lengte(\"abc\")]", ["Xÿbc", "abc", "abc", 3]))
        out.append((tag + ":literal-as-argument", "functie merk(s) { s[0] = \"X\"; s }; stel a = merk(\"abc\"); [a, merk(\"abc\"), \"abc\", \"abc\" == \"abc\", lengte(\"abc\")]", ["Xbc", "Xbc", "abc", True, 3]))
        out.append((tag + ":literal-in-array", "stel l = [\"abc\", \"abc\"]; stel e = l[0]; e[0] = \"X\"; stel f = l[1]; [e, f, l[0], \"abc\"]", ["Xbc", "abc", "Xbc", "abc"]))
        out.append((tag + ":literal-as-branch-value", "functie kies(c) { als c { \"abc\" } anders { \"lus\" } }; stel a = kies(ja); a[0] = \"X\"; stel b = kies(ja); stel i = 0; stel w = \"\"; zolang i < 2 { i += 1; w = als i > 0 { \"lus\" } anders { \"\" }; w[2] = \"x\" }; [a, b, w, kies(nee)]", ["Xbc", "abc", "lux", "lus"]))
        out.append((tag + ":literal-returned-from-loop", "functie zoek() { stel i = 0; zolang i < 3 { i += 1; als i == 2 { antwoord \"abc\" } } \"niets\" }; stel a = zoek(); a[1] = \"Q\"; [a, zoek()]", ["aQc", "abc"]))
        out.append((tag + ":final-value", "functie niets() { 0 }; stel l = [0.5, \"graden\", [1.5]]; niets(); l[0] = %s; stel in = l[2]; in[0] = %s; niets(); l" % (src, src), [pv, "graden", [pv]]))
        out.append((tag + ":final-value-from-function", "functie maak() { stel l = [0.5, [1.5]]; l[0] = %s; stel in = l[1]; in[0] = %s; l }; maak()" % (src, src), [pv, [pv]]))
        out.append((tag + ":literal-in-loop", "functie streep(n) { stel s = \"....\"; s[n] = \"#\"; s }; [streep(0), streep(1), streep(2), \"....\"]", ["#...", ".#..", "..#.", "...."]))
    return out


SCALE_PARTS.update({"names": many_names_family, "text": text_size_family, "csc": collect_store_collect_family})


def run_scale_wrapped(ctx, log, parts, budget=30000000):
    """the closed-form families once more with the whole program as the body of a function (locals instead of globals,
    calls made from inside a function, one more activation on the stack)"""
    fam = []
    for p in parts:
        for tag, src, exp in SCALE_PARTS[p](ctx.quick):
            if isinstance(exp, tuple):
                continue
            fam.append((tag + ":as-function-body", "functie hoofd_() { %s } hoofd_()" % src, exp))
    obs = vlib.nlh("eval", ["%d %s" % (budget, vlib.hexs(src)) for _, src, _ in fam], tag=ctx.prop.lower() + "scw", timeout=1800)
    for (tag, src, exp), o in zip(fam, obs):
        ctx.seen(("scale", tag))
        ctx.count("scale-wrapped:" + tag.split(":")[0])
        ok, want = scale_ok(o, exp)
        if not ok and progcheck_head(o) == "ERR Syntax" and len(src) > 40000:
            continue
        if not ok and progcheck_head(o) == "ERR Reference" and "STEPS 0" in o:
            ctx.count("scale-wrapped-not-judged")      # its functions call each other: as nested functions they cannot (no closures)
            continue
        if not ok:
            ctx.violate("the same small program means something else as the body of a function (%s)" % tag, source=src if len(src) < 3000 else src[:1200] + " ...(%d characters)... " % len(src) + src[-1200:], observed=o[:300], expected=want, family=tag)
    return fam


# behaviours the documentation leaves open (DESIGN 4.3): the specification oracle is silent there, but the MODEL is not -
# it follows the implementation, so a change of these behaviours still breaks the correspondence
UNSPECIFIED_BUT_MODELLED = [
    "stel v = 1; v = functie v(n) { n * 2 }; v(3)", "stel f = 0; { f = functie f(n) { n + 1 } } type(f)", "stel g = 5; functie zet() { g = functie g(n) { n * 2 }; 0 } zet(); type(g)",
    "stel verdubbel = 0; { verdubbel = functie verdubbel(n) { n * 2 } } print(\"na blok: {}\", type(verdubbel)); verdubbel(21)", "stel x = functie g() { 1 }; g()", "stel a = [functie h() { 2 }]; h()",
    "lengte([functie k() { 1 }, 2])", "functie buiten() { stel r = functie binnen(n) { n }; binnen(4) } buiten()", "functie f(a) { a } f(1, 2)", "functie f(a, b) { [a, b] } f(1)", "functie f(a, b) { stel c = 3; [a, b, c] } f(1, 2, 9)",
    "stel x = x; x", "functie f() { stel y = y; y } f()", "{ stel a = 5 } stel b = b; b", "stel print = 1; print", "stel lengte = 2; lengte + 1", "antwoord 5", "1; antwoord 2; 3", "stel a = [1, als ja { stop }]",
    "zolang ja { stel a = [1, als ja { stop }] }", "functie mk() { antwoord functie() { 1 } } mk() == mk()", "stel f = functie() { 1 }; stel g = functie() { 1 }; [f == g, f == f]", "functie dubbel(x) { x * 2 }(5)", "(functie drie(x) { x * 3 })(5)",
]


def run_unspecified(ctx, log):
    obs = runcorr.run_corr(ctx, UNSPECIFIED_BUT_MODELLED, log, budget=20000, stages=("compile", "eval"), label="unspecified-but-modelled", shard_size=30)
    for s_ in UNSPECIFIED_BUT_MODELLED:
        ctx.seen(("unspecified", s_))


def many_collections_family(quick):
    """N function returns (= N collections) before the interesting store: counters inside the collector may not wrap"""
    out = []
    for n in ((254, 255, 256, 257, 300, 511, 512, 513) if quick else (1, 127, 128, 129, 254, 255, 256, 257, 258, 511, 512, 513, 1023, 1024, 1025, 65535, 65536, 65537, 70000)):
        out.append(("collections:%d" % n, "functie niets() { 0 }; stel oud = [3.5, \"oud\"]; stel i = 0; zolang i < %d { i += 1; niets() } stel doos = [oud, 1.5 + 1.0]; oud = 0; niets(); stel vers = [9.25, \"vers\"]; niets(); stel in = doos[0]; [in[0], in[1], doos[1], vers[0]]" % n,
                    [3.5, "oud", 2.5, 9.25]))
        out.append(("collections:fn:%d" % n, "functie niets() { 0 }; functie werk(k) { stel oud = [3.5]; stel i = 0; zolang i < k { i += 1; niets() } stel doos = [oud, \"s\"]; oud = 0; niets(); stel vers = [9.25]; niets(); stel in = doos[0]; [in[0], doos[1], vers[0]] } werk(%d)" % n,
                    [3.5, "s", 9.25]))
    return out


SCALE_PARTS.update({"collections": many_collections_family})
