"""Shared by the program-level properties (C01, C02, C09-C13, C16): generate sources, run the
implementation, compare with the model (correspondence) and with Sem.v (specification oracle)."""
import vlib, runcorr, genwf, nlast


def gen_sources(ctx, n, with_value_out=None, **kw):
    """with_value_out: a list that receives, per program, whether its last statement is an expression statement
    (only then is the program's VALUE specified, DESIGN.md 4.3 item 1)"""
    out, asts = [], []
    for _ in range(n):
        p, st = genwf.gen_program(ctx.rng, **kw)
        wv = bool(st.pop("__ends_with_value", 1))
        if with_value_out is not None:
            with_value_out.append(wv)
        for k, v in st.items():
            ctx.count("gen:" + k, v)
        asts.append(p)
        out.append(nlast.to_source(p))
    return out, asts


def pipeline(ctx, sources, log, budget=20000, stages=("compile", "eval"), sem=True, label="programs", with_value=None, shard_size=150, what="the program's value, output or error differs from what its source denotes (Sem.v)"):
    """correspondence with Compiler.v/VM.v + specification oracle.  Returns the observations."""
    obs = runcorr.run_corr(ctx, sources, log, budget=budget, stages=stages, label=label, shard_size=shard_size)
    if sem:
        for i, impl, spec in runcorr.run_sem(ctx, sources, obs["eval"], log, label=label + "-sem", with_value=with_value):
            ctx.violate(what, source=sources[i], observed=impl, specification=spec)
    return obs


def head(o):
    return o.split(" | ")[0]


def out_of(o):
    p = o.split(" | ")
    return p[1] if len(p) > 1 else ""


def visible(o):
    """what a user observes of one evaluation: result (functions by kind only), output"""
    return runcorr.canon_sem(o)


def replay_source(ctx, data, log, budget=20000):
    src = data.get("source")
    if not src:
        log("nothing to replay: %s" % (data.get("what") or data.get("kind")))
        return
    o = vlib.nlh("eval", ["%d %s" % (budget, vlib.hexs(src))], tag=ctx.prop.lower() + "r")[0]
    log("source: %s\nimplementation now: %s\nrecorded: %s\nspecification: %s" % (src, o, data.get("observed", data.get("impl")), data.get("specification", data.get("model"))))
    exp = data.get("expected")
    if exp is not None and visible(o) != exp:
        ctx.violate("replayed: still differs from the expected observation", source=src, observed=visible(o), expected=exp)


def deep_recursion_family():
    """Recursions that drive the operand stack across its 16-bit limit at every alignment: p parameters, l own
    locals, m pending operands per level.  Each returns (source, value it has if it is allowed to finish): every
    level adds to an accumulator parameter (p >= 2) and to the pending additions, and the innermost activation checks
    its own parameters.  The machine may answer with the recursion-limit error instead - never with another value."""
    out = []
    for p in (1, 2, 3):
        for l in (0, 1, 2):
            for m in (0, 1, 2):
                per = p + l + m + 1
                for depth in (300, 66000 // per + 40, 66000 // max(1, per - 1) + 40, 33000, 70000):
                    params = ["n"] + (["acc"] if p >= 2 else []) + (["mark"] if p >= 3 else [])
                    args = ["n - 1"] + (["acc + 2"] if p >= 2 else []) + (["mark"] if p >= 3 else [])
                    locs = "".join("stel w%d = n; " % i for i in range(l))
                    base = "acc" if p >= 2 else "5"
                    if p >= 3:
                        base = "als mark == 77 { %s } anders { 0 - 1 }" % base
                    expr = "f(%s)" % ", ".join(args)
                    for _ in range(m):
                        expr = "1 + (%s)" % expr
                    first = [str(depth)] + (["0"] if p >= 2 else []) + (["77"] if p >= 3 else [])
                    src = "functie f(%s) { %sals n == 0 { antwoord %s } %s } f(%s)" % (", ".join(params), locs, base, expr, ", ".join(first))
                    out.append((src, m * depth + (2 * depth if p >= 2 else 5)))
    return out
