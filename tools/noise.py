"""Malformed and mutated inputs (C02, C05): random token sequences over the language's vocabulary
(read from the regenerated coq/gen/Tables.v), token-level edits of well-formed programs, truncations
at every byte offset, Unicode / byte noise."""
import os, re
import nlast

ROOT = os.path.dirname(os.path.dirname(os.path.abspath(__file__)))


def vocabulary():
    src = open(os.path.join(ROOT, "coq", "gen", "Tables.v"), encoding="utf-8").read()
    kw = re.findall(r'\("(\w+)", K\w+\)', re.search(r"Definition keywords.*?\.\n", src, re.S).group(0))
    singles = [chr(int(c)) for c in re.findall(r"\((\d+)%N, K\w+\)", re.search(r"Definition single_tokens.*?\.\n", src, re.S).group(0))]
    doubles = []
    for a, b in re.findall(r"\((\d+)%N, (\d+)%N, K\w+", re.search(r"Definition double_tokens.*?\.\n", src, re.S).group(0)):
        doubles += [chr(int(a)) + chr(int(b)), chr(int(a))]
    names = re.findall(r'\("(\w+)", B\w+\)', re.search(r"Definition builtin_names.*?\.\n", src, re.S).group(0))
    return dict(keywords=kw, singles=singles, doubles=sorted(set(doubles)), builtins=names)


LITS = ['"caf\\é"', '"\\🇳x"', '"a\\', '"\\q\\é\\"', "0", "1", "2", "10", "42", "1.5", "2.", "0.25", '"a"', '""', '"x{}y"', '"é"', "a", "b", "x", "f", "teller", "_", "é",
        "99999999999999999999", "1152921504606846975", "1152921504606846976", '"\\n"', '"\\\\"', "/", "// c\n", "#", "№", '"open']


def random_tokens(rng, n, vocab):
    pool = vocab["keywords"] * 3 + vocab["singles"] * 2 + vocab["doubles"] * 2 + vocab["builtins"] + LITS * 2
    return [rng.choice(pool) for _ in range(n)]


def mutate_tokens(rng, toks, vocab, k=1):
    toks = list(toks)
    for _ in range(k):
        if not toks:
            break
        i = rng.randrange(len(toks))
        c = rng.randrange(4)
        if c == 0:
            del toks[i]
        elif c == 1:
            toks.insert(i, toks[i])
        elif c == 2 and len(toks) > 1:
            j = rng.randrange(len(toks))
            toks[i], toks[j] = toks[j], toks[i]
        else:
            toks[i] = random_tokens(rng, 1, vocab)[0]
    return toks


def render(toks):
    return nlast.render(toks)


def truncations(src):
    b = src.encode("utf-8")
    return [b[:i].decode("utf-8", "replace") for i in range(len(b) + 1)]


NOISE_CHARS = [chr(c) for c in list(range(32, 127)) + [9, 10, 13, 0x85, 0xA0, 0xE9, 0x3B1, 0x416, 0x2028, 0x200E, 0x1F1F3, 0x10FFFF, 0, 1, 0x7F, 0xFFFD, 0x661]]


def unicode_noise(rng, n):
    return "".join(rng.choice(NOISE_CHARS) for _ in range(n))


SOUP = list("0123456789..,;(){}[]+-*/%<>=!&|\"\\ \n_aeén") + ["als", "stel", "ja", "//", "1.5", "functie"]


def char_soup(rng, n):
    """texts over the language's own characters, no separators: adjacent tokens fuse as the lexer pleases"""
    return "".join(rng.choice(SOUP) for _ in range(n))


def glue_tokens(rng, toks):
    """tokens written with separators dropped at random, whatever that does to them"""
    out = []
    for t in toks:
        out.append(t)
        if rng.random() < 0.4:
            out.append(" ")
    return "".join(out)
