"""Type-directed generator of WELL-FORMED, TERMINATING Nederlang programs (DESIGN.md section 3.2, 4.3).

Programs are syntax trees in the tuple form of nlast.py.  The generator keeps a static environment
(name -> type) that follows the language's scoping rules, so that every name it mentions is declared,
visible and (mostly) of the right type; loops count a dedicated counter up to a small bound and
recursion counts an argument down, so every program terminates.  It never produces the excluded,
unspecified behaviours of DESIGN.md 4.3 (wrong-arity calls, stop/volgende in operand position,
self-referential initialisers, builtin names as variables, functions escaping their block, cyclic
arrays being printed, antwoord outside a function, a non-expression last statement).
With probability `p_err` an expression is replaced by one that raises a run-time error (type error,
zero divisor, index out of range, overflow), so error paths after partial output are covered too.

Types: "int" "bool" "float" "str" ("arr", elemtype) ("fn", [argtypes], rettype)
"""
from nlast import *

SMALL_INTS = [0, 1, 2, 3, 4, 5, 7, 10, 42, 100, 255, 1000]
BIG_INTS = [2 ** 31, 2 ** 59, 2 ** 60 - 1, 65535, 65536]
FLOATS = ["0.5", "1.5", "2.0", "2.25", "10.0", "0.1", "3.75", "100.5"]
STRS = ["", "a", "ab", "hallo", "é", "x{}y", "🇳🇱", "a b", "12", " 7 ", "nee", "{}"]


class Env:
    """Static scoping: contexts (function bodies) of scopes (blocks) of name -> type."""

    def __init__(self):
        self.ctx = [[{}]]          # ctx[0] = global context
        self.counter = 0
        self.loop_depth = [0]      # per context
        self.fn_ret = [None]       # return type of the function being generated, per context
        self.depth_fn = 0
        self.defining = set()
        self.all_names = []

    def fresh(self, base="v"):
        self.counter += 1
        return "%s%d" % (base, self.counter)

    def declare(self, name, ty):
        self.ctx[-1][-1][name] = ty
        if not name.startswith("i") and name not in self.all_names:
            self.all_names.append(name)

    def borrowed(self, rng, avoid=()):
        """a name that is already in use SOMEWHERE in the program (a global, a function, a parameter or local of
        another function, a nested function): collisions between the name spaces must not matter"""
        pool = [n for n in self.all_names if n not in self.defining and n not in avoid]
        return rng.choice(pool) if pool else None

    def push_scope(self):
        self.ctx[-1].append({})

    def pop_scope(self):
        self.ctx[-1].pop()

    def push_ctx(self, ret):
        self.ctx.append([{}])
        self.loop_depth.append(0)
        self.fn_ret.append(ret)

    def pop_ctx(self):
        self.ctx.pop()
        self.loop_depth.pop()
        self.fn_ret.pop()

    def visible(self):
        """name -> (type, is_local) following resolve(): current context innermost first, then globals.
        From inside a function only TOP-LEVEL-scope globals are offered (block-level globals could die
        before the function is called: 4.3 item 9)."""
        out = {}
        if len(self.ctx) > 1:
            for name, ty in self.ctx[0][0].items():
                # (a function written inside an open top-level block resolves a name that the block redeclares to the
                # block's variable: not offered, 4.3 item 9)
                if not any(name in sc for sc in self.ctx[0][1:]):
                    out[name] = ty
        for scope in self.ctx[-1]:
            for name, ty in scope.items():
                out[name] = ty
        return out

    def vars_of(self, pred):
        return [n for n, t in self.visible().items() if pred(t)]


class Gen:
    def __init__(self, rng, p_err=0.03, alloc=0.3, max_depth=4, floats=True, prints=True, loops=True, funcs=True, collide=0.0):
        self.rng, self.p_err, self.alloc, self.max_depth = rng, p_err, alloc, max_depth
        self.collide = collide
        self.floats, self.prints, self.loops, self.funcs = floats, prints, loops, funcs
        self.env = Env()
        self.stats = {}

    def note(self, k):
        self.stats[k] = self.stats.get(k, 0) + 1

    # ------------------------------------------------------------ expressions by type
    def lit(self, ty):
        r = self.rng
        if ty == "null":
            return ("if", ("bool", False), [("expr", ("int", 1))], None)
        if ty == "int":
            return ("int", r.choice(SMALL_INTS) if r.random() < 0.9 else r.choice(BIG_INTS))
        if ty == "bool":
            return ("bool", r.random() < 0.5)
        if ty == "float":
            return ("float", r.choice(FLOATS))
        if ty == "str":
            return ("str", r.choice(STRS))
        if ty[0] == "arr":
            return ("array", [self.expr(ty[1], 0) for _ in range(r.randint(0, 3))])
        if ty[0] == "fn":
            return self.fn_literal(ty, "")
        raise ValueError(ty)

    def error_expr(self, ty):
        """an expression that raises a run-time error"""
        r = self.rng
        self.note("error-injected")
        c = r.randint(0, 5)
        if c == 0:
            return ("infix", "/", ("int", 1), ("int", 0))
        if c == 1:
            return ("infix", "+", ("int", 1), ("bool", True))
        if c == 2:
            return ("index", ("array", [("int", 1)]), ("int", 5))
        if c == 3:
            return ("infix", "*", ("int", 2 ** 60 - 1), ("int", 2))
        if c == 4:
            return ("call", ("id", "int"), [("str", "x")])
        return ("prefix", "-", ("str", "a"))

    def expr(self, ty, d):
        r = self.rng
        if r.random() < self.p_err:
            return self.error_expr(ty)
        cands = self.env.vars_of(lambda t: t == ty)
        if d <= 0 or r.random() < 0.25:
            if cands and r.random() < 0.6:
                return ("id", r.choice(cands))
            return self.lit(ty)
        c = r.random()
        if cands and c < 0.15:
            return ("id", r.choice(cands))
        if c < 0.19 and ty in ("int", "bool", "str", "float"):
            av = [v for v in cands if not v.startswith("i")]
            if av:
                # an assignment is an expression: its value is the value assigned
                self.note("assign-as-value")
                return ("assign", ("id", r.choice(av)), self.expr(ty, d - 1))
        # a call of a visible function returning ty
        fns = [n for n, t in self.env.visible().items() if isinstance(t, tuple) and t[0] == "fn" and t[2] == ty and n not in self.env.defining]
        if fns and c < 0.3:
            f = r.choice(fns)
            fty = self.env.visible()[f]
            self.note("call")
            return ("call", ("id", f), [self.expr(a, d - 1) for a in fty[1]])
        # element of an array variable / literal
        arrs = self.env.vars_of(lambda t: t == ("arr", ty))
        if arrs and c < 0.4:
            a = r.choice(arrs)
            self.note("index-get")
            # index guarded by length: a[i % lengte(a)] would fail on empty arrays; use a literal-safe form
            return ("if", ("infix", ">", ("call", ("id", "lengte"), [("id", a)]), ("int", 0)),
                    [("expr", ("index", ("id", a), r.choice([("int", 0), ("int", -1)])))],
                    [("expr", self.lit(ty))])
        if c < 0.435:
            # if as a value
            self.note("if-value")
            return ("if", self.expr("bool", d - 1), self.value_block(ty, d - 1), self.value_block(ty, d - 1))
        if ty == "int":
            k = r.random()
            if k < 0.55:
                op = r.choice(["+", "-", "*", "+", "-"])
                return ("infix", op, self.expr("int", d - 1), self.expr("int", d - 1) if op != "*" else ("int", r.choice([0, 1, 2, 3])))
            if k < 0.7:
                return ("infix", r.choice(["/", "%"]), self.expr("int", d - 1), ("int", r.choice([1, 2, 3, 7])))
            if k < 0.78:
                return ("prefix", "-", self.expr("int", d - 1))
            if k < 0.86:
                s = self.env.vars_of(lambda t: t == "str" or (isinstance(t, tuple) and t[0] == "arr"))
                if s:
                    return ("call", ("id", "lengte"), [("id", r.choice(s))])
                return ("call", ("id", "lengte"), [self.expr("str", d - 1)])
            if k < 0.93:
                return ("call", ("id", "int"), [r.choice([self.expr("bool", d - 1), ("str", r.choice(["12", "-3", " 7 "])), self.expr("int", d - 1)])])
            return self.lit("int")
        if ty == "bool":
            k = r.random()
            if k < 0.45:
                t2 = r.choice(["int", "int", "str"] + (["float"] if self.floats else []))
                return ("infix", r.choice(["<", "<=", ">", ">=", "==", "!="]), self.expr(t2, d - 1), self.expr(t2, d - 1))
            if k < 0.65:
                return ("infix", r.choice(["&&", "||"]), self.expr("bool", d - 1), self.expr("bool", d - 1))
            if k < 0.8:
                return ("prefix", "!", self.expr("bool", d - 1))
            if k < 0.9:
                return ("call", ("id", "bool"), [self.expr(r.choice(["int", "str"]), d - 1)])
            return self.lit("bool")
        if ty == "float":
            k = r.random()
            if k < 0.6:
                return ("infix", r.choice(["+", "-", "*", "/"]), self.expr("float", d - 1), self.expr("float", d - 1))
            if k < 0.8:
                return ("call", ("id", "float"), [self.expr("int", d - 1)])
            return self.lit("float")
        if ty == "str":
            k = r.random()
            if k < 0.3:
                t2 = r.choice(["int", "bool", "str"] + (["float"] if self.floats else []))
                return ("call", ("id", "string"), [self.expr(t2, d - 1)])
            if k < 0.45:
                return ("call", ("id", "type"), [self.expr(r.choice(["int", "bool", "str", ("arr", "int")]), d - 1)])
            if k < 0.6:
                s = self.env.vars_of(lambda t: t == "str")
                if s:
                    v = r.choice(s)
                    return ("if", ("infix", ">", ("call", ("id", "lengte"), [("id", v)]), ("int", 0)),
                            [("expr", ("index", ("id", v), r.choice([("int", 0), ("int", -1)])))], [("expr", ("str", "leeg"))])
            return self.lit("str")
        if ty[0] == "arr":
            return self.lit(ty)
        if ty[0] == "fn":
            return self.lit(ty)
        if ty == "null":
            return self.lit(ty)
        raise ValueError(ty)

    def value_block(self, ty, d):
        """a block whose value is an expression of type ty"""
        self.env.push_scope()
        saved_loop = self.env.loop_depth[-1]
        self.env.loop_depth[-1] = 0          # stop/volgende in operand position: excluded (4.3 item 6)
        b = []
        if d > 0 and self.rng.random() < 0.3:
            b += self.stmts(1, d - 1)
        b.append(("expr", self.expr(ty, d)))
        self.env.loop_depth[-1] = saved_loop
        self.env.pop_scope()
        return b

    def rand_type(self, allow_fn=False, d=1):
        r = self.rng
        c = r.random()
        if c < 0.4:
            return "int"
        if c < 0.55:
            return "bool"
        if c < 0.7:
            return "str"
        if c < 0.78 and self.floats:
            return "float"
        if c < 0.95 or not allow_fn:
            return ("arr", r.choice(["int", "str", "int"] + ([("arr", "int")] if d > 0 else [])))
        return ("fn", [r.choice(["int", "bool", "str"]) for _ in range(r.randint(0, 2))], r.choice(["int", "str", "bool"]))

    # ------------------------------------------------------------ functions
    def fn_literal(self, fty, name):
        """functie name(params) { body } of type fty; recursion-free unless it counts a parameter down"""
        env = self.env
        params = []
        for _ in fty[1]:
            b = env.borrowed(self.rng, avoid=params + [name]) if self.rng.random() < self.collide else None
            if b:
                self.note("collide-param")
            params.append(b or env.fresh("p"))
        if name:
            env.declare(name, fty)
            env.defining.add(name)
        env.push_ctx(fty[2])
        env.depth_fn += 1
        for p, t in zip(params, fty[1]):
            env.declare(p, t)
        body = []
        d = max(0, self.max_depth - 1 - env.depth_fn)
        # optional counted recursion on the first int parameter (global named functions only: a nested
        # named function cannot see itself, DESIGN.md 4.2)
        if name and len(env.ctx) == 2 and fty[1] and fty[1][0] == "int" and self.rng.random() < 0.5:
            p0 = params[0]
            base = self.expr(fty[2], 0)
            rec_args = [("infix", "-", ("id", p0), ("int", 1))] + [self.expr(t, 0) for t in fty[1][1:]]
            body.append(("expr", ("if", ("infix", "<=", ("id", p0), ("int", 0)), [("ret", base)], None)))
            body.append(("expr", ("if", ("infix", ">", ("id", p0), ("int", 6)), [("ret", base)], None)))
            self.note("recursive-fn")
            rec = ("call", ("id", name), rec_args)
            if fty[2] == "int":
                body.append(("ret", ("infix", "+", rec, ("int", 1))) if self.rng.random() < 0.5 else ("expr", ("infix", "+", ("int", 1), rec)))
            else:
                body.append(("expr", rec))
        else:
            if fty[2] == "null" and self.rng.random() < 0.15:
                self.note("empty-function")          # a stub: parameters, no body at all
                env.depth_fn -= 1
                env.pop_ctx()
                env.defining.discard(name)
                self.note("fn")
                return ("fn", name, params, [])
            body += self.stmts(self.rng.randint(0, 3), d)
            if fty[2] == "null":
                # a procedure: the body ends in a statement that is not an expression (value-less return)
                self.note("procedure")
                tail = self.stmts(1, 0)
                if not tail or tail[-1][0] == "expr":
                    tail = [("let", env.fresh(), self.expr(self.rand_type(d=0), 1))]
                body += tail
            elif self.rng.random() < 0.5:
                body.append(("ret", self.expr(fty[2], d)))
                if self.rng.random() < 0.25:
                    # unreachable statements after antwoord are still compiled (and must be well scoped)
                    self.note("dead-code-after-return")
                    body += self.stmts(self.rng.randint(1, 2), 1)
            else:
                body.append(("expr", self.expr(fty[2], d)))
        env.depth_fn -= 1
        env.pop_ctx()
        env.defining.discard(name)
        self.note("fn")
        return ("fn", name, params, body)

    # ------------------------------------------------------------ statements
    def stmt(self, d):
        r = self.rng
        env = self.env
        c = r.random()
        in_loop = env.loop_depth[-1] > 0
        in_fn = len(env.ctx) > 1
        if c < 0.22:
            ty = self.rand_type(allow_fn=self.funcs and not in_fn and len(env.ctx[0]) == 1, d=d)
            name = env.fresh()
            if r.random() < 0.15:
                same = [n for n, t in env.ctx[-1][-1].items()]
                if same:
                    name = r.choice(same)          # redeclaration in the same block
                    self.note("redeclare-same-scope")
            elif r.random() < 0.2:
                outer = [n for n in env.visible() if n not in env.ctx[-1][-1]]
                if outer:
                    name = r.choice(outer)         # shadowing
                    self.note("shadow")
            elif r.random() < self.collide:
                b = env.borrowed(r)
                if b:
                    name = b
                    self.note("collide-let")
            if isinstance(ty, tuple) and ty[0] == "fn":
                # stel f = functie(...) {...}: the name is declared before the literal is evaluated, so a body that
                # mentions the name would call ITSELF: always a fresh name (no redeclaration / shadowing here)
                name = env.fresh()
                e = self.fn_literal(ty, "")
                env.declare(name, ty)
                return ("let", name, e)
            e = self.expr(ty, d)
            if mentions(e, name):
                name = env.fresh()             # a variable read inside its own initialiser: excluded (4.3 item 7)
            env.declare(name, ty)
            return ("let", name, e)
        if c < 0.37:
            vs = [v for v in env.vars_of(lambda t: t in ("int", "bool", "str", "float") or (isinstance(t, tuple) and t[0] == "arr"))
                  if not v.startswith("i")]          # loop counters are only touched by their loop
            if vs:
                v = r.choice(vs)
                ty = env.visible()[v]
                if ty == "int" and r.random() < 0.5:
                    self.note("op-assign")
                    return ("expr", ("assign", ("id", v), ("infix", r.choice(["+", "-", "*"]), ("id", v), ("int", r.choice([1, 2, 3])))))
                self.note("assign")
                return ("expr", ("assign", ("id", v), self.expr(ty, d)))
        if c < 0.47:
            arrs = env.vars_of(lambda t: isinstance(t, tuple) and t[0] == "arr")
            strs = env.vars_of(lambda t: t == "str")
            if arrs and r.random() < 0.7:
                a = r.choice(arrs)
                ety = env.visible()[a][1]
                self.note("index-set")
                return ("expr", ("if", ("infix", ">", ("call", ("id", "lengte"), [("id", a)]), ("int", 0)),
                                 [("expr", ("assign", ("index", ("id", a), r.choice([("int", 0), ("int", -1)])), self.expr(ety, d - 1)))], None))
            if strs:
                s = r.choice(strs)
                self.note("string-set")
                return ("expr", ("if", ("infix", ">", ("call", ("id", "lengte"), [("id", s)]), ("int", 0)),
                                 [("expr", ("assign", ("index", ("id", s), r.choice([("int", 0), ("int", -1)])), self.expr("str", d - 1)))], None))
        if c < 0.57 and self.prints:
            n = r.randint(0, 3)
            fmt = " ".join(["{}"] * n) if r.random() < 0.8 else r.choice(["{}", "a{}b{}", "geen", "{} {} {} {}"])
            self.note("print")
            args = [self.expr(r.choice(["int", "bool", "str", ("arr", "int")] + (["float"] if self.floats else [])), d - 1) for _ in range(n)]
            return ("expr", ("call", ("id", "print"), [("str", fmt)] + args))
        if c < 0.67 and d > 0:
            self.note("if-stmt")
            alt = None
            k = r.random()
            if k < 0.35:
                alt = self.block(d - 1)
            elif k < 0.6:
                alt = [("expr", ("if", self.expr("bool", d - 1), self.block(d - 1), self.block(d - 1) if r.random() < 0.5 else None))]
                self.note("else-if")
            return ("expr", ("if", self.expr("bool", d - 1), self.block(d - 1), alt))
        if c < 0.77 and d > 0 and self.loops:
            return self.loop(d)
        if c < 0.82 and d > 0:
            self.note("block-stmt")
            return ("block", self.block(d - 1))
        if c < 0.87 and in_loop:
            self.note("break" if r.random() < 0.5 else "continue")
            # guarded, so that loops still make progress (the counter is incremented first thing)
            return ("expr", ("if", self.expr("bool", d - 1), [r.choice([("break",), ("continue",)])], None))
        if c < 0.9 and in_fn and env.fn_ret[-1] not in (None, "null"):
            self.note("early-return")
            k = r.random()
            rt = env.fn_ret[-1]
            if k < 0.5:
                return ("expr", ("if", self.expr("bool", d - 1), [("ret", self.expr(rt, d - 1))], None))
            if k < 0.75:
                # the returning branch last: a value branch and a returning branch side by side
                return ("expr", ("if", self.expr("bool", d - 1), [("expr", self.expr(rt, d - 1))], [("ret", self.expr(rt, d - 1))]))
            if k < 0.9:
                return ("expr", ("if", self.expr("bool", d - 1), [("ret", self.expr(rt, d - 1))], [("expr", self.expr(rt, d - 1))]))
            return ("expr", ("if", self.expr("bool", d - 1), [("ret", self.expr(rt, d - 1))], [("ret", self.expr(rt, d - 1))]))
        if c < 0.96 and self.funcs and d > 0 and env.depth_fn < 2:
            fty = ("fn", [r.choice(["int", "int", "bool", "str", ("arr", "int")]) if r.random() > 0.12 else ("fn", ["int"], "int") for _ in range(r.randint(0, 3))], r.choice(["int", "str", "bool", ("arr", "int"), "null"]))
            if any(isinstance(t, tuple) and t[0] == "fn" for t in fty[1]):
                self.note("fn-typed-parameter")
            name = env.fresh("f")
            if r.random() < self.collide:
                b = env.borrowed(r)
                if b:
                    name = b
                    self.note("collide-fn")
            self.note("named-fn")
            f = ("expr", self.fn_literal(fty, name))
            if r.random() < 0.6:
                # call it right away: as a statement, or bound by a declaration (the callee's value may be null)
                call = ("call", ("id", name), [self.expr(a, 1) for a in fty[1]])
                self.note("call")
                if r.random() < 0.5:
                    v = env.fresh()
                    env.declare(v, "null" if fty[2] == "null" else fty[2])
                    return ("block2", f, ("let", v, call))
                return ("block2", f, ("expr", call))
            return f
        return ("expr", self.expr(self.rand_type(d=d), d))

    def loop(self, d):
        env = self.env
        r = self.rng
        cnt = env.fresh("i")
        bound = r.choice([0, 1, 2, 3, 5])
        env.declare(cnt, "int")
        self.note("loop")
        env.loop_depth[-1] += 1
        env.push_scope()
        body = [("expr", ("assign", ("id", cnt), ("infix", "+", ("id", cnt), ("int", 1))))]
        body += self.stmts(r.randint(0, 3), d - 1)
        env.pop_scope()
        env.loop_depth[-1] -= 1
        w = ("while", ("infix", "<", ("id", cnt), ("int", bound)), body)
        k = r.random()
        if k < 0.1:
            self.note("loop-literal-false")
            w = ("while", ("bool", False), body)
        elif k < 0.2:
            # zolang ja { i = i + 1; als i > n { stop } ... }: leaves by `stop` only
            self.note("loop-literal-true")
            w = ("while", ("bool", True), [body[0], ("expr", ("if", ("infix", ">", ("id", cnt), ("int", bound)), [("break",)], None))] + body[1:])
        # the counter declaration and the loop are two statements of the enclosing block
        return ("block2", ("let", cnt, ("int", 0)), ("expr", w))

    def block(self, d):
        self.env.push_scope()
        b = self.stmts(self.rng.randint(0, 3), d)
        self.env.pop_scope()
        return b

    def stmts(self, n, d):
        out = []
        for _ in range(n):
            s = self.stmt(d)
            if s[0] == "block2":
                out += [s[1], s[2]]
            else:
                out.append(s)
        return out

    def program(self, n=None, end_with_statement=0.0):
        n = n if n is not None else self.rng.randint(2, 7)
        b = self.stmts(n, self.max_depth)
        b.append(("expr", self.expr(self.rand_type(), 2)))
        self.ends_with_value = True
        if self.rng.random() < end_with_statement:
            # the program's value is then unspecified (DESIGN.md 4.3 item 1); output, errors and memory safety are not
            self.note("ends-with-statement")
            fns = [n for n, t in self.env.visible().items() if isinstance(t, tuple) and t[0] == "fn"]
            if fns and self.rng.random() < 0.7:
                f = self.rng.choice(fns)
                fty = self.env.visible()[f]
                b.append(("let", self.env.fresh(), ("call", ("id", f), [self.expr(a, 1) for a in fty[1]])))
            else:
                b.append(("let", self.env.fresh(), self.expr(self.rand_type(), 1)))
            self.ends_with_value = False
        return b


def mentions(t, name):
    if isinstance(t, tuple):
        if len(t) == 2 and t[0] == "id" and t[1] == name:
            return True
        return any(mentions(x, name) for x in t)
    if isinstance(t, list):
        return any(mentions(x, name) for x in t)
    return False


def gen_program(rng, **kw):
    if "p_err" not in kw:
        kw["p_err"] = 0.015 if rng.random() < 0.3 else 0.0
    ews = kw.pop("end_with_statement", 0.0)
    g = Gen(rng, **kw)
    p = g.program(end_with_statement=ews)
    g.stats["__ends_with_value"] = 1 if g.ends_with_value else 0
    return p, g.stats


def fix_block2(b):
    """(defensive) flatten stray block2 nodes that ended up nested in value blocks"""
    out = []
    for s in b:
        if s[0] == "block2":
            out += [s[1], s[2]]
        else:
            out.append(s)
    return out
