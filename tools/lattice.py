"""The boundary lattice of integers used by C06 and C15."""
MAX_INT = 2 ** 60 - 1
MIN_INT = -2 ** 60


def int_lattice():
    s = {0, 1, -1, 2, -2, 7, -7, MAX_INT, MIN_INT, MAX_INT - 1, MIN_INT + 1}
    for k in range(0, 61):
        for d in (-1, 0, 1):
            for sign in (1, -1):
                v = sign * (2 ** k + d)
                if MIN_INT <= v <= MAX_INT:
                    s.add(v)
    return sorted(s)


def rand_int(rng):
    k = rng.choice([3, 8, 16, 31, 32, 33, 59, 60, 61])
    v = rng.getrandbits(k)
    if rng.random() < 0.5:
        v = -v
    return max(MIN_INT, min(MAX_INT, v))


FLOAT_SPECIALS = [
    "0000000000000000", "8000000000000000", "7ff0000000000000", "fff0000000000000", "7ff8000000000000",
    "fff8000000000001", "7ff0000000000001", "0000000000000001", "8000000000000001", "000fffffffffffff",
    "0010000000000000", "3ff0000000000000", "bff0000000000000", "7fefffffffffffff", "ffefffffffffffff",
    "3fe0000000000000", "4000000000000000", "3fb999999999999a", "4340000000000000", "43e0000000000000",
    "c3e0000000000000", "43b0000000000000", "c3b0000000000000", "3ff8000000000000", "4004000000000000",
]


def rand_float_bits(rng):
    if rng.random() < 0.3:
        return rng.choice(FLOAT_SPECIALS)
    if rng.random() < 0.5:
        # moderate magnitudes
        import struct
        x = (rng.random() - 0.5) * 10 ** rng.randint(-3, 20)
        return struct.pack(">d", x).hex()
    return "%016x" % rng.getrandbits(64)
