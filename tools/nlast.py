"""Nederlang syntax trees in Python: canonical S-expression (the one harness/src/render.rs and
corr/Render.v produce), a printer with minimal parentheses that knows the actual rules of
parser.rs (DESIGN.md, C07), and a renderer with random layout.  The printer is part of the
*generator*; what is proved is coq/spec/Printer.v, and the two are compared on every C07 run."""
import struct

RANK = {"=": 1, "||": 2, "&&": 2, "==": 3, "!=": 3, "<": 4, ">": 4, "<=": 4, ">=": 4, "+": 5, "-": 5, "*": 6, "/": 6, "%": 6}
OPNAME = {"+": "Add", "-": "Subtract", "*": "Multiply", "/": "Divide", "%": "Modulo", "<": "Lt", "<=": "Lte", ">": "Gt",
          ">=": "Gte", "==": "Eq", "!=": "Neq", "&&": "And", "||": "Or"}
BINOPS = list(OPNAME)
INF = 99
KEYWORDS = {"als", "antwoord", "zolang", "anders", "functie", "stel", "ja", "nee", "volgende", "stop"}
BUILTINS = ["print", "type", "bool", "float", "int", "string", "lengte"]


def cps(s):
    return "-" if s == "" else ".".join(str(ord(c)) for c in s)


def float_bits(text):
    return struct.pack(">d", float(text)).hex()


# ------------------------------------------------------------------ canonical S-expression

def sx_block(b):
    return "(" + " ".join(sx_stmt(s) for s in b) + ")"


def sx_stmt(s):
    k = s[0]
    if k == "let":
        return 'Let("%s" %s)' % (cps(s[1]), sx_expr(s[2]))
    if k == "ret":
        return "Return(%s)" % sx_expr(s[1])
    if k == "expr":
        return "Expr(%s)" % sx_expr(s[1])
    if k == "block":
        return "Block(%s)" % sx_block(s[1])
    if k == "break":
        return "Break"
    if k == "continue":
        return "Continue"
    raise ValueError(s)


def sx_expr(e):
    k = e[0]
    if k == "int":
        return "Int(%d)" % e[1]
    if k == "float":
        return "Float(F%s)" % float_bits(e[1])
    if k == "bool":
        return "Bool(%s)" % ("true" if e[1] else "false")
    if k == "str":
        return 'String("%s")' % cps(e[1])
    if k == "id":
        return 'Identifier("%s")' % cps(e[1])
    if k == "infix":
        return "Infix(%s %s %s)" % (sx_expr(e[2]), OPNAME[e[1]], sx_expr(e[3]))
    if k == "prefix":
        return "Prefix(%s %s)" % ("Not" if e[1] == "!" else "Subtract", sx_expr(e[2]))
    if k == "if":
        alt = "None" if e[3] is None else "Some(%s)" % sx_block(e[3])
        return "If(%s %s %s)" % (sx_expr(e[1]), sx_block(e[2]), alt)
    if k == "fn":
        return 'Function("%s" (%s) %s)' % (cps(e[1]), " ".join('"%s"' % cps(p) for p in e[2]), sx_block(e[3]))
    if k == "call":
        return "Call(%s (%s))" % (sx_expr(e[1]), " ".join(sx_expr(a) for a in e[2]))
    if k == "assign":
        return "Assign(%s %s)" % (sx_expr(e[1]), sx_expr(e[2]))
    if k == "array":
        return "Array((%s))" % " ".join(sx_expr(a) for a in e[1])
    if k == "index":
        return "Index(%s %s)" % (sx_expr(e[1]), sx_expr(e[2]))
    if k == "while":
        return "While(%s %s)" % (sx_expr(e[1]), sx_block(e[2]))
    raise ValueError(e)


# ------------------------------------------------------------------ printer (token list)

def quote(s):
    out = '"'
    for c in s:
        if c == '"':
            out += '\\"'
        elif c == "\\":
            out += "\\\\"
        elif c == "\n":
            out += "\\n"
        elif c == "\t":
            out += "\\t"
        else:
            out += c
    return out + '"'


class Layout:
    """Source of layout choices. rng=None: minimal, deterministic layout."""

    def __init__(self, rng=None, extra_parens=0.0, drop_sep=0.0, chain=0.5, sugar=0.5):
        self.rng, self.extra_parens, self.drop_sep, self.chain, self.sugar = rng, extra_parens, drop_sep, chain, sugar

    def flip(self, p):
        return self.rng is not None and self.rng.random() < p


def head(e):
    if e[0] == "infix":
        return RANK[e[1]]
    if e[0] == "assign":
        return RANK["="]
    return INF


def open_(e):
    if e[0] == "infix":
        return RANK[e[1]]
    if e[0] == "assign":
        return RANK["="]
    if e[0] == "prefix":
        return RANK["-"] if e[1] == "-" else 0
    return INF


def starts_dangerous(tok):
    return tok in ("(", "[", "-")


def pr(e, p, f, L, stmt_tail_ok=False, no_extra=False):
    """Tokens of e in a context where its first token is read by parse_expr(p) and the token that
    follows has binding power at most f.  stmt_tail_ok: e is a whole expression statement after which
    an else-if chain may be left open."""
    need = head(e) <= p or open_(e) < f
    if need or (not no_extra and L.flip(L.extra_parens)):
        return ["("] + pr(e, 0, 0, L) + [")"]
    k = e[0]
    if k == "int":
        return [str(e[1])]
    if k == "float":
        return [e[1]]
    if k == "bool":
        return ["ja" if e[1] else "nee"]
    if k == "str":
        return [quote(e[1])]
    if k == "id":
        return [e[1]]
    if k == "infix":
        op = e[1]
        return pr(e[2], p, RANK[op], L) + [op] + pr(e[3], RANK[op], f, L)
    if k == "prefix":
        return [e[1]] + pr(e[2], RANK["-"] if e[1] == "-" else 0, f, L)
    if k == "assign":
        l, r = e[1], e[2]
        # a op= e sugar: exactly the desugared shape, and only where the operator token is accepted
        if (l[0] == "id" and r[0] == "infix" and r[2] == l and L.flip(L.sugar) and RANK[r[1]] > p and f == 0):
            return [l[1], r[1], "="] + pr(r[3], 0, f, L)
        return pr(l, p, RANK["="], L) + ["="] + pr(r, RANK["="], f, L)
    if k == "if":
        toks = ["als"] + pr(e[1], 0, 0, L) + pr_block(e[2], L)
        alt = e[3]
        if alt is not None:
            toks.append("anders")
            if (len(alt) == 1 and alt[0][0] == "expr" and alt[0][1][0] == "if" and stmt_tail_ok and f == 0
                    and (L.rng is None or L.flip(L.chain))):
                toks += pr(alt[0][1], 0, 0, L, stmt_tail_ok=True, no_extra=True)
            else:
                toks += pr_block(alt, L)
        return toks
    if k == "while":
        return ["zolang"] + pr(e[1], 0, 0, L) + pr_block(e[2], L)
    if k == "fn":
        toks = ["functie"] + ([e[1]] if e[1] else []) + ["("]
        toks += pr_list([[q] for q in e[2]], L, always_safe=True)
        return toks + [")"] + pr_block(e[3], L)
    if k == "call":
        return pr(e[1], 7, 8, L) + ["("] + pr_list([pr(a, 0, 0, L) for a in e[2]], L) + [")"]
    if k == "array":
        return ["["] + pr_list([pr(a, 0, 0, L) for a in e[1]], L) + ["]"]
    if k == "index":
        return pr(e[1], 7, 9, L) + ["["] + pr(e[2], 0, 0, L) + ["]"]
    raise ValueError(e)


def pr_list(items, L, always_safe=False):
    toks = []
    for i, it in enumerate(items):
        if i > 0:
            required = (not always_safe) and starts_dangerous(it[0])
            if required or not L.flip(L.drop_sep):
                toks.append(",")
        toks += it
    if items and L.flip(0.15):
        toks.append(",")           # a trailing comma is skipped as well
    return toks


def ends_in_expr(s):
    return s[0] in ("expr", "let", "ret")


def pr_stmt(s, L, last):
    k = s[0]
    if k == "let":
        return ["stel", s[1], "="] + pr(s[2], 0, 0, L)
    if k == "ret":
        return ["antwoord"] + pr(s[1], 0, 0, L)
    if k == "expr":
        return pr(s[1], 0, 0, L, stmt_tail_ok=last)
    if k == "block":
        return pr_block(s[1], L)
    if k == "break":
        return ["stop"]
    if k == "continue":
        return ["volgende"]
    raise ValueError(s)


def ends_with_open_chain(toks_stmt, s):
    return False


def pr_stmts(b, L):
    n = len(b)
    # a statement that may leave an else-if chain open is only printed that way when the next statement,
    # in its MINIMAL form, does not start with a dangerous token; whether a separator is required is then
    # decided on the tokens actually printed (a random layout may add leading parentheses)
    printed = []
    for i, s in enumerate(b):
        nxt = pr_stmt(b[i + 1], Layout(), True)[0] if i + 1 < n else None
        tail_ok = nxt is None or not starts_dangerous(nxt)
        printed.append(pr_stmt(s, L, tail_ok))
    toks = []
    for i, s in enumerate(b):
        st = printed[i]
        chain_open = s[0] == "expr" and s[1][0] == "if" and chain_is_open(st)
        if i + 1 < n:
            dangerous = starts_dangerous(printed[i + 1][0])
            if chain_open and dangerous:
                # the next statement got leading parentheses from the layout: close the chain instead
                st = pr_stmt(s, Layout(), False)
                chain_open = False
            toks += st
            required = ends_in_expr(s) and dangerous
            if required or not L.flip(L.drop_sep):
                toks.append(";")
        else:
            toks += st
            if L.flip(0.3):
                toks.append(";")
    return toks


def pr_stmt_first(s, L):
    return pr_stmt(s, Layout(), True)[0]


def chain_is_open(toks):
    # the statement's tokens end with a chain iff an `anders` is directly followed by `als` at depth 0
    depth = 0
    for i, t in enumerate(toks):
        if t in "([{":
            depth += 1
        elif t in ")]}":
            depth -= 1
        elif t == "anders" and depth == 0 and i + 1 < len(toks) and toks[i + 1] == "als":
            return True
    return False


def pr_block(b, L):
    return ["{"] + pr_stmts(b, L) + ["}"]


def print_program(b, L=None):
    return pr_stmts(b, L or Layout())


# ------------------------------------------------------------------ renderer

WS = [" ", " ", " ", "\t", "\n", "\n", "\r", "\x0b", "\x0c", "\u0085", "‎", "‏", " ", " "]


def wordlike(t):
    c = t[0]
    return c.isalpha() or c == "_" or c.isdigit()


def needs_sep(a, b):
    """True if writing token b directly after token a would lex differently."""
    if a[0] == '"' or b[0] == '"':
        # a string literal never fuses with a neighbour, except that a word directly after... nothing
        return False
    if wordlike(a) and wordlike(b):
        return True
    if (a[0].isdigit()) and b == ".":
        return True
    if a in ("=", "!", "<", ">") and b[0] == "=":
        return True
    if a == "/" and b[0] == "/":
        return True
    if a == "&" or a == "|":
        return True
    return False


# what a comment may contain: anything up to the end of the line - several multi-byte characters (byte length and character
# count differ by more than one), trailing backslashes, quotes, comment markers, code
COMMENT_TEXTS = ["", "x", "als stel }", '"', "é", "één Zoë over de coördinaten", "語語語", "🇳🇱🇳🇱 vlag", "ü", "éé", "ééé", "pad C:\\", "é\\", "\\", "\\\\", "a \\\"", '"open', "// nog een", "t = 99;", "x\t\ty", "€€€€€€€€"]


def render(tokens, rng=None, ws=0.0, comments=0.0):
    out = []
    prev = None
    for t in tokens:
        sep = ""
        if prev is not None:
            if needs_sep(prev, t) or rng is None or rng.random() > 0.35:
                sep = " " if rng is None else rng.choice(WS)
        if rng is not None:
            while rng.random() < ws:
                sep += rng.choice(WS)
            if rng.random() < comments:
                sep += rng.choice(["// ", "//", "/// "]) + rng.choice(COMMENT_TEXTS) + "\n"
        if prev == "/" and sep.startswith("/"):
            sep = " " + sep            # a comment directly after `/` would swallow the operator
        out.append(sep)
        out.append(t)
        prev = t
    if rng is not None and rng.random() < 0.3:
        out.append(rng.choice(WS))
    if rng is not None and rng.random() < comments:
        out.append(" // einde")
    return "".join(out)


def to_source(b, L=None, rng=None, ws=0.0, comments=0.0):
    return render(print_program(b, L), rng, ws, comments)
