#!/bin/sh
# Builds the framework from files on disk only (offline): the Rust harness against /repo's working
# tree with the `verif` feature (release and debug profiles) and the whole Coq development.
set -e
cd "$(dirname "$0")"
export CARGO_NET_OFFLINE=true CARGO_TARGET_DIR="$PWD/work/target"
mkdir -p work
python3 tools/translate.py
[ -f harness/Cargo.lock ] || cp /repo/Cargo.lock harness/Cargo.lock
(cd harness && cargo build --offline --release 2>&1 | tail -2 && cargo build --offline 2>&1 | tail -2)
# the crate's own command-line program WITHOUT the observation feature (production-binary differential, DESIGN 4.4)
cargo build --offline --release --bin nederlang --manifest-path /repo/Cargo.toml --target-dir "$PWD/work/target-prod" 2>&1 | tail -1
cd coq
coq_makefile -f _CoqProject -o Makefile >/dev/null
timeout 3000 make -j16 2>&1 | grep -E "^(COQC|make|Error|File)" | tail -40
