(* GCListLemmas.v - list-level facts used by GCProofs.v: the monadic fold, swap_remove,
   the survivors / victims of a bitmap, position_of / last_position, set_bit / get_bit. *)
From NL.Model Require Import GC.
From Coq Require Import Permutation Lia.
Local Open Scope nat_scope.

(** * Folding a fallible step over a list *)

Section FoldM.
  Context {A B : Type} (F : A -> B -> outcome A).

  Lemma foldM_not_ok : forall (vs : list B) (acc : outcome A),
    (forall a, acc <> Ok a) ->
    fold_left (fun acc v => do b <- acc; F b v) vs acc = acc.
  Proof.
    induction vs as [|v vs IH]; intros acc Hacc; simpl; [reflexivity|].
    destruct acc as [a| | |]; simpl; try (apply IH; intros a0 Hc; discriminate).
    exfalso; apply (Hacc a); reflexivity.
  Qed.

  Lemma foldM_ok_inv : forall (vs : list B) v a r,
    fold_left (fun acc v => do b <- acc; F b v) (v :: vs) (Ok a) = Ok r ->
    exists a1, F a v = Ok a1 /\ fold_left (fun acc v => do b <- acc; F b v) vs (Ok a1) = Ok r.
  Proof.
    intros vs v a r H; simpl in H.
    destruct (F a v) as [a1| | |] eqn:E.
    - exists a1; split; [reflexivity|exact H].
    - rewrite foldM_not_ok in H by (intros a0 Hc; discriminate); discriminate.
    - rewrite foldM_not_ok in H by (intros a0 Hc; discriminate); discriminate.
    - rewrite foldM_not_ok in H by (intros a0 Hc; discriminate); discriminate.
  Qed.

  (* invariant rule: P holds initially and every successful step preserves it *)
  Lemma foldM_inv : forall (P : A -> Prop) (vs : list B),
    (forall a v a', In v vs -> P a -> F a v = Ok a' -> P a') ->
    forall a r, P a -> fold_left (fun acc v => do b <- acc; F b v) vs (Ok a) = Ok r -> P r.
  Proof.
    intros P vs; induction vs as [|v vs IH]; intros Hstep a r Pa H.
    - simpl in H; inversion H; subst; exact Pa.
    - apply foldM_ok_inv in H; destruct H as [a1 [E1 H1]].
      apply (IH (fun a0 v0 a' Hin => Hstep a0 v0 a' (or_intror Hin)) a1 r); [|exact H1].
      apply (Hstep a v a1 (or_introl eq_refl) Pa E1).
  Qed.
End FoldM.

(** * firstn / skipn helpers *)

Lemma firstn_length_app : forall A (a b : list A), firstn (length a) (a ++ b) = a.
Proof. induction a as [|x a IH]; intros b; simpl; [destruct b; reflexivity | rewrite IH; reflexivity]. Qed.

Lemma skipn_length_app : forall A (a b : list A), skipn (length a) (a ++ b) = b.
Proof. induction a as [|x a IH]; intros b; simpl; [reflexivity | apply IH]. Qed.

Lemma nth_error_length_app : forall A (a b : list A) x, nth_error (a ++ x :: b) (length a) = Some x.
Proof. induction a as [|y a IH]; intros b x; simpl; [reflexivity | apply IH]. Qed.

(** * swap_remove *)

Lemma list_last_cases : forall A (s : list A), s = [] \/ exists s0 z, s = s0 ++ [z].
Proof.
  intros A s; induction s as [|z s0 _] using rev_ind; [left; reflexivity | right; eauto].
Qed.

Lemma swap_remove_split : forall A (pre : list A) x s,
  exists s', swap_remove (length pre) (pre ++ x :: s) = pre ++ s' /\ Permutation s' s.
Proof.
  intros A pre x s. unfold swap_remove. rewrite nth_error_length_app.
  destruct (list_last_cases A s) as [Hs | [s0 [z Hs]]]; subst s.
  - exists []. split; [|constructor].
    rewrite rev_unit. rewrite app_length; simpl.
    replace (length pre + 1 - 1) with (length pre) by lia.
    rewrite Nat.eqb_refl. rewrite firstn_length_app, app_nil_r. reflexivity.
  - exists (z :: s0). split; [|apply Permutation_cons_append].
    replace (pre ++ x :: s0 ++ [z]) with ((pre ++ x :: s0) ++ [z])
      by (rewrite <- app_assoc; reflexivity).
    rewrite rev_unit.
    replace (length ((pre ++ x :: s0) ++ [z])) with (length pre + 1 + length s0 + 1)
      by (repeat (rewrite app_length; simpl); lia).
    destruct (Nat.eqb_spec (length pre) (length pre + 1 + length s0 + 1 - 1)) as [Heq|_]; [lia|].
    rewrite <- app_assoc. rewrite firstn_length_app.
    replace (pre ++ (x :: s0) ++ [z]) with ((pre ++ [x]) ++ s0 ++ [z])
      by (rewrite <- app_assoc; reflexivity).
    replace (length pre + 1) with (length (pre ++ [x])) by (rewrite app_length; simpl; lia).
    rewrite skipn_length_app.
    replace (length (pre ++ [x]) + length s0 + 1 - 1 - length (pre ++ [x])) with (length s0) by lia.
    rewrite firstn_length_app. reflexivity.
Qed.

Lemma swap_remove_nth : forall A (l : list A) i x, nth_error l i = Some x ->
  exists pre s s', l = pre ++ x :: s /\ length pre = i
                   /\ swap_remove i l = pre ++ s' /\ Permutation s' s.
Proof.
  intros A l i x H. apply nth_error_split in H. destruct H as [pre [s [Hl Hlen]]].
  destruct (swap_remove_split A pre x s) as [s' [Hs Hp]].
  exists pre, s, s'. subst l. subst i. repeat split; assumption.
Qed.

(** * Survivors and victims of a bitmap *)

Fixpoint keep {A} (objs : list A) (bits : list bool) : list A :=
  match objs, bits with
  | x :: o, b :: r => if b then x :: keep o r else keep o r
  | _, _ => []
  end.

(* the victims in the order the sweep visits them: highest index first *)
Fixpoint dead_rev {A} (objs : list A) (bits : list bool) : list A :=
  match objs, bits with
  | x :: o, b :: r => dead_rev o r ++ (if b then [] else [x])
  | _, _ => []
  end.

Lemma keep_dead_perm : forall A (objs : list A) bits, length bits = length objs ->
  Permutation (keep objs bits ++ dead_rev objs bits) objs.
Proof.
  induction objs as [|x o IH]; intros bits Hlen; destruct bits as [|b r]; simpl in *; try discriminate.
  - constructor.
  - injection Hlen as Hlen. specialize (IH r Hlen). destruct b.
    + rewrite app_nil_r. simpl. constructor. exact IH.
    + rewrite app_assoc. eapply Permutation_trans; [apply Permutation_sym, Permutation_cons_append|].
      constructor. exact IH.
Qed.

Lemma in_keep : forall A (objs : list A) bits v, length bits = length objs ->
  (In v (keep objs bits) <-> exists i, nth_error objs i = Some v /\ get_bit i bits = true).
Proof.
  induction objs as [|x o IH]; intros bits v Hlen; destruct bits as [|b r]; simpl in *; try discriminate.
  - split; [intros []|intros [i [H _]]; destruct i; discriminate].
  - injection Hlen as Hlen. specialize (IH r v Hlen). split.
    + intros H. destruct b.
      * destruct H as [H|H]; [exists 0; subst; split; reflexivity|].
        apply IH in H. destruct H as [i [H1 H2]]. exists (S i); split; assumption.
      * apply IH in H. destruct H as [i [H1 H2]]. exists (S i); split; assumption.
    + intros [i [H1 H2]]. destruct i as [|i]; simpl in *.
      * unfold get_bit in H2; simpl in H2; subst b. inversion H1; subst. left; reflexivity.
      * assert (Hin : In v (keep o r)) by (apply IH; exists i; split; assumption).
        destruct b; [right|]; exact Hin.
Qed.

Lemma in_dead : forall A (objs : list A) bits v, length bits = length objs ->
  (In v (dead_rev objs bits) <-> exists i, nth_error objs i = Some v /\ get_bit i bits = false).
Proof.
  induction objs as [|x o IH]; intros bits v Hlen; destruct bits as [|b r]; simpl in *; try discriminate.
  - split; [intros []|intros [i [H _]]; destruct i; discriminate].
  - injection Hlen as Hlen. specialize (IH r v Hlen). split.
    + intros H. apply in_app_or in H. destruct H as [H|H].
      * apply IH in H. destruct H as [i [H1 H2]]. exists (S i); split; assumption.
      * destruct b; [destruct H|]. destruct H as [H|[]]. subst. exists 0; split; reflexivity.
    + intros [i [H1 H2]]. apply in_or_app. destruct i as [|i]; simpl in *.
      * unfold get_bit in H2; simpl in H2; subst b. inversion H1; subst. right; left; reflexivity.
      * left. apply IH. exists i; split; assumption.
Qed.

Lemma keep_incl : forall A (objs : list A) bits v, In v (keep objs bits) -> In v objs.
Proof.
  induction objs as [|x o IH]; intros bits v H; destruct bits as [|b r]; simpl in *; try contradiction.
  destruct b; [destruct H as [H|H]; [left; exact H|]|]; right; eapply IH; exact H.
Qed.

Lemma dead_incl : forall A (objs : list A) bits v, In v (dead_rev objs bits) -> In v objs.
Proof.
  induction objs as [|x o IH]; intros bits v H; destruct bits as [|b r]; simpl in *; try contradiction.
  apply in_app_or in H. destruct H as [H|H]; [right; eapply IH; exact H|].
  destruct b; [destruct H|]. destruct H as [H|[]]. left; exact H.
Qed.

Lemma keep_all_false : forall A (objs : list A) n, keep objs (repeat_val false n) = [].
Proof.
  induction objs as [|x o IH]; intros n; destruct n; simpl; try reflexivity. apply IH.
Qed.

(** * Bits *)

Lemma set_bit_length : forall i b, length (set_bit i b) = length b.
Proof.
  unfold set_bit. intros i b; revert i; induction b as [|x b IH]; intros i; destruct i; simpl;
    try reflexivity. rewrite IH; reflexivity.
Qed.

Lemma get_set_same : forall i b, i < length b -> get_bit i (set_bit i b) = true.
Proof.
  unfold set_bit, get_bit. intros i b; revert i; induction b as [|x b IH]; intros i Hi; simpl in *; [lia|].
  destruct i; simpl; [reflexivity | apply IH; lia].
Qed.

Lemma get_set_other : forall i j b, i <> j -> get_bit j (set_bit i b) = get_bit j b.
Proof.
  unfold set_bit, get_bit. intros i j b; revert i j; induction b as [|x b IH]; intros i j Hij;
    destruct i, j; simpl; try reflexivity; try lia. apply IH; lia.
Qed.

Lemma get_set_mono : forall i j b, get_bit j b = true -> get_bit j (set_bit i b) = true.
Proof.
  intros i j b H. destruct (Nat.eq_dec i j) as [->|Hne]; [|rewrite get_set_other; assumption].
  apply get_set_same. unfold get_bit in H.
  destruct (Nat.lt_ge_cases j (length b)) as [Hlt|Hge]; [exact Hlt|].
  rewrite nth_overflow in H by exact Hge. discriminate.
Qed.

Lemma get_bit_lt : forall i b, get_bit i b = true -> i < length b.
Proof.
  intros i b H. unfold get_bit in H.
  destruct (Nat.lt_ge_cases i (length b)) as [Hlt|Hge]; [exact Hlt|].
  rewrite nth_overflow in H by exact Hge. discriminate.
Qed.

Fixpoint count_false (b : list bool) : nat :=
  match b with [] => 0 | x :: r => (if x then 0 else 1) + count_false r end.

Lemma count_false_set : forall i b, i < length b -> get_bit i b = false ->
  S (count_false (set_bit i b)) = count_false b.
Proof.
  unfold set_bit, get_bit. intros i b; revert i; induction b as [|x b IH]; intros i Hi Hg; simpl in *; [lia|].
  destruct i; simpl in *.
  - subst x. reflexivity.
  - rewrite <- (IH i) by (try lia; assumption). destruct x; simpl; lia.
Qed.

Lemma count_false_mono : forall b b', length b' = length b ->
  (forall i, get_bit i b = true -> get_bit i b' = true) -> count_false b' <= count_false b.
Proof.
  induction b as [|x b IH]; intros b' Hlen Hm; destruct b' as [|x' b']; simpl in *; try discriminate; [lia|].
  injection Hlen as Hlen.
  assert (IH' : count_false b' <= count_false b).
  { apply IH; [exact Hlen|]. intros i Hi. apply (Hm (S i)). exact Hi. }
  destruct x.
  - specialize (Hm 0 eq_refl). unfold get_bit in Hm; simpl in Hm. subst x'. simpl. exact IH'.
  - destruct x'; simpl; lia.
Qed.

Lemma repeat_val_length : forall A (x : A) n, length (repeat_val x n) = n.
Proof. induction n; simpl; [reflexivity | rewrite IHn; reflexivity]. Qed.

Lemma get_bit_repeat_false : forall n i, get_bit i (repeat_val false n) = false.
Proof.
  unfold get_bit. induction n as [|n IH]; intros i; destruct i; simpl; try reflexivity. apply IH.
Qed.

Lemma count_false_repeat : forall n, count_false (repeat_val false n) = n.
Proof. induction n; simpl; [reflexivity | rewrite IHn; reflexivity]. Qed.

(** * Positions *)

Lemma same_box_true : forall a o, same_box a o = true <->
  exists l, val_loc a = Some l /\ val_loc o = Some l.
Proof.
  intros a o. unfold same_box. split.
  - intros H. destruct (val_loc a) as [l|]; [|discriminate].
    destruct (val_loc o) as [k|]; [|discriminate].
    apply Pos.eqb_eq in H. subst k. exists l; split; reflexivity.
  - intros [l [Ha Ho]]. rewrite Ha, Ho. apply Pos.eqb_refl.
Qed.

Lemma position_of_some : forall o l i, position_of o l = Some i ->
  exists a, nth_error l i = Some a /\ same_box a o = true.
Proof.
  intros o l; induction l as [|a r IH]; intros i H; simpl in H; [discriminate|].
  destruct (same_box a o) eqn:E.
  - inversion H; subst. exists a; split; [reflexivity|exact E].
  - destruct (position_of o r) as [k|]; simpl in H; [|discriminate].
    inversion H; subst. destruct (IH k eq_refl) as [b [Hb1 Hb2]]. exists b; split; assumption.
Qed.

Lemma position_of_none : forall o l, position_of o l = None ->
  forall a, In a l -> same_box a o = false.
Proof.
  intros o l; induction l as [|a r IH]; intros H b Hin; simpl in *; [contradiction|].
  destruct (same_box a o) eqn:E; [discriminate|].
  destruct (position_of o r) as [k|]; simpl in H; [discriminate|].
  destruct Hin as [->|Hin]; [exact E | apply IH; [reflexivity|exact Hin]].
Qed.

Lemma last_position_from_some : forall o l i acc k, last_position_from o l i acc = Some k ->
  acc = Some k \/ exists j a, k = i + j /\ nth_error l j = Some a /\ same_box a o = true.
Proof.
  intros o l; induction l as [|a r IH]; intros i acc k H; simpl in H; [left; exact H|].
  apply IH in H. destruct H as [H|[j [b [Hk [Hn Hs]]]]].
  - destruct (same_box a o) eqn:E; [|left; exact H].
    inversion H; subst. right. exists 0, a. repeat split; [lia|exact E].
  - right. exists (S j), b. repeat split; [lia|exact Hn|exact Hs].
Qed.

Lemma last_position_from_none : forall o l i acc, last_position_from o l i acc = None ->
  acc = None /\ forall a, In a l -> same_box a o = false.
Proof.
  intros o l; induction l as [|a r IH]; intros i acc H; simpl in H.
  - split; [exact H | intros a []].
  - apply IH in H. destruct H as [Hacc Hr]. destruct (same_box a o) eqn:E; [discriminate|].
    split; [exact Hacc|]. intros b [->|Hin]; [exact E | apply Hr; exact Hin].
Qed.

Lemma last_position_some : forall o l k, last_position o l = Some k ->
  exists a, nth_error l k = Some a /\ same_box a o = true.
Proof.
  intros o l k H. unfold last_position in H. apply last_position_from_some in H.
  destruct H as [H|[j [a [Hk [Hn Hs]]]]]; [discriminate|].
  simpl in Hk; subst k. exists a; split; assumption.
Qed.

Lemma last_position_none : forall o l, last_position o l = None ->
  forall a, In a l -> same_box a o = false.
Proof.
  intros o l H. unfold last_position in H. apply last_position_from_none in H. exact (proj2 H).
Qed.

(* under NoDup an address has one position *)
Lemma nodup_loc_index : forall (l : list val) i j a b,
  NoDup (map val_loc l) -> nth_error l i = Some a -> nth_error l j = Some b ->
  val_loc a = val_loc b -> i = j.
Proof.
  intros l i j a b Hnd Hi Hj Hab.
  rewrite NoDup_nth_error in Hnd. apply Hnd.
  - rewrite map_length. apply nth_error_Some. rewrite Hi. discriminate.
  - rewrite (map_nth_error val_loc i l Hi), (map_nth_error val_loc j l Hj), Hab. reflexivity.
Qed.

Lemma nodup_loc_eq : forall (l : list val) a b,
  NoDup (map val_loc l) -> In a l -> In b l -> val_loc a = val_loc b -> a = b.
Proof.
  intros l a b Hnd Ha Hb Hab.
  apply In_nth_error in Ha. destruct Ha as [i Hi].
  apply In_nth_error in Hb. destruct Hb as [j Hj].
  assert (i = j) by (eapply nodup_loc_index; eassumption). subst j.
  rewrite Hi in Hj. inversion Hj. reflexivity.
Qed.

Lemma last_position_unique : forall o (l : list val) i a,
  NoDup (map val_loc l) -> nth_error l i = Some a -> same_box a o = true ->
  last_position o l = Some i.
Proof.
  intros o l i a Hnd Hi Hs.
  destruct (last_position o l) as [k|] eqn:E.
  - apply last_position_some in E. destruct E as [b [Hk Hb]].
    apply same_box_true in Hs. destruct Hs as [l1 [Ha1 Ho1]].
    apply same_box_true in Hb. destruct Hb as [l2 [Hb2 Ho2]].
    rewrite Ho1 in Ho2. inversion Ho2; subst l2.
    f_equal. eapply nodup_loc_index; [exact Hnd|exact Hk|exact Hi|]. rewrite Ha1, Hb2. reflexivity.
  - pose proof (last_position_none o l E a (nth_error_In l i Hi)) as Hf. rewrite Hf in Hs. discriminate.
Qed.

Lemma position_of_unique : forall o (l : list val) i a,
  NoDup (map val_loc l) -> nth_error l i = Some a -> same_box a o = true ->
  position_of o l = Some i.
Proof.
  intros o l i a Hnd Hi Hs.
  destruct (position_of o l) as [k|] eqn:E.
  - apply position_of_some in E. destruct E as [b [Hk Hb]].
    apply same_box_true in Hs. destruct Hs as [l1 [Ha1 Ho1]].
    apply same_box_true in Hb. destruct Hb as [l2 [Hb2 Ho2]].
    rewrite Ho1 in Ho2. inversion Ho2; subst l2.
    f_equal. eapply nodup_loc_index; [exact Hnd|exact Hk|exact Hi|]. rewrite Ha1, Hb2. reflexivity.
  - pose proof (position_of_none o l E a (nth_error_In l i Hi)) as Hf. rewrite Hf in Hs. discriminate.
Qed.

(* first and last position coincide under NoDup *)
Lemma position_first_last : forall o (l : list val), NoDup (map val_loc l) ->
  position_of o l = last_position o l.
Proof.
  intros o l Hnd. destruct (last_position o l) as [k|] eqn:E.
  - apply last_position_some in E. destruct E as [a [Hk Hs]].
    eapply position_of_unique; eassumption.
  - destruct (position_of o l) as [k|] eqn:E2; [|reflexivity].
    apply position_of_some in E2. destruct E2 as [a [Hk Hs]].
    rewrite (last_position_none o l E a (nth_error_In l k Hk)) in Hs. discriminate.
Qed.

(** * NoDup of an append *)

Lemma NoDup_app_inv : forall A (a b : list A), NoDup (a ++ b) ->
  NoDup a /\ NoDup b /\ (forall x, In x a -> In x b -> False).
Proof.
  induction a as [|y a IH]; intros b H; simpl in *.
  - split; [constructor|]. split; [exact H|]. intros x [].
  - inversion H as [|y' l' Hnotin Hnd]; subst.
    destruct (IH b Hnd) as [Ha [Hb Hdis]].
    split; [|split; [exact Hb|]].
    + constructor; [|exact Ha]. intros Hin. apply Hnotin. apply in_or_app. left; exact Hin.
    + intros x [->|Hin] Hinb; [|eapply Hdis; eassumption].
      apply Hnotin. apply in_or_app. right; exact Hinb.
Qed.
