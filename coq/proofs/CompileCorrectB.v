(* CompileCorrectB.v - compiler correctness for the fragment F1 (property C01), part B:
   the definitional evaluator Sem.v agrees with the intermediate evaluator peval / pexec of part A
   (cells of Sem's environment <-> global slots of the symbol table), the static pass agrees with
   the compiler's name resolution, and the final theorems. *)
From Coq Require Import ZArith Lia Bool List String.
From NL.Model Require Import VM.
From NL.Spec Require Import Sem Fragment ArithSpec.
From NL.Proofs Require Import WordProofs OpsProofs CompileCorrectA.
Open Scope Z_scope.

(** * The symbol table of a top-level program: one context, one scope *)

Definition names_tab (k : nat) (names : list text) : symtab := [mkContext SGlobal k [names]].

Lemma gtab_names : forall k names, gtab (names_tab k names).
Proof. intros. exists k, [names]. reflexivity. Qed.

Lemma rposition_from_app : forall x l1 l2 i acc,
  rposition_from x (l1 ++ l2) i acc = rposition_from x l2 (i + length l1)%nat (rposition_from x l1 i acc).
Proof.
  intros x l1. induction l1 as [|n l1 IH]; intros l2 i acc; cbn [app rposition_from length].
  - rewrite Nat.add_0_r. reflexivity.
  - rewrite IH. f_equal. lia.
Qed.

Lemma rposition_snoc : forall x l y,
  rposition x (l ++ [y]) = if text_eqb y x then Some (length l) else rposition x l.
Proof.
  intros x l y. unfold rposition. rewrite rposition_from_app. cbn [rposition_from Nat.add]. reflexivity.
Qed.

Lemma text_eqb_sym : forall a b, text_eqb a b = text_eqb b a.
Proof.
  intros a b. destruct (text_eqb a b) eqn:E1; destruct (text_eqb b a) eqn:E2; try reflexivity.
  - apply text_eqb_iff in E1. subst. rewrite (proj2 (text_eqb_iff b b) eq_refl) in E2. discriminate.
  - apply text_eqb_iff in E2. subst. rewrite (proj2 (text_eqb_iff a a) eq_refl) in E1. discriminate.
Qed.

Lemma resolve_names : forall k names x,
  resolve (names_tab k names) x = option_map (mkSymbol SGlobal) (rposition x names).
Proof.
  intros k names x. unfold resolve, names_tab, current_context, context_resolve, total_len.
  cbn [last c_syms c_scope rev app fold_left resolve_scopes length Nat.ltb Nat.leb Nat.add].
  rewrite Nat.sub_diag. destruct (rposition x names) as [i|]; reflexivity.
Qed.

Lemma define_names : forall k names x,
  define (names_tab k names) x = (names_tab (S k) (names ++ [x]), mkSymbol SGlobal (length names)).
Proof.
  intros k names x. unfold define, names_tab, current_context, context_define, total_len.
  cbn [last c_syms c_scope c_max push_last update_last fold_left Nat.add].
  rewrite app_length. cbn [length]. f_equal. f_equal. lia.
Qed.

(* declarations in declaration order: (name, cell); slot i <-> i-th declaration *)
Definition decls := list (text * positive).

Lemma lookup_agree : forall (ds : decls) x,
  match rposition x (map fst ds) with
  | Some i => exists y c, nth_error ds i = Some (y, c) /\ scope_find x (rev ds) = Some c
  | None => scope_find x (rev ds) = None
  end.
Proof.
  intros ds x. induction ds as [|[y c] ds IH] using rev_ind.
  - reflexivity.
  - rewrite map_app. cbn [map fst]. rewrite rposition_snoc, rev_unit. cbn [scope_find].
    rewrite (text_eqb_sym x y). destruct (text_eqb y x).
    + exists y, c. split; [|reflexivity]. rewrite map_length, nth_error_app2 by lia.
      rewrite Nat.sub_diag. reflexivity.
    + destruct (rposition x (map fst ds)) as [i|].
      * destruct IH as [y0 [c0 [H1 H2]]]. exists y0, c0. split; [|exact H2].
        rewrite nth_error_app1; [exact H1|]. apply nth_error_Some. rewrite H1. discriminate.
      * exact IH.
Qed.

Lemma d_lookup_top : forall (ds : decls) x, d_lookup (mkD [rev ds] None) x = scope_find x (rev ds).
Proof.
  intros ds x. unfold d_lookup. cbn [d_local d_global denv_find].
  destruct (scope_find x (rev ds)); reflexivity.
Qed.

(** * Sem's cells and the machine's global slots *)

Record Rel (ds : decls) (sst : sstate) (m : mst) : Prop := mkRel {
  R_heap : st_heap sst = m_heap m;
  R_nodup : NoDup (map snd ds);
  R_len : (length (m_gl m) <= length ds)%nat;
  R_val : forall i y c, nth_error ds i = Some (y, c) -> get_cell c sst = nth i (m_gl m) VNull;
  R_fresh : forall c, In c (map snd ds) -> (c < st_next sst)%positive;
  R_unset : forall c, (st_next sst <= c)%positive -> PM.find c (st_cells sst) = None
}.

Lemma Rel_heap : forall ds sst m v h', Rel ds sst m ->
  Rel ds (mkSt h' (st_cells sst) (st_next sst) (st_funs sst) (st_out sst)) (with_new_m m (v, h')).
Proof.
  intros ds sst m v h' [R1 R2 R3 R4 R5 R6]. unfold with_new_m.
  constructor; cbn [st_heap st_cells st_next m_heap m_gl]; auto.
Qed.

Lemma length_replace_nth : forall A n (v : A) l, length (replace_nth n v l) = length l.
Proof.
  intros A n v l. revert n. induction l as [|y l IH]; intros [|n]; cbn [replace_nth length]; auto.
Qed.

Lemma nth_replace_nth_other : forall A i j (v d : A) l, i <> j -> nth j (replace_nth i v l) d = nth j l d.
Proof.
  intros A i j v d l. revert i j. induction l as [|y l IH]; intros [|i] [|j] H; cbn [replace_nth nth];
    try reflexivity; try lia. apply IH. lia.
Qed.

Lemma nth_repeat_val : forall A (x : A) n j, nth j (repeat_val x n) x = x.
Proof. intros A x n. induction n as [|n IH]; intros [|j]; cbn [repeat_val nth]; auto. Qed.

Lemma nth_set_global_other : forall i j v gl, i <> j -> nth j (set_global i v gl) VNull = nth j gl VNull.
Proof.
  intros i j v gl H. unfold set_global. rewrite nth_replace_nth_other by exact H.
  destruct (Nat.ltb i (length gl)); [reflexivity|].
  destruct (Nat.lt_ge_cases j (length gl)) as [Hj|Hj].
  - apply app_nth1; exact Hj.
  - rewrite app_nth2 by lia. rewrite nth_repeat_val. symmetry. apply nth_overflow. lia.
Qed.

Lemma length_set_global : forall i v gl, length (set_global i v gl) = Nat.max (length gl) (S i).
Proof.
  intros i v gl. unfold set_global. rewrite length_replace_nth.
  destruct (Nat.ltb i (length gl)) eqn:E.
  - apply Nat.ltb_lt in E. lia.
  - apply Nat.ltb_ge in E. rewrite app_length, length_repeat_val. lia.
Qed.

Lemma get_set_cell_same : forall c v sst, get_cell c (set_cell c v sst) = v.
Proof. intros. unfold get_cell, set_cell. cbn [st_cells]. rewrite PM.gss. reflexivity. Qed.

Lemma get_set_cell_other : forall c c' v sst, c' <> c -> get_cell c' (set_cell c v sst) = get_cell c' sst.
Proof. intros. unfold get_cell, set_cell. cbn [st_cells]. rewrite PM.gso by assumption. reflexivity. Qed.

Lemma NoDup_snd_nth : forall (ds : decls) i j y c y', NoDup (map snd ds) ->
  nth_error ds i = Some (y, c) -> nth_error ds j = Some (y', c) -> i = j.
Proof.
  intros ds i j y c y' Hn Hi Hj.
  assert (nth_error (map snd ds) i = Some c) as Hi' by (rewrite nth_error_map, Hi; reflexivity).
  assert (nth_error (map snd ds) j = Some c) as Hj' by (rewrite nth_error_map, Hj; reflexivity).
  apply (proj1 (NoDup_nth_error (map snd ds)) Hn i j).
  - apply nth_error_Some. rewrite Hi'. discriminate.
  - congruence.
Qed.

Lemma Rel_set : forall ds sst m i y c v, Rel ds sst m -> nth_error ds i = Some (y, c) ->
  Rel ds (set_cell c v sst) (set_global_m i v m).
Proof.
  intros ds sst m i y c v [R1 R2 R3 R4 R5 R6] Hi.
  assert (i < length ds)%nat as Hlt by (apply nth_error_Some; rewrite Hi; discriminate).
  constructor; cbn [set_cell set_global_m st_heap st_cells st_next m_heap m_gl]; auto.
  - rewrite length_set_global. lia.
  - intros j y' c' Hj. destruct (Nat.eq_dec i j) as [->|Hne].
    + assert (c' = c) as -> by congruence. rewrite get_set_cell_same, nth_set_global_same. reflexivity.
    + rewrite nth_set_global_other by exact Hne. rewrite get_set_cell_other; [apply (R4 j y'); exact Hj|].
      intros ->. apply Hne. exact (NoDup_snd_nth ds i j y c y' R2 Hi Hj).
  - intros c' Hc'. rewrite PM.gso; [apply R6; exact Hc'|].
    intros ->. assert (In c (map snd ds)) as Hin.
    { apply in_map_iff. exists (y, c). split; [reflexivity|]. apply (nth_error_In _ _ Hi). }
    specialize (R5 c Hin). lia.
Qed.

Lemma NoDup_snoc : forall A (l : list A) c, NoDup l -> ~ In c l -> NoDup (l ++ [c]).
Proof.
  intros A l c H. induction H as [|y l Hy Hl IH]; intros Hc; cbn [app].
  - constructor; [intros []|constructor].
  - constructor.
    + intros Hin. apply in_app_or in Hin. destruct Hin as [Hin|[->|[]]]; [auto|].
      apply Hc. left; reflexivity.
    + apply IH. intros Hin. apply Hc. right; exact Hin.
Qed.

Lemma Rel_declare : forall ds sst m x, Rel ds sst m ->
  Rel (ds ++ [(x, st_next sst)]) (snd (new_cell sst)) m.
Proof.
  intros ds sst m x [R1 R2 R3 R4 R5 R6]. unfold new_cell. cbn [snd].
  constructor; cbn [st_heap st_cells st_next]; auto.
  - rewrite map_app. cbn [map snd]. apply NoDup_snoc; [exact R2|].
    intros Hin. specialize (R5 _ Hin). lia.
  - rewrite app_length. cbn [length]. lia.
  - intros i y c Hi. destruct (Nat.lt_ge_cases i (length ds)) as [Hlt|Hge].
    + rewrite nth_error_app1 in Hi by exact Hlt. apply (R4 i y c Hi).
    + rewrite nth_error_app2 in Hi by exact Hge.
      destruct (i - length ds)%nat as [|n] eqn:En; cbn [nth_error] in Hi; [|destruct n; discriminate Hi].
      inversion Hi; subst y c. unfold get_cell. cbn [st_cells]. rewrite (R6 (st_next sst)) by lia.
      symmetry. apply nth_overflow. lia.
  - intros c Hin. rewrite map_app in Hin. apply in_app_or in Hin. destruct Hin as [Hin|[<-|[]]].
    + specialize (R5 _ Hin). lia.
    + cbn [snd]. lia.
  - intros c Hc. apply R6. lia.
Qed.

(** * Unfolding equations of the definitional evaluator on the constructors of the fragment *)

Section SemEq.
  Variable orc : oracle.

  Lemma ee_int : forall f c z st, eval_expr orc (S f) c (EInt z) st = ROk (VInt z) st.
  Proof. reflexivity. Qed.
  Lemma ee_bool : forall f c b st, eval_expr orc (S f) c (EBool b) st = ROk (VBool b) st.
  Proof. reflexivity. Qed.
  Lemma ee_ident : forall f c x st,
    eval_expr orc (S f) c (EIdent x) st =
    match d_lookup c x with
    | Some cell => ROk (get_cell cell st) st
    | None => RErr EReferenceError st
    end.
  Proof. reflexivity. Qed.
  Lemma ee_prefix : forall f c op r st,
    eval_expr orc (S f) c (EPrefix op r) st =
    rbind (eval_expr orc f c r st) (fun v st =>
      match op with
      | OpNegate | OpSubtract => lift_heap st (negate (st_heap st) v)
      | OpNot => lift_plain st (lognot v)
      | _ => RErr ETypeError st
      end).
  Proof. reflexivity. Qed.
  Lemma ee_infix : forall f c l op r st,
    eval_expr orc (S f) c (EInfix l op r) st =
    rbind (eval_expr orc f c l st) (fun a st =>
    rbind (eval_expr orc f c r st) (fun b st =>
      match Sem.method_of op with
      | Some m => lift_heap st (binop orc m (st_heap st) a b)
      | None => RErr ETypeError st
      end)).
  Proof. reflexivity. Qed.
  Lemma ee_assign_ident : forall f c x r st,
    eval_expr orc (S f) c (EAssign (EIdent x) r) st =
    match d_lookup c x with
    | Some cell => rbind (eval_expr orc f c r st) (fun v st => ROk v (set_cell cell v st))
    | None => RErr EReferenceError st
    end.
  Proof. reflexivity. Qed.

  Lemma eb_nil : forall f c last st, exec_block orc (S f) c [] last st = ROk last st.
  Proof. reflexivity. Qed.
  Lemma eb_let : forall f c x e r last st,
    exec_block orc (S f) c (SLet x e :: r) last st =
    let '(cl, st1) := new_cell st in
    let c' := d_declare c x cl in
    rbind (eval_expr orc f c' e st1) (fun v st2 => exec_block orc f c' r VNull (set_cell cl v st2)).
  Proof. reflexivity. Qed.
  Lemma eb_expr : forall f c e r last st,
    exec_block orc (S f) c (SExpr e :: r) last st =
    rbind (eval_expr orc f c e st) (fun v st1 =>
      let c' := match e with
                | EFunction (ch :: name) _ _ => d_declare c (ch :: name) (Pos.pred (st_next st1))
                | _ => c
                end in
      exec_block orc f c' r v st1).
  Proof. reflexivity. Qed.
End SemEq.

(** * Sem agrees with the intermediate evaluator: expressions *)

Definition agree_expr (ds : decls) (sst : sstate) (r : res val) (p : outcome (val * mst)) : Prop :=
  r = RFuel \/
  match p with
  | Ok (v, m') => exists sst', r = ROk v sst' /\ Rel ds sst' m' /\ st_out sst' = st_out sst
                               /\ st_next sst' = st_next sst
  | Err k => exists sst', r = RErr k sst' /\ st_out sst' = st_out sst
  | Fault f => exists sst', r = RFault f sst' /\ st_out sst' = st_out sst
  | OutOfFuel => False
  end.

Ltac fuel_left H := rewrite H; left; reflexivity.

Lemma sem_peval : forall orc k e, in_F1e e = true ->
  forall fuel ds sst m, Rel ds sst m ->
  agree_expr ds sst (eval_expr orc fuel (mkD [rev ds] None) e sst)
                    (peval orc (resolve (names_tab k (map fst ds))) e m).
Proof.
  intros orc k e. induction e as [l IHl op r IHr|op r IHr|z| |b| |x| | |l IHl r IHr| | | |];
    intros HF fuel ds sst m HR; try discriminate HF; cbn [in_F1e] in HF;
    (destruct fuel as [|f]; [left; reflexivity|]).
  - (* EInfix *)
    apply andb_prop in HF. destruct HF as [HF Hr]. apply andb_prop in HF. destruct HF as [Hop Hl].
    rewrite ee_infix. cbn [peval].
    destruct (IHl Hl f ds sst m HR) as [E|H1]; [fuel_left E|].
    destruct (peval orc (resolve (names_tab k (map fst ds))) l m) as [[a m1]|e1|f1|];
      [|destruct H1 as [s' [E O]]; rewrite E; right; exists s'; split; [reflexivity|exact O]..|destruct H1].
    destruct H1 as [sst1 [E1 [R1 [O1 N1]]]]. rewrite E1. cbn [rbind bind].
    destruct (IHr Hr f ds sst1 m1 R1) as [E|H2]; [fuel_left E|].
    destruct (peval orc (resolve (names_tab k (map fst ds))) r m1) as [[b m2]|e2|f2|];
      [|destruct H2 as [s' [E O]]; rewrite E; right; exists s'; split; [reflexivity|congruence]..|destruct H2].
    destruct H2 as [sst2 [E2 [R2 [O2 N2]]]]. rewrite E2. cbn [rbind bind].
    destruct (Sem.method_of op) as [mth|].
    + rewrite (R_heap _ _ _ R2).
      destruct (binop orc mth (m_heap m2) a b) as [[v h']| | |]; cbn [lift_heap bind fst].
      * right. eexists. split; [reflexivity|]. split; [apply Rel_heap; exact R2|].
        cbn [st_out st_next]. split; congruence.
      * right. exists sst2. split; [reflexivity|congruence].
      * right. exists sst2. split; [reflexivity|congruence].
      * left; reflexivity.
    + right. exists sst2. split; [reflexivity|congruence].
  - (* EPrefix *)
    apply andb_prop in HF. destruct HF as [Hop Hr].
    rewrite ee_prefix. cbn [peval].
    destruct (IHr Hr f ds sst m HR) as [E|H1]; [fuel_left E|].
    destruct (peval orc (resolve (names_tab k (map fst ds))) r m) as [[a m1]|e1|f1|];
      [|destruct H1 as [s' [E O]]; rewrite E; right; exists s'; split; [reflexivity|exact O]..|destruct H1].
    destruct H1 as [sst1 [E1 [R1 [O1 N1]]]]. rewrite E1. cbn [rbind bind].
    assert (agree_expr ds sst (lift_heap sst1 (negate (st_heap sst1) a))
                       (do x <- negate (m_heap m1) a; Ok (fst x, with_new_m m1 x))) as Hneg.
    { rewrite (R_heap _ _ _ R1).
      destruct (negate (m_heap m1) a) as [[v h']| | |]; cbn [lift_heap bind fst].
      - right. eexists. split; [reflexivity|]. split; [apply Rel_heap; exact R1|].
        cbn [st_out st_next]. split; congruence.
      - right. exists sst1. split; [reflexivity|congruence].
      - right. exists sst1. split; [reflexivity|congruence].
      - left; reflexivity. }
    destruct op; try discriminate Hop.
    + exact Hneg.
    + destruct (lognot a) as [v| | |]; cbn [lift_plain bind].
      * right. exists sst1. split; [reflexivity|]. split; [exact R1|]. split; congruence.
      * right. exists sst1. split; [reflexivity|congruence].
      * right. exists sst1. split; [reflexivity|congruence].
      * left; reflexivity.
    + exact Hneg.
  - (* EInt *)
    rewrite ee_int. cbn [peval]. right. exists sst. auto.
  - (* EBool *)
    rewrite ee_bool. cbn [peval]. right. exists sst. auto.
  - (* EIdent *)
    rewrite ee_ident. cbn [peval]. rewrite d_lookup_top, resolve_names.
    pose proof (lookup_agree ds x) as HL.
    destruct (rposition x (map fst ds)) as [i|]; cbn [option_map].
    + destruct HL as [y [c [Hi Hc]]]. rewrite Hc. cbn [s_index]. right. exists sst.
      rewrite (R_val _ _ _ HR i y c Hi). auto.
    + rewrite HL. right. exists sst. auto.
  - (* EAssign *)
    destruct l as [| | | | | |x| | | | | | |]; try discriminate HF.
    rewrite ee_assign_ident. cbn [peval]. rewrite d_lookup_top, resolve_names.
    pose proof (lookup_agree ds x) as HL.
    destruct (rposition x (map fst ds)) as [i|]; cbn [option_map].
    + destruct HL as [y [c [Hi Hc]]]. rewrite Hc. cbn [s_index].
      destruct (IHr HF f ds sst m HR) as [E|H1]; [fuel_left E|].
      destruct (peval orc (resolve (names_tab k (map fst ds))) r m) as [[a m1]|e1|f1|];
        [|destruct H1 as [s' [E O]]; rewrite E; right; exists s'; split; [reflexivity|exact O]..|destruct H1].
      destruct H1 as [sst1 [E1 [R1 [O1 N1]]]]. rewrite E1. cbn [rbind bind].
      right. eexists. split; [reflexivity|]. split; [apply (Rel_set ds sst1 m1 i y c a R1 Hi)|].
      cbn [set_cell st_out st_next]. auto.
    + rewrite HL. right. exists sst. auto.
Qed.

(** * Sem agrees with the intermediate evaluator: top-level statements *)

Definition agree_block (sst : sstate) (r : res val) (p : outcome (mst * val)) : Prop :=
  r = RFuel \/
  match p with
  | Ok (m', fin') => exists sst', r = ROk fin' sst' /\ st_out sst' = st_out sst
  | Err k => exists sst', r = RErr k sst' /\ st_out sst' = st_out sst
  | Fault f => exists sst', r = RFault f sst' /\ st_out sst' = st_out sst
  | OutOfFuel => False
  end.

Lemma ends_expr_tail : forall s l, ends_expr (s :: l) = true -> ends_expr l = true.
Proof. intros s [|s' l] H; [reflexivity|exact H]. Qed.

Lemma sem_pexec : forall orc l, in_F1 l = true ->
  forall fuel k ds sst m lastS fin, Rel ds sst m -> ends_expr l = true -> (l = [] -> fin = lastS) ->
  agree_block sst (exec_block orc fuel (mkD [rev ds] None) l lastS sst)
                  (pexec orc (names_tab k (map fst ds)) l m fin).
Proof.
  intros orc l. induction l as [|s0 l IH]; intros HF fuel k ds sst m lastS fin HR HE Hfin;
    (destruct fuel as [|f]; [left; reflexivity|]).
  - rewrite eb_nil. cbn [pexec]. right. exists sst. rewrite (Hfin eq_refl). auto.
  - cbn [in_F1 forallb] in HF. apply andb_prop in HF. destruct HF as [HF0 HFl].
    pose proof (ends_expr_tail _ _ HE) as HEl.
    destruct s0 as [x e|e|e| | |]; try discriminate HF0; cbn [in_F1s] in HF0.
    + (* SLet *)
      assert (l <> []) as Hne by (intros ->; discriminate HE).
      rewrite eb_let. unfold new_cell. unfold d_declare. cbn [d_local d_global].
      set (sst1 := mkSt (st_heap sst) (st_cells sst) (Pos.succ (st_next sst)) (st_funs sst) (st_out sst)).
      set (cl := st_next sst).
      rewrite <- (rev_unit ds (x, cl)).
      cbn [pexec]. rewrite define_names. cbn [s_index].
      set (ds' := ds ++ [(x, cl)]).
      assert (map fst ds ++ [x] = map fst ds') as -> by (unfold ds'; rewrite map_app; reflexivity).
      assert (Rel ds' sst1 m) as HR1 by exact (Rel_declare ds sst m x HR).
      destruct (sem_peval orc (S k) e HF0 f ds' sst1 m HR1) as [E|H1]; [fuel_left E|].
      destruct (peval orc (resolve (names_tab (S k) (map fst ds'))) e m) as [[a m1]|e1|f1|];
        [|destruct H1 as [s' [E O]]; rewrite E; right; exists s'; split; [reflexivity|exact O]..|destruct H1].
      destruct H1 as [sst2 [E2 [R2 [O2 N2]]]]. rewrite E2. cbn [rbind bind].
      rewrite map_length.
      assert (nth_error ds' (length ds) = Some (x, cl)) as Hnth.
      { unfold ds'. rewrite nth_error_app2 by lia. rewrite Nat.sub_diag. reflexivity. }
      pose proof (Rel_set ds' sst2 m1 (length ds) x cl a R2 Hnth) as R3.
      destruct (IH HFl f (S k) ds' (set_cell cl a sst2) (set_global_m (length ds) a m1) VNull fin R3 HEl)
        as [E|H3]; [intros Hl; contradiction|fuel_left E|].
      right.
      destruct (pexec orc (names_tab (S k) (map fst ds')) l (set_global_m (length ds) a m1) fin)
        as [[m' fin']|e3|f3|]; [| | |destruct H3];
        destruct H3 as [s' [E O]]; exists s'; (split; [exact E|]); rewrite O; cbn [set_cell st_out]; exact O2.
    + (* SExpr *)
      rewrite eb_expr. cbn [pexec].
      destruct (sem_peval orc k e HF0 f ds sst m HR) as [E|H1]; [fuel_left E|].
      destruct (peval orc (resolve (names_tab k (map fst ds))) e m) as [[a m1]|e1|f1|];
        [|destruct H1 as [s' [E O]]; rewrite E; right; exists s'; split; [reflexivity|exact O]..|destruct H1].
      destruct H1 as [sst1 [E1 [R1 [O1 N1]]]]. rewrite E1. cbn [rbind bind].
      assert (match e with
              | EFunction (ch :: name) _ _ =>
                  d_declare (mkD [rev ds] None) (ch :: name) (Pos.pred (st_next sst1))
              | _ => mkD [rev ds] None
              end = mkD [rev ds] None) as ->.
      { destruct e; try discriminate HF0; reflexivity. }
      destruct (IH HFl f k ds sst1 m1 a a R1 HEl (fun _ => eq_refl)) as [E|H3]; [fuel_left E|].
      right.
      destruct (pexec orc (names_tab k (map fst ds)) l m1 a) as [[m' fin']|e3|f3|]; [| | |destruct H3];
        destruct H3 as [s' [E O]]; exists s'; (split; [exact E|]); rewrite O; exact O1.
Qed.
