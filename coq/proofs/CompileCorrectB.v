(* CompileCorrectB.v - compiler correctness for the fragment F1 (property C01), part B:
   the definitional evaluator Sem.v agrees with the intermediate evaluator peval / pexec of part A
   (cells of Sem's environment <-> global slots of the symbol table), the static pass agrees with
   the compiler's name resolution, and the final theorems. *)
From Coq Require Import ZArith Lia Bool List String.
From NL.Model Require Import VM.
From NL.Spec Require Import Sem Fragment ArithSpec.
From NL.Proofs Require Import WordProofs OpsProofs CompileCorrectA.
Open Scope Z_scope.

(** * The symbol table of a top-level program: one context, one scope *)

Definition names_tab (k : nat) (names : list text) : symtab := [mkContext SGlobal k [names]].

Lemma gtab_names : forall k names, gtab (names_tab k names).
Proof. intros. exists k, [names]. reflexivity. Qed.

Lemma rposition_from_app : forall x l1 l2 i acc,
  rposition_from x (l1 ++ l2) i acc = rposition_from x l2 (i + length l1)%nat (rposition_from x l1 i acc).
Proof.
  intros x l1. induction l1 as [|n l1 IH]; intros l2 i acc; cbn [app rposition_from length].
  - rewrite Nat.add_0_r. reflexivity.
  - rewrite IH. f_equal. lia.
Qed.

Lemma rposition_snoc : forall x l y,
  rposition x (l ++ [y]) = if text_eqb y x then Some (length l) else rposition x l.
Proof.
  intros x l y. unfold rposition. rewrite rposition_from_app. cbn [rposition_from Nat.add]. reflexivity.
Qed.

Lemma text_eqb_sym : forall a b, text_eqb a b = text_eqb b a.
Proof.
  intros a b. destruct (text_eqb a b) eqn:E1; destruct (text_eqb b a) eqn:E2; try reflexivity.
  - apply text_eqb_iff in E1. subst. rewrite (proj2 (text_eqb_iff b b) eq_refl) in E2. discriminate.
  - apply text_eqb_iff in E2. subst. rewrite (proj2 (text_eqb_iff a a) eq_refl) in E1. discriminate.
Qed.

Lemma resolve_names : forall k names x,
  resolve (names_tab k names) x = option_map (mkSymbol SGlobal) (rposition x names).
Proof.
  intros k names x. unfold resolve, names_tab, current_context, context_resolve, total_len.
  cbn [last c_syms c_scope rev app fold_left resolve_scopes length Nat.ltb Nat.leb Nat.add].
  rewrite Nat.sub_diag. destruct (rposition x names) as [i|]; reflexivity.
Qed.

Lemma define_names : forall k names x,
  define (names_tab k names) x = (names_tab (S k) (names ++ [x]), mkSymbol SGlobal (length names)).
Proof.
  intros k names x. unfold define, names_tab, current_context, context_define, total_len.
  cbn [last c_syms c_scope c_max push_last update_last fold_left Nat.add].
  rewrite app_length. cbn [length]. f_equal. f_equal. lia.
Qed.

(* declarations in declaration order: (name, cell); slot i <-> i-th declaration *)
Definition decls := list (text * positive).

Lemma lookup_agree : forall (ds : decls) x,
  match rposition x (map fst ds) with
  | Some i => exists y c, nth_error ds i = Some (y, c) /\ scope_find x (rev ds) = Some c
  | None => scope_find x (rev ds) = None
  end.
Proof.
  intros ds x. induction ds as [|[y c] ds IH] using rev_ind.
  - reflexivity.
  - rewrite map_app. cbn [map fst]. rewrite rposition_snoc, rev_unit. cbn [scope_find].
    rewrite (text_eqb_sym x y). destruct (text_eqb y x).
    + exists y, c. split; [|reflexivity]. rewrite map_length, nth_error_app2 by lia.
      rewrite Nat.sub_diag. reflexivity.
    + destruct (rposition x (map fst ds)) as [i|].
      * destruct IH as [y0 [c0 [H1 H2]]]. exists y0, c0. split; [|exact H2].
        rewrite nth_error_app1; [exact H1|]. apply nth_error_Some. rewrite H1. discriminate.
      * exact IH.
Qed.

Lemma d_lookup_top : forall (ds : decls) x, d_lookup (mkD [rev ds] None) x = scope_find x (rev ds).
Proof.
  intros ds x. unfold d_lookup. cbn [d_local d_global denv_find].
  destruct (scope_find x (rev ds)); reflexivity.
Qed.

(** * Sem's cells and the machine's global slots *)

Record Rel (ds : decls) (sst : sstate) (m : mst) : Prop := mkRel {
  R_heap : st_heap sst = m_heap m;
  R_nodup : NoDup (map snd ds);
  R_len : (length (m_gl m) <= length ds)%nat;
  R_val : forall i y c, nth_error ds i = Some (y, c) -> get_cell c sst = nth i (m_gl m) VNull;
  R_fresh : forall c, In c (map snd ds) -> (c < st_next sst)%positive;
  R_unset : forall c, (st_next sst <= c)%positive -> PM.find c (st_cells sst) = None
}.

Lemma Rel_heap : forall ds sst m v h', Rel ds sst m ->
  Rel ds (mkSt h' (st_cells sst) (st_next sst) (st_funs sst) (st_out sst)) (with_new_m m (v, h')).
Proof.
  intros ds sst m v h' [R1 R2 R3 R4 R5 R6]. unfold with_new_m.
  constructor; cbn [st_heap st_cells st_next m_heap m_gl]; auto.
Qed.

Lemma length_replace_nth : forall A n (v : A) l, length (replace_nth n v l) = length l.
Proof.
  intros A n v l. revert n. induction l as [|y l IH]; intros [|n]; cbn [replace_nth length]; auto.
Qed.

Lemma nth_replace_nth_other : forall A i j (v d : A) l, i <> j -> nth j (replace_nth i v l) d = nth j l d.
Proof.
  intros A i j v d l. revert i j. induction l as [|y l IH]; intros [|i] [|j] H; cbn [replace_nth nth];
    try reflexivity; try lia. apply IH. lia.
Qed.

Lemma nth_repeat_val : forall A (x : A) n j, nth j (repeat_val x n) x = x.
Proof. intros A x n. induction n as [|n IH]; intros [|j]; cbn [repeat_val nth]; auto. Qed.

Lemma nth_set_global_other : forall i j v gl, i <> j -> nth j (set_global i v gl) VNull = nth j gl VNull.
Proof.
  intros i j v gl H. unfold set_global. rewrite nth_replace_nth_other by exact H.
  destruct (Nat.ltb i (length gl)); [reflexivity|].
  destruct (Nat.lt_ge_cases j (length gl)) as [Hj|Hj].
  - apply app_nth1; exact Hj.
  - rewrite app_nth2 by lia. rewrite nth_repeat_val. symmetry. apply nth_overflow. lia.
Qed.

Lemma length_set_global : forall i v gl, length (set_global i v gl) = Nat.max (length gl) (S i).
Proof.
  intros i v gl. unfold set_global. rewrite length_replace_nth.
  destruct (Nat.ltb i (length gl)) eqn:E.
  - apply Nat.ltb_lt in E. lia.
  - apply Nat.ltb_ge in E. rewrite app_length, length_repeat_val. lia.
Qed.

Lemma get_set_cell_same : forall c v sst, get_cell c (set_cell c v sst) = v.
Proof. intros. unfold get_cell, set_cell. cbn [st_cells]. rewrite PM.gss. reflexivity. Qed.

Lemma get_set_cell_other : forall c c' v sst, c' <> c -> get_cell c' (set_cell c v sst) = get_cell c' sst.
Proof. intros. unfold get_cell, set_cell. cbn [st_cells]. rewrite PM.gso by assumption. reflexivity. Qed.

Lemma NoDup_snd_nth : forall (ds : decls) i j y c y', NoDup (map snd ds) ->
  nth_error ds i = Some (y, c) -> nth_error ds j = Some (y', c) -> i = j.
Proof.
  intros ds i j y c y' Hn Hi Hj.
  assert (nth_error (map snd ds) i = Some c) as Hi' by (rewrite nth_error_map, Hi; reflexivity).
  assert (nth_error (map snd ds) j = Some c) as Hj' by (rewrite nth_error_map, Hj; reflexivity).
  apply (proj1 (NoDup_nth_error (map snd ds)) Hn i j).
  - apply nth_error_Some. rewrite Hi'. discriminate.
  - congruence.
Qed.

Lemma Rel_set : forall ds sst m i y c v, Rel ds sst m -> nth_error ds i = Some (y, c) ->
  Rel ds (set_cell c v sst) (set_global_m i v m).
Proof.
  intros ds sst m i y c v [R1 R2 R3 R4 R5 R6] Hi.
  assert (i < length ds)%nat as Hlt by (apply nth_error_Some; rewrite Hi; discriminate).
  constructor; cbn [set_cell set_global_m st_heap st_cells st_next m_heap m_gl]; auto.
  - rewrite length_set_global. lia.
  - intros j y' c' Hj. destruct (Nat.eq_dec i j) as [->|Hne].
    + assert (c' = c) as -> by congruence. rewrite get_set_cell_same, nth_set_global_same. reflexivity.
    + rewrite nth_set_global_other by exact Hne. rewrite get_set_cell_other; [apply (R4 j y'); exact Hj|].
      intros ->. apply Hne. exact (NoDup_snd_nth ds i j y c y' R2 Hi Hj).
  - intros c' Hc'. rewrite PM.gso; [apply R6; exact Hc'|].
    intros ->. assert (In c (map snd ds)) as Hin.
    { apply in_map_iff. exists (y, c). split; [reflexivity|]. apply (nth_error_In _ _ Hi). }
    specialize (R5 c Hin). lia.
Qed.

Lemma NoDup_snoc : forall A (l : list A) c, NoDup l -> ~ In c l -> NoDup (l ++ [c]).
Proof.
  intros A l c H. induction H as [|y l Hy Hl IH]; intros Hc; cbn [app].
  - constructor; [intros []|constructor].
  - constructor.
    + intros Hin. apply in_app_or in Hin. destruct Hin as [Hin|[->|[]]]; [auto|].
      apply Hc. left; reflexivity.
    + apply IH. intros Hin. apply Hc. right; exact Hin.
Qed.

Lemma Rel_declare : forall ds sst m x, Rel ds sst m ->
  Rel (ds ++ [(x, st_next sst)]) (snd (new_cell sst)) m.
Proof.
  intros ds sst m x [R1 R2 R3 R4 R5 R6]. unfold new_cell. cbn [snd].
  constructor; cbn [st_heap st_cells st_next]; auto.
  - rewrite map_app. cbn [map snd]. apply NoDup_snoc; [exact R2|].
    intros Hin. specialize (R5 _ Hin). lia.
  - rewrite app_length. cbn [length]. lia.
  - intros i y c Hi. destruct (Nat.lt_ge_cases i (length ds)) as [Hlt|Hge].
    + rewrite nth_error_app1 in Hi by exact Hlt. apply (R4 i y c Hi).
    + rewrite nth_error_app2 in Hi by exact Hge.
      destruct (i - length ds)%nat as [|n] eqn:En; cbn [nth_error] in Hi; [|destruct n; discriminate Hi].
      inversion Hi; subst y c. unfold get_cell. cbn [st_cells]. rewrite (R6 (st_next sst)) by lia.
      symmetry. apply nth_overflow. lia.
  - intros c Hin. rewrite map_app in Hin. apply in_app_or in Hin. destruct Hin as [Hin|[<-|[]]].
    + specialize (R5 _ Hin). lia.
    + cbn [snd]. lia.
  - intros c Hc. apply R6. lia.
Qed.

(** * Unfolding equations of the definitional evaluator on the constructors of the fragment *)

Section SemEq.
  Variable orc : oracle.

  Lemma ee_int : forall f c z st, eval_expr orc (S f) c (EInt z) st = ROk (VInt z) st.
  Proof. reflexivity. Qed.
  Lemma ee_bool : forall f c b st, eval_expr orc (S f) c (EBool b) st = ROk (VBool b) st.
  Proof. reflexivity. Qed.
  Lemma ee_ident : forall f c x st,
    eval_expr orc (S f) c (EIdent x) st =
    match d_lookup c x with
    | Some cell => ROk (get_cell cell st) st
    | None => RErr EReferenceError st
    end.
  Proof. reflexivity. Qed.
  Lemma ee_prefix : forall f c op r st,
    eval_expr orc (S f) c (EPrefix op r) st =
    rbind (eval_expr orc f c r st) (fun v st =>
      match op with
      | OpNegate | OpSubtract => lift_heap st (negate (st_heap st) v)
      | OpNot => lift_plain st (lognot v)
      | _ => RErr ETypeError st
      end).
  Proof. reflexivity. Qed.
  Lemma ee_infix : forall f c l op r st,
    eval_expr orc (S f) c (EInfix l op r) st =
    rbind (eval_expr orc f c l st) (fun a st =>
    rbind (eval_expr orc f c r st) (fun b st =>
      match Sem.method_of op with
      | Some m => lift_heap st (binop orc m (st_heap st) a b)
      | None => RErr ETypeError st
      end)).
  Proof. reflexivity. Qed.
  Lemma ee_assign_ident : forall f c x r st,
    eval_expr orc (S f) c (EAssign (EIdent x) r) st =
    match d_lookup c x with
    | Some cell => rbind (eval_expr orc f c r st) (fun v st => ROk v (set_cell cell v st))
    | None => RErr EReferenceError st
    end.
  Proof. reflexivity. Qed.

  Lemma eb_nil : forall f c last st, exec_block orc (S f) c [] last st = ROk last st.
  Proof. reflexivity. Qed.
  Lemma eb_let : forall f c x e r last st,
    exec_block orc (S f) c (SLet x e :: r) last st =
    let '(cl, st1) := new_cell st in
    let c' := d_declare c x cl in
    rbind (eval_expr orc f c' e st1) (fun v st2 => exec_block orc f c' r VNull (set_cell cl v st2)).
  Proof. reflexivity. Qed.
  Lemma eb_expr : forall f c e r last st,
    exec_block orc (S f) c (SExpr e :: r) last st =
    rbind (eval_expr orc f c e st) (fun v st1 =>
      let c' := match e with
                | EFunction (ch :: name) _ _ => d_declare c (ch :: name) (Pos.pred (st_next st1))
                | _ => c
                end in
      exec_block orc f c' r v st1).
  Proof. reflexivity. Qed.
End SemEq.

(** * Sem agrees with the intermediate evaluator: expressions *)

Definition agree_expr (ds : decls) (sst : sstate) (r : res val) (p : outcome (val * mst)) : Prop :=
  r = RFuel \/
  match p with
  | Ok (v, m') => exists sst', r = ROk v sst' /\ Rel ds sst' m' /\ st_out sst' = st_out sst
                               /\ st_next sst' = st_next sst
  | Err k => exists sst', r = RErr k sst' /\ st_out sst' = st_out sst
  | Fault f => exists sst', r = RFault f sst' /\ st_out sst' = st_out sst
  | OutOfFuel => False
  end.

Ltac fuel_left H := rewrite H; left; reflexivity.

Lemma sem_peval : forall orc k e, in_F1e e = true ->
  forall fuel ds sst m, Rel ds sst m ->
  agree_expr ds sst (eval_expr orc fuel (mkD [rev ds] None) e sst)
                    (peval orc (resolve (names_tab k (map fst ds))) e m).
Proof.
  intros orc k e. induction e as [l IHl op r IHr|op r IHr|z| |b| |x| | |l IHl r IHr| | | |];
    intros HF fuel ds sst m HR; try discriminate HF; cbn [in_F1e] in HF;
    (destruct fuel as [|f]; [left; reflexivity|]).
  - (* EInfix *)
    apply andb_prop in HF. destruct HF as [HF Hr]. apply andb_prop in HF. destruct HF as [Hop Hl].
    rewrite ee_infix. cbn [peval].
    destruct (IHl Hl f ds sst m HR) as [E|H1]; [fuel_left E|].
    destruct (peval orc (resolve (names_tab k (map fst ds))) l m) as [[a m1]|e1|f1|];
      [|destruct H1 as [s' [E O]]; rewrite E; right; exists s'; split; [reflexivity|exact O]..|destruct H1].
    destruct H1 as [sst1 [E1 [R1 [O1 N1]]]]. rewrite E1. cbn [rbind bind].
    destruct (IHr Hr f ds sst1 m1 R1) as [E|H2]; [fuel_left E|].
    destruct (peval orc (resolve (names_tab k (map fst ds))) r m1) as [[b m2]|e2|f2|];
      [|destruct H2 as [s' [E O]]; rewrite E; right; exists s'; split; [reflexivity|congruence]..|destruct H2].
    destruct H2 as [sst2 [E2 [R2 [O2 N2]]]]. rewrite E2. cbn [rbind bind].
    destruct (Sem.method_of op) as [mth|].
    + rewrite (R_heap _ _ _ R2).
      destruct (binop orc mth (m_heap m2) a b) as [[v h']| | |]; cbn [lift_heap bind fst].
      * right. eexists. split; [reflexivity|]. split; [apply Rel_heap; exact R2|].
        cbn [st_out st_next]. split; congruence.
      * right. exists sst2. split; [reflexivity|congruence].
      * right. exists sst2. split; [reflexivity|congruence].
      * left; reflexivity.
    + right. exists sst2. split; [reflexivity|congruence].
  - (* EPrefix *)
    apply andb_prop in HF. destruct HF as [Hop Hr].
    rewrite ee_prefix. cbn [peval].
    destruct (IHr Hr f ds sst m HR) as [E|H1]; [fuel_left E|].
    destruct (peval orc (resolve (names_tab k (map fst ds))) r m) as [[a m1]|e1|f1|];
      [|destruct H1 as [s' [E O]]; rewrite E; right; exists s'; split; [reflexivity|exact O]..|destruct H1].
    destruct H1 as [sst1 [E1 [R1 [O1 N1]]]]. rewrite E1. cbn [rbind bind].
    assert (agree_expr ds sst (lift_heap sst1 (negate (st_heap sst1) a))
                       (do x <- negate (m_heap m1) a; Ok (fst x, with_new_m m1 x))) as Hneg.
    { rewrite (R_heap _ _ _ R1).
      destruct (negate (m_heap m1) a) as [[v h']| | |]; cbn [lift_heap bind fst].
      - right. eexists. split; [reflexivity|]. split; [apply Rel_heap; exact R1|].
        cbn [st_out st_next]. split; congruence.
      - right. exists sst1. split; [reflexivity|congruence].
      - right. exists sst1. split; [reflexivity|congruence].
      - left; reflexivity. }
    destruct op; try discriminate Hop.
    + exact Hneg.
    + destruct (lognot a) as [v| | |]; cbn [lift_plain bind].
      * right. exists sst1. split; [reflexivity|]. split; [exact R1|]. split; congruence.
      * right. exists sst1. split; [reflexivity|congruence].
      * right. exists sst1. split; [reflexivity|congruence].
      * left; reflexivity.
    + exact Hneg.
  - (* EInt *)
    rewrite ee_int. cbn [peval]. right. exists sst. auto.
  - (* EBool *)
    rewrite ee_bool. cbn [peval]. right. exists sst. auto.
  - (* EIdent *)
    rewrite ee_ident. cbn [peval]. rewrite d_lookup_top, resolve_names.
    pose proof (lookup_agree ds x) as HL.
    destruct (rposition x (map fst ds)) as [i|]; cbn [option_map].
    + destruct HL as [y [c [Hi Hc]]]. rewrite Hc. cbn [s_index]. right. exists sst.
      rewrite (R_val _ _ _ HR i y c Hi). auto.
    + rewrite HL. right. exists sst. auto.
  - (* EAssign *)
    destruct l as [| | | | | |x| | | | | | |]; try discriminate HF.
    rewrite ee_assign_ident. cbn [peval]. rewrite d_lookup_top, resolve_names.
    pose proof (lookup_agree ds x) as HL.
    destruct (rposition x (map fst ds)) as [i|]; cbn [option_map].
    + destruct HL as [y [c [Hi Hc]]]. rewrite Hc. cbn [s_index].
      destruct (IHr HF f ds sst m HR) as [E|H1]; [fuel_left E|].
      destruct (peval orc (resolve (names_tab k (map fst ds))) r m) as [[a m1]|e1|f1|];
        [|destruct H1 as [s' [E O]]; rewrite E; right; exists s'; split; [reflexivity|exact O]..|destruct H1].
      destruct H1 as [sst1 [E1 [R1 [O1 N1]]]]. rewrite E1. cbn [rbind bind].
      right. eexists. split; [reflexivity|]. split; [apply (Rel_set ds sst1 m1 i y c a R1 Hi)|].
      cbn [set_cell st_out st_next]. auto.
    + rewrite HL. right. exists sst. auto.
Qed.

(** * Sem agrees with the intermediate evaluator: top-level statements *)

Definition agree_block (sst : sstate) (r : res val) (p : outcome (mst * val)) : Prop :=
  r = RFuel \/
  match p with
  | Ok (m', fin') => exists sst', r = ROk fin' sst' /\ st_out sst' = st_out sst
  | Err k => exists sst', r = RErr k sst' /\ st_out sst' = st_out sst
  | Fault f => exists sst', r = RFault f sst' /\ st_out sst' = st_out sst
  | OutOfFuel => False
  end.

Lemma ends_expr_tail : forall s l, ends_expr (s :: l) = true -> ends_expr l = true.
Proof. intros s [|s' l] H; [reflexivity|exact H]. Qed.

Lemma sem_pexec : forall orc l, in_F1 l = true ->
  forall fuel k ds sst m lastS fin, Rel ds sst m -> ends_expr l = true -> (l = [] -> fin = lastS) ->
  agree_block sst (exec_block orc fuel (mkD [rev ds] None) l lastS sst)
                  (pexec orc (names_tab k (map fst ds)) l m fin).
Proof.
  intros orc l. induction l as [|s0 l IH]; intros HF fuel k ds sst m lastS fin HR HE Hfin;
    (destruct fuel as [|f]; [left; reflexivity|]).
  - rewrite eb_nil. cbn [pexec]. right. exists sst. rewrite (Hfin eq_refl). auto.
  - cbn [in_F1 forallb] in HF. apply andb_prop in HF. destruct HF as [HF0 HFl].
    pose proof (ends_expr_tail _ _ HE) as HEl.
    destruct s0 as [x e|e|e| | |]; try discriminate HF0; cbn [in_F1s] in HF0.
    + (* SLet *)
      assert (l <> []) as Hne by (intros ->; discriminate HE).
      rewrite eb_let. unfold new_cell. unfold d_declare. cbn [d_local d_global].
      set (sst1 := mkSt (st_heap sst) (st_cells sst) (Pos.succ (st_next sst)) (st_funs sst) (st_out sst)).
      set (cl := st_next sst).
      rewrite <- (rev_unit ds (x, cl)).
      cbn [pexec]. rewrite define_names. cbn [s_index].
      set (ds' := ds ++ [(x, cl)]).
      assert (map fst ds ++ [x] = map fst ds') as -> by (unfold ds'; rewrite map_app; reflexivity).
      assert (Rel ds' sst1 m) as HR1 by exact (Rel_declare ds sst m x HR).
      destruct (sem_peval orc (S k) e HF0 f ds' sst1 m HR1) as [E|H1]; [fuel_left E|].
      destruct (peval orc (resolve (names_tab (S k) (map fst ds'))) e m) as [[a m1]|e1|f1|];
        [|destruct H1 as [s' [E O]]; rewrite E; right; exists s'; split; [reflexivity|exact O]..|destruct H1].
      destruct H1 as [sst2 [E2 [R2 [O2 N2]]]]. rewrite E2. cbn [rbind bind].
      rewrite map_length.
      assert (nth_error ds' (length ds) = Some (x, cl)) as Hnth.
      { unfold ds'. rewrite nth_error_app2 by lia. rewrite Nat.sub_diag. reflexivity. }
      pose proof (Rel_set ds' sst2 m1 (length ds) x cl a R2 Hnth) as R3.
      destruct (IH HFl f (S k) ds' (set_cell cl a sst2) (set_global_m (length ds) a m1) VNull fin R3 HEl)
        as [E|H3]; [intros Hl; contradiction|fuel_left E|].
      right.
      destruct (pexec orc (names_tab (S k) (map fst ds')) l (set_global_m (length ds) a m1) fin)
        as [[m' fin']|e3|f3|]; [| | |destruct H3];
        destruct H3 as [s' [E O]]; exists s'; (split; [exact E|]); rewrite O; cbn [set_cell st_out]; exact O2.
    + (* SExpr *)
      rewrite eb_expr. cbn [pexec].
      destruct (sem_peval orc k e HF0 f ds sst m HR) as [E|H1]; [fuel_left E|].
      destruct (peval orc (resolve (names_tab k (map fst ds))) e m) as [[a m1]|e1|f1|];
        [|destruct H1 as [s' [E O]]; rewrite E; right; exists s'; split; [reflexivity|exact O]..|destruct H1].
      destruct H1 as [sst1 [E1 [R1 [O1 N1]]]]. rewrite E1. cbn [rbind bind].
      assert (match e with
              | EFunction (ch :: name) _ _ =>
                  d_declare (mkD [rev ds] None) (ch :: name) (Pos.pred (st_next sst1))
              | _ => mkD [rev ds] None
              end = mkD [rev ds] None) as ->.
      { destruct e; try discriminate HF0; reflexivity. }
      destruct (IH HFl f k ds sst1 m1 a a R1 HEl (fun _ => eq_refl)) as [E|H3]; [fuel_left E|].
      right.
      destruct (pexec orc (names_tab k (map fst ds)) l m1 a) as [[m' fin']|e3|f3|]; [| | |destruct H3];
        destruct H3 as [s' [E O]]; exists s'; (split; [exact E|]); rewrite O; exact O1.
Qed.

(** * Compiler correctness for F1, given that the static pass accepts *)

Lemma Rel_init : Rel [] sem_init mst0.
Proof.
  constructor; cbn [sem_init mst0 st_heap st_cells st_next m_heap m_gl map length]; auto.
  - constructor.
  - intros [|i] y c H; discriminate H.
  - intros c [].
  - intros c _. apply PM.gempty.
Qed.

Theorem compile_correct_F1_accepted : forall orc p, in_F1 p = true -> ends_expr p = true ->
  forall bc, compile p = Ok bc ->
  forall fuel r, sem_program orc fuel p = r -> r <> SemFuel -> (forall k, r <> SemRejected k) ->
  exists budget, obs_eq (run_program orc bc budget) r.
Proof.
  intros orc p HF HE bc Hc fuel r Hr Hnf Hnr. unfold sem_program in Hr.
  destruct (static_check fuel p) as [k|]; [exfalso; apply (Hnr k); symmetry; exact Hr|].
  pose proof (compile_run_F1 orc p bc HF Hc) as Hrun.
  pose proof (sem_pexec orc p HF fuel O [] sem_init mst0 VNull VNull Rel_init HE (fun _ => eq_refl)) as Hsem.
  change (mkD [rev []] None) with (mkD [[]] None) in Hsem.
  change (names_tab 0 (map fst [])) with symtab_new in Hsem.
  destruct Hsem as [E|Hsem]; [rewrite E in Hr; exfalso; apply Hnf; symmetry; exact Hr|].
  destruct (pexec orc symtab_new p mst0 VNull) as [[m' fin']|e|f|]; [| | |destruct Hsem];
    destruct Hsem as [sst' [E O]]; rewrite E in Hr; subst r; destruct Hrun as [budget [R1 R2]];
    exists budget; cbn [obs_eq]; rewrite O; cbn [sem_init st_out]; auto.
Qed.

(** * The static pass and the compiler's name resolution *)

Lemma ck_int : forall f c z, check_expr (S f) c (EInt z) = None.
Proof. reflexivity. Qed.
Lemma ck_bool : forall f c b, check_expr (S f) c (EBool b) = None.
Proof. reflexivity. Qed.
Lemma ck_ident : forall f c x,
  check_expr (S f) c (EIdent x) = if s_visible c x then None else Some EReferenceError.
Proof. reflexivity. Qed.
Lemma ck_prefix : forall f c o r, check_expr (S f) c (EPrefix o r) = check_expr f c r.
Proof. reflexivity. Qed.
Lemma ck_infix : forall f c l o r,
  check_expr (S f) c (EInfix l o r) = first_err (check_expr f c l) (fun _ => check_expr f c r).
Proof. reflexivity. Qed.
Lemma ck_assign_ident : forall f c x r,
  check_expr (S f) c (EAssign (EIdent x) r) =
  if s_visible c x then check_expr f c r else Some EReferenceError.
Proof. reflexivity. Qed.
Lemma cb_nil : forall f c, check_block (S f) c [] = None.
Proof. reflexivity. Qed.
Lemma cb_let : forall f c x e r,
  check_block (S f) c (SLet x e :: r) =
  first_err (check_expr f (s_declare c x) e) (fun _ => check_block f (s_declare c x) r).
Proof. reflexivity. Qed.
Lemma cb_expr : forall f c e r, in_F1e e = true ->
  check_block (S f) c (SExpr e :: r) = first_err (check_expr f c e) (fun _ => check_block f c r).
Proof. intros f c e r H. destruct e; try discriminate H; reflexivity. Qed.

Definition top_sctx (names : list text) : sctx := mkS [rev names] None 0.

Lemma visible_resolve : forall names x,
  s_visible (top_sctx names) x = match rposition x names with Some _ => true | None => false end.
Proof.
  intros names x. unfold s_visible, top_sctx, in_senv. cbn [s_local s_global existsb].
  rewrite !orb_false_r. induction names as [|y l IH] using rev_ind.
  - reflexivity.
  - rewrite rev_unit, rposition_snoc. cbn [in_scope]. rewrite (text_eqb_sym x y).
    destruct (text_eqb y x); [reflexivity|]. exact IH.
Qed.

Lemma declare_top : forall names x, s_declare (top_sctx names) x = top_sctx (names ++ [x]).
Proof. intros. unfold s_declare, top_sctx. cbn [s_local s_global s_loops]. rewrite rev_unit. reflexivity. Qed.

Definition static_agree {A} (r : outcome A) (chk : option errkind) : Prop :=
  match r with
  | Ok _ => chk = None \/ chk = Some ESyntaxError
  | Err EReferenceError => chk = Some EReferenceError \/ chk = Some ESyntaxError
  | _ => True
  end.

Lemma static_agree_fuel0 : forall A (r : outcome A), static_agree r (Some ESyntaxError).
Proof. intros A [a|[]|f|]; cbn [static_agree]; auto. Qed.

Lemma compile_expr_symbols : forall e st st', in_F1e e = true -> gtab (c_symbols st) ->
  compile_expression e st = Ok st' -> c_symbols st' = c_symbols st.
Proof.
  intros e st st' HF Hg H.
  exact (proj1 (compile_expr_sim (mkOracle (fun _ => []) (fun _ => None) (fun x _ => x)) e HF st st' (or_intror Hg) H)).
Qed.

(* sequencing two compilation steps against first_err *)
Lemma static_agree_seq : forall A B (r1 : outcome A) (k : A -> outcome B) c1 c2,
  static_agree r1 c1 -> (forall a, r1 = Ok a -> static_agree (k a) (c2 tt)) ->
  static_agree (bind r1 k) (first_err c1 c2).
Proof.
  intros A B r1 k c1 c2 H1 H2. destruct r1 as [a|e|f|]; cbn [bind].
  - cbn [static_agree] in H1. destruct H1 as [-> | ->]; cbn [first_err].
    + apply H2; reflexivity.
    + apply static_agree_fuel0.
  - destruct e; cbn [static_agree] in *; try exact I.
    destruct H1 as [-> | ->]; cbn [first_err]; auto.
  - exact I.
  - exact I.
Qed.

Lemma static_generic_infix : forall l op r f k names,
  (forall st, c_symbols st = names_tab k names ->
     static_agree (compile_expression l st) (check_expr f (top_sctx names) l)) ->
  (forall st, c_symbols st = names_tab k names ->
     static_agree (compile_expression r st) (check_expr f (top_sctx names) r)) ->
  in_F1e l = true -> is_binop op = true ->
  forall st, c_symbols st = names_tab k names ->
  static_agree (generic_infix l op r st)
               (first_err (check_expr f (top_sctx names) l) (fun _ => check_expr f (top_sctx names) r)).
Proof.
  intros l op r f k names IHl IHr Hl Hop st Hs. unfold generic_infix.
  apply static_agree_seq; [apply IHl; exact Hs|].
  intros st1 H1.
  assert (c_symbols st1 = names_tab k names) as Hs1.
  { rewrite <- Hs. apply (compile_expr_symbols l st st1 Hl); [rewrite Hs; apply gtab_names|exact H1]. }
  specialize (IHr st1 Hs1).
  destruct (compile_expression r st1) as [st2|e|x|]; cbn [bind]; try exact IHr.
  - destruct (assoc operator_eqb op compile_operator_table); [exact IHr|exact I].
Qed.

Lemma static_expr : forall e, in_F1e e = true -> forall fuel k names st,
  c_symbols st = names_tab k names ->
  static_agree (compile_expression e st) (check_expr fuel (top_sctx names) e).
Proof.
  intros e. induction e as [l IHl op r IHr|op r IHr|z| |b| |x| | |l IHl r IHr| | | |];
    intros HF fuel k names st Hs; try discriminate HF; cbn [in_F1e] in HF;
    (destruct fuel as [|f]; [apply static_agree_fuel0|]).
  - apply andb_prop in HF. destruct HF as [HF Hr]. apply andb_prop in HF. destruct HF as [Hop Hl].
    rewrite ce_infix, ck_infix.
    assert (forall st0, c_symbols st0 = names_tab k names ->
              static_agree (generic_infix l op r st0)
                (first_err (check_expr f (top_sctx names) l) (fun _ => check_expr f (top_sctx names) r))) as Hgen.
    { apply (static_generic_infix l op r f k names);
        [intros st0 H0; apply (IHl Hl f k names st0 H0)|intros st0 H0; apply (IHr Hr f k names st0 H0)
        |exact Hl|exact Hop]. }
    destruct (fused_candidate l r op) as [[[name v] op']|]; [|apply Hgen; exact Hs].
    destruct (compile_const_var_infix name v op' st) as [st1 done] eqn:Ec.
    assert (gtab (c_symbols st)) as Hg by (rewrite Hs; apply gtab_names).
    destruct (const_var_infix_global _ _ _ _ _ _ Hg Ec) as [-> [Hs1 _]].
    apply Hgen. rewrite Hs1. exact Hs.
  - apply andb_prop in HF. destruct HF as [Hop Hr].
    rewrite ce_prefix, ck_prefix. specialize (IHr Hr f k names st Hs).
    destruct (compile_expression r st) as [st1|e|x|]; cbn [bind]; try exact IHr.
    destruct op; try discriminate Hop; exact IHr.
  - rewrite ce_int, ck_int. unfold emit_const.
    destruct (add_constant (KInt z) st) as [st0 r0] eqn:Ea. unfold add_constant in Ea.
    destruct (const_position (KInt z) (c_constants st)); inversion Ea; subst;
      unfold operand; (match goal with |- context [if ?c then _ else _] => destruct c end);
      cbn [bind static_agree]; auto.
  - rewrite ce_bool, ck_bool. cbn [static_agree]. auto.
  - rewrite ce_ident, ck_ident, visible_resolve, Hs, resolve_names.
    destruct (rposition x names) as [i|]; cbn [option_map].
    + unfold scoped, emit_sym. cbn [s_scope s_index].
      destruct (operand 16 (Z.of_nat i)) as [idx|e|y|] eqn:Eo; cbn [bind static_agree]; auto.
      unfold operand in Eo. destruct (Z.of_nat i <? 2 ^ 16); inversion Eo. exact I.
    + cbn [static_agree]. auto.
  - destruct l as [| | | | | |x| | | | | | |]; try discriminate HF.
    rewrite ce_assign_ident, ck_assign_ident, visible_resolve, Hs, resolve_names.
    destruct (rposition x names) as [i|]; cbn [option_map]; [|cbn [static_agree]; auto].
    specialize (IHr HF f k names st Hs).
    destruct (compile_expression r st) as [st1|e|y|]; cbn [bind]; try exact IHr.
    unfold scoped, emit_sym. cbn [s_scope s_index].
    destruct (operand 16 (Z.of_nat i)) as [idx|e|y|] eqn:Eo; cbn [bind static_agree].
    + exact IHr.
    + unfold operand in Eo. destruct (Z.of_nat i <? 2 ^ 16); inversion Eo. exact I.
    + exact I.
    + exact I.
Qed.

Lemma static_stmts : forall l, in_F1 l = true -> forall fuel k names st,
  c_symbols st = names_tab k names ->
  static_agree (compile_statements l st) (check_block fuel (top_sctx names) l).
Proof.
  intros l. induction l as [|s0 l IH]; intros HF fuel k names st Hs;
    (destruct fuel as [|f]; [apply static_agree_fuel0|]).
  - rewrite cb_nil. cbn [compile_statements static_agree]. auto.
  - cbn [in_F1 forallb] in HF. apply andb_prop in HF. destruct HF as [HF0 HFl].
    cbn [compile_statements].
    assert (gtab (c_symbols st)) as Hg by (rewrite Hs; apply gtab_names).
    destruct s0 as [x e|e|e| | |]; try discriminate HF0; cbn [in_F1s] in HF0.
    + rewrite cb_let, declare_top. apply static_agree_seq.
      * rewrite cs_let, Hs, define_names.
        assert (c_symbols (set_symbols st (names_tab (S k) (names ++ [x]))) = names_tab (S k) (names ++ [x])) as Hs0
          by reflexivity.
        pose proof (static_expr e HF0 f (S k) (names ++ [x]) _ Hs0) as He.
        destruct (compile_expression e (set_symbols st (names_tab (S k) (names ++ [x])))) as [st1|e1|y|];
          cbn [bind]; try exact He.
        unfold scoped, emit_sym. cbn [s_scope s_index].
        destruct (operand 16 (Z.of_nat (length names))) as [idx|e1|y|] eqn:Eo; cbn [bind static_agree]; auto.
        unfold operand in Eo. destruct (Z.of_nat (length names) <? 2 ^ 16); inversion Eo. exact I.
      * intros st2 H2. apply (IH HFl f (S k) (names ++ [x]) st2).
        rewrite cs_let, Hs, define_names in H2. apply bind_ok in H2. destruct H2 as [st1 [H1 H2]].
        unfold scoped in H2. cbn [s_scope] in H2.
        destruct (emit_sym_spec _ _ _ _ H2) as [Hs2 _]. rewrite Hs2.
        rewrite (compile_expr_symbols e (set_symbols st (names_tab (S k) (names ++ [x]))) st1 HF0
                   (gtab_names (S k) (names ++ [x])) H1). reflexivity.
    + rewrite (cb_expr f (top_sctx names) e l HF0). apply static_agree_seq.
      * rewrite cs_expr. pose proof (static_expr e HF0 f k names st Hs) as He.
        destruct (compile_expression e st) as [st1|e1|y|]; cbn [bind]; exact He.
      * intros st2 H2. apply (IH HFl f k names st2).
        rewrite cs_expr in H2. apply bind_ok in H2. destruct H2 as [st1 [H1 H2]].
        inversion H2; subst st2. cbn [emit_opcode c_symbols].
        rewrite (compile_expr_symbols e st st1 HF0 Hg H1). exact Hs.
Qed.

(* with enough fuel the static pass never reports ESyntaxError on F1 *)
Lemma check_expr_fuel : forall e, in_F1e e = true -> forall fuel c, (size_expr e <= fuel)%nat ->
  check_expr fuel c e <> Some ESyntaxError.
Proof.
  intros e. induction e as [l IHl op r IHr|op r IHr|z| |b| |x| | |l IHl r IHr| | | |];
    intros HF fuel c Hsz; try discriminate HF; cbn [in_F1e] in HF; cbn [size_expr] in Hsz;
    (destruct fuel as [|f]; [lia|]).
  - apply andb_prop in HF. destruct HF as [HF Hr]. apply andb_prop in HF. destruct HF as [Hop Hl].
    rewrite ck_infix. specialize (IHl Hl f c ltac:(lia)). specialize (IHr Hr f c ltac:(lia)).
    destruct (check_expr f c l) as [e1|]; cbn [first_err]; assumption.
  - apply andb_prop in HF. destruct HF as [Hop Hr]. rewrite ck_prefix. apply IHr; [exact Hr|lia].
  - rewrite ck_int. discriminate.
  - rewrite ck_bool. discriminate.
  - rewrite ck_ident. destruct (s_visible c x); discriminate.
  - destruct l as [| | | | | |x| | | | | | |]; try discriminate HF. rewrite ck_assign_ident.
    destruct (s_visible c x); [|discriminate]. apply IHr; [exact HF|lia].
Qed.

Lemma check_block_fuel : forall l, in_F1 l = true -> forall fuel c, (size_block l <= fuel)%nat ->
  check_block fuel c l <> Some ESyntaxError.
Proof.
  intros l. induction l as [|s0 l IH]; intros HF fuel c Hsz; cbn [size_block] in Hsz;
    (destruct fuel as [|f]; [lia|]).
  - rewrite cb_nil. discriminate.
  - cbn [in_F1 forallb] in HF. apply andb_prop in HF. destruct HF as [HF0 HFl].
    destruct s0 as [x e|e|e| | |]; try discriminate HF0; cbn [in_F1s] in HF0; cbn [size_stmt] in Hsz.
    + rewrite cb_let. pose proof (check_expr_fuel e HF0 f (s_declare c x) ltac:(lia)) as He.
      specialize (IH HFl f (s_declare c x) ltac:(lia)).
      destruct (check_expr f (s_declare c x) e) as [e1|]; cbn [first_err]; assumption.
    + rewrite (cb_expr f c e l HF0). pose proof (check_expr_fuel e HF0 f c ltac:(lia)) as He.
      specialize (IH HFl f c ltac:(lia)).
      destruct (check_expr f c e) as [e1|]; cbn [first_err]; assumption.
Qed.

(** * The theorems *)

(* what the compiler accepts / rejects for an undeclared name, the static pass accepts / rejects *)
Theorem static_check_agrees : forall p, in_F1 p = true -> forall fuel,
  match compile p with
  | Ok _ => static_check fuel p = None \/ static_check fuel p = Some ESyntaxError
  | Err EReferenceError =>
      static_check fuel p = Some EReferenceError \/ static_check fuel p = Some ESyntaxError
  | _ => True
  end.
Proof.
  intros p HF fuel. pose proof (static_stmts p HF fuel O [] compiler_new eq_refl) as H.
  unfold compile, compile_ast. unfold static_check. change (mkS [[]] None 0) with (top_sctx []).
  destruct (compile_statements p compiler_new) as [st1|e|f|]; cbn [snd]; exact H.
Qed.

(* ... where Some ESyntaxError only means that the static pass ran out of fuel: *)
Theorem static_check_fuel : forall p, in_F1 p = true -> forall fuel, (size_block p <= fuel)%nat ->
  static_check fuel p <> Some ESyntaxError.
Proof. intros p HF fuel H. apply check_block_fuel; assumption. Qed.

Theorem compile_reject_F1 : forall orc p, in_F1 p = true -> compile p = Err EReferenceError ->
  forall fuel, (size_block p <= fuel)%nat -> sem_program orc fuel p = SemRejected EReferenceError.
Proof.
  intros orc p HF Hc fuel Hsz. pose proof (static_check_agrees p HF fuel) as H. rewrite Hc in H.
  unfold sem_program. destruct H as [-> | H]; [reflexivity|].
  exfalso. exact (static_check_fuel p HF fuel Hsz H).
Qed.

Theorem static_reject_F1 : forall p, in_F1 p = true -> forall fuel,
  static_check fuel p = Some EReferenceError -> forall bc, compile p <> Ok bc.
Proof.
  intros p HF fuel Hs bc Hc. pose proof (static_check_agrees p HF fuel) as H. rewrite Hc, Hs in H.
  destruct H as [H|H]; discriminate H.
Qed.

(* Compiler correctness for F1.  `r <> SemRejected ESyntaxError` excludes exactly the case that the
   fuel given to the static pass was too small (Sem.static_check reports fuel exhaustion as
   Some ESyntaxError; on F1 nothing else produces that answer: static_check_fuel). *)
Theorem compile_correct_F1 : forall orc p, in_F1 p = true -> ends_expr p = true ->
  forall bc, compile p = Ok bc ->
  forall fuel r, sem_program orc fuel p = r -> r <> SemFuel -> r <> SemRejected ESyntaxError ->
  exists budget, obs_eq (run_program orc bc budget) r.
Proof.
  intros orc p HF HE bc Hc fuel r Hr Hnf Hns.
  apply (compile_correct_F1_accepted orc p HF HE bc Hc fuel r Hr Hnf).
  intros k Hk. pose proof (static_check_agrees p HF fuel) as H. rewrite Hc in H.
  unfold sem_program in Hr. destruct H as [H|H]; rewrite H in Hr.
  - rewrite Hk in Hr. destruct (exec_block orc fuel (mkD [[]] None) p VNull sem_init); discriminate Hr.
  - apply Hns. symmetry. exact Hr.
Qed.

(* the same with explicit sufficient fuel for the static pass *)
Corollary compile_correct_F1_fuel : forall orc p, in_F1 p = true -> ends_expr p = true ->
  forall bc, compile p = Ok bc ->
  forall fuel, (size_block p <= fuel)%nat -> sem_program orc fuel p <> SemFuel ->
  exists budget, obs_eq (run_program orc bc budget) (sem_program orc fuel p).
Proof.
  intros orc p HF HE bc Hc fuel Hsz Hnf.
  apply (compile_correct_F1 orc p HF HE bc Hc fuel _ eq_refl Hnf).
  intros H. unfold sem_program in H.
  destruct (static_check fuel p) as [k|] eqn:Es.
  - inversion H; subst k. exact (static_check_fuel p HF fuel Hsz Es).
  - destruct (exec_block orc fuel (mkD [[]] None) p VNull sem_init); discriminate H.
Qed.

(** * Statement (1): closed scalar expressions (F1a), directly against Sem.eval_expr *)

Section F1a.
  Variable orc : oracle.

  (* the denotation of an F1a expression is a pure function of the expression *)
  Fixpoint pure_eval (e : expr) : outcome val :=
    match e with
    | EInt z => Ok (VInt z)
    | EBool b => Ok (VBool b)
    | EPrefix op r =>
        do v <- pure_eval r;
        match op with
        | OpNegate | OpSubtract => do x <- negate empty_heap v; Ok (fst x)
        | OpNot => lognot v
        | _ => Err ETypeError
        end
    | EInfix l op r =>
        do a <- pure_eval l;
        do b <- pure_eval r;
        match Sem.method_of op with
        | Some m => do x <- binop orc m empty_heap a b; Ok (fst x)
        | None => Err ETypeError
        end
    | _ => Err ETypeError
    end.

  Lemma in_F1a_F1e : forall e, in_F1a e = true -> in_F1e e = true /\ no_ident e = true.
  Proof.
    induction e as [l IHl op r IHr|op r IHr|z| |b| |x| | |l IHl r IHr| | | |]; intros H;
      try discriminate H; cbn [in_F1a in_F1e no_ident] in *.
    - apply andb_prop in H. destruct H as [H Hr]. apply andb_prop in H. destruct H as [Hop Hl].
      destruct (IHl Hl) as [A1 A2]. destruct (IHr Hr) as [B1 B2]. rewrite Hop, A1, A2, B1, B2. auto.
    - apply andb_prop in H. destruct H as [Hop Hr]. destruct (IHr Hr) as [B1 B2]. rewrite Hop, B1, B2. auto.
    - auto.
    - auto.
  Qed.

  Lemma sstate_eta : forall s, mkSt (st_heap s) (st_cells s) (st_next s) (st_funs s) (st_out s) = s.
  Proof. destruct s; reflexivity. Qed.

  Definition pure_spec (e : expr) : Prop :=
    match pure_eval e with
    | Ok v => scalar v = true /\ (forall rs m, peval orc rs e m = Ok (v, m)) /\
              (forall fuel c sst, eval_expr orc fuel c e sst = RFuel \/ eval_expr orc fuel c e sst = ROk v sst)
    | Err k => (forall rs m, peval orc rs e m = Err k) /\
               (forall fuel c sst, eval_expr orc fuel c e sst = RFuel \/ eval_expr orc fuel c e sst = RErr k sst)
    | _ => False
    end.

  (* a value-level operation that, on these operands, is `lift_sres h sr` for every heap h *)
  Lemma lifted_cases : forall (F : heap -> outcome (val * heap)) sr, sres_ok sr ->
    (forall h, F h = lift_sres h sr) ->
    (exists v, scalar v = true /\ forall h, F h = Ok (v, h)) \/ (forall h, F h = Err ETypeError).
  Proof.
    intros F sr Hok HF. destruct sr as [z|b|x|]; cbn [sres_ok] in Hok; try contradiction.
    - left. exists (VInt z). split; [exact Hok|]. intros h. rewrite HF. reflexivity.
    - left. exists (VBool b). split; [reflexivity|]. intros h. rewrite HF. reflexivity.
    - right. intros h. rewrite HF. reflexivity.
  Qed.

  Lemma pure_eval_spec : forall e, in_F1a e = true -> pure_spec e.
  Proof.
    induction e as [l IHl op r IHr|op r IHr|z| |b| |x| | |l IHl r IHr| | | |]; intros H;
      try discriminate H; cbn [in_F1a] in H; unfold pure_spec; cbn [pure_eval].
    - (* EInfix *)
      apply andb_prop in H. destruct H as [H Hr]. apply andb_prop in H. destruct H as [Hop Hl].
      specialize (IHl Hl). specialize (IHr Hr). unfold pure_spec in IHl, IHr.
      destruct (pure_eval l) as [a|ka| |]; try contradiction; cbn [bind].
      + destruct IHl as [Sa [Pl Sl]].
        destruct (pure_eval r) as [b|kb| |]; try contradiction; cbn [bind].
        * destruct IHr as [Sb [Pr Sr]].
          destruct (Sem.method_of op) as [mth|] eqn:Em.
          -- destruct (binop_scalar orc op mth a b Em Sa Sb) as [sr [Hok Hbin]].
             destruct (lifted_cases (fun h => binop orc mth h a b) sr Hok Hbin) as [[v [Sv Hv]]|He].
             ++ rewrite Hv. cbn [bind fst]. split; [exact Sv|]. split.
                ** intros rs m. cbn [peval]. rewrite Pl. cbn [bind]. rewrite Pr. cbn [bind]. rewrite Em, Hv.
                   cbn [bind fst]. rewrite with_new_m_same. reflexivity.
                ** intros [|f] c sst; [left; reflexivity|]. rewrite ee_infix.
                   destruct (Sl f c sst) as [E|E]; rewrite E; cbn [rbind]; [left; reflexivity|].
                   destruct (Sr f c sst) as [E2|E2]; rewrite E2; cbn [rbind]; [left; reflexivity|].
                   rewrite Em, Hv. cbn [lift_heap]. rewrite sstate_eta. right; reflexivity.
             ++ rewrite He. cbn [bind]. split.
                ** intros rs m. cbn [peval]. rewrite Pl. cbn [bind]. rewrite Pr. cbn [bind]. rewrite Em, He.
                   reflexivity.
                ** intros [|f] c sst; [left; reflexivity|]. rewrite ee_infix.
                   destruct (Sl f c sst) as [E|E]; rewrite E; cbn [rbind]; [left; reflexivity|].
                   destruct (Sr f c sst) as [E2|E2]; rewrite E2; cbn [rbind]; [left; reflexivity|].
                   rewrite Em, He. right; reflexivity.
          -- split.
             ++ intros rs m. cbn [peval]. rewrite Pl. cbn [bind]. rewrite Pr. cbn [bind]. rewrite Em. reflexivity.
             ++ intros [|f] c sst; [left; reflexivity|]. rewrite ee_infix.
                destruct (Sl f c sst) as [E|E]; rewrite E; cbn [rbind]; [left; reflexivity|].
                destruct (Sr f c sst) as [E2|E2]; rewrite E2; cbn [rbind]; [left; reflexivity|].
                rewrite Em. right; reflexivity.
        * destruct IHr as [Pr Sr]. split.
          -- intros rs m. cbn [peval]. rewrite Pl. cbn [bind]. rewrite Pr. reflexivity.
          -- intros [|f] c sst; [left; reflexivity|]. rewrite ee_infix.
             destruct (Sl f c sst) as [E|E]; rewrite E; cbn [rbind]; [left; reflexivity|].
             destruct (Sr f c sst) as [E2|E2]; rewrite E2; cbn [rbind]; [left; reflexivity|right; reflexivity].
      + destruct IHl as [Pl Sl]. split.
        * intros rs m. cbn [peval]. rewrite Pl. reflexivity.
        * intros [|f] c sst; [left; reflexivity|]. rewrite ee_infix.
          destruct (Sl f c sst) as [E|E]; rewrite E; cbn [rbind]; [left; reflexivity|right; reflexivity].
    - (* EPrefix *)
      apply andb_prop in H. destruct H as [Hop Hr]. specialize (IHr Hr). unfold pure_spec in IHr.
      destruct (pure_eval r) as [a|ka| |]; try contradiction; cbn [bind].
      + destruct IHr as [Sa [Pr Sr]].
        assert (match (do x <- negate empty_heap a; Ok (fst x)) with
                | Ok v => scalar v = true /\
                    (forall m : mst, (do x <- negate (m_heap m) a; Ok (fst x, with_new_m m x)) = Ok (v, m)) /\
                    (forall sst, lift_heap sst (negate (st_heap sst) a) = ROk v sst)
                | Err k =>
                    (forall m : mst, (do x <- negate (m_heap m) a; Ok (fst x, with_new_m m x)) = Err k) /\
                    (forall sst, lift_heap sst (negate (st_heap sst) a) = RErr k sst)
                | _ => False
                end) as Hneg.
        { destruct (negate_scalar a Sa) as [sr [Hok Hn]].
          destruct (lifted_cases (fun h => negate h a) sr Hok Hn) as [[v [Sv Hv]]|He].
          - rewrite Hv. cbn [bind fst]. split; [exact Sv|]. split.
            + intros m. rewrite Hv. cbn [bind fst]. rewrite with_new_m_same. reflexivity.
            + intros sst. rewrite Hv. cbn [lift_heap]. rewrite sstate_eta. reflexivity.
          - rewrite He. cbn [bind]. split.
            + intros m. rewrite He. reflexivity.
            + intros sst. rewrite He. reflexivity. }
        destruct op; try discriminate Hop.
        * (* OpSubtract *)
          destruct (do x <- negate empty_heap a; Ok (fst x)) as [v|kv| |]; try contradiction.
          -- destruct Hneg as [Sv [Pn Sn]]. split; [exact Sv|]. split.
             ++ intros rs m. cbn [peval]. rewrite Pr. cbn [bind]. apply Pn.
             ++ intros [|f] c sst; [left; reflexivity|]. rewrite ee_prefix.
                destruct (Sr f c sst) as [E|E]; rewrite E; cbn [rbind]; [left; reflexivity|].
                rewrite Sn. right; reflexivity.
          -- destruct Hneg as [Pn Sn]. split.
             ++ intros rs m. cbn [peval]. rewrite Pr. cbn [bind]. apply Pn.
             ++ intros [|f] c sst; [left; reflexivity|]. rewrite ee_prefix.
                destruct (Sr f c sst) as [E|E]; rewrite E; cbn [rbind]; [left; reflexivity|].
                rewrite Sn. right; reflexivity.
        * (* OpNot *)
          destruct a as [|x|x| | | |]; try discriminate Sa; cbn [lognot].
          -- split.
             ++ intros rs m. cbn [peval]. rewrite Pr. reflexivity.
             ++ intros [|f] c sst; [left; reflexivity|]. rewrite ee_prefix.
                destruct (Sr f c sst) as [E|E]; rewrite E; cbn [rbind]; [left; reflexivity|right; reflexivity].
          -- split; [reflexivity|]. split.
             ++ intros rs m. cbn [peval]. rewrite Pr. reflexivity.
             ++ intros [|f] c sst; [left; reflexivity|]. rewrite ee_prefix.
                destruct (Sr f c sst) as [E|E]; rewrite E; cbn [rbind]; [left; reflexivity|right; reflexivity].
          -- split.
             ++ intros rs m. cbn [peval]. rewrite Pr. reflexivity.
             ++ intros [|f] c sst; [left; reflexivity|]. rewrite ee_prefix.
                destruct (Sr f c sst) as [E|E]; rewrite E; cbn [rbind]; [left; reflexivity|right; reflexivity].
        * (* OpNegate *)
          destruct (do x <- negate empty_heap a; Ok (fst x)) as [v|kv| |]; try contradiction.
          -- destruct Hneg as [Sv [Pn Sn]]. split; [exact Sv|]. split.
             ++ intros rs m. cbn [peval]. rewrite Pr. cbn [bind]. apply Pn.
             ++ intros [|f] c sst; [left; reflexivity|]. rewrite ee_prefix.
                destruct (Sr f c sst) as [E|E]; rewrite E; cbn [rbind]; [left; reflexivity|].
                rewrite Sn. right; reflexivity.
          -- destruct Hneg as [Pn Sn]. split.
             ++ intros rs m. cbn [peval]. rewrite Pr. cbn [bind]. apply Pn.
             ++ intros [|f] c sst; [left; reflexivity|]. rewrite ee_prefix.
                destruct (Sr f c sst) as [E|E]; rewrite E; cbn [rbind]; [left; reflexivity|].
                rewrite Sn. right; reflexivity.
      + destruct IHr as [Pr Sr]. split.
        * intros rs m. cbn [peval]. rewrite Pr. reflexivity.
        * intros [|f] c sst; [left; reflexivity|]. rewrite ee_prefix.
          destruct (Sr f c sst) as [E|E]; rewrite E; cbn [rbind]; [left; reflexivity|right; reflexivity].
    - (* EInt *)
      split.
      + cbn [scalar]. unfold lit_ok in H. unfold in_int_range.
        apply andb_prop in H. destruct H as [H0 H1]. apply Z.leb_le in H0. rewrite H1.
        pose proof MIN_INT_val. apply andb_true_intro. split; [apply Z.leb_le; lia|reflexivity].
      + split; [reflexivity|]. intros [|f] c sst; [left|right]; reflexivity.
    - (* EBool *)
      split; [reflexivity|]. split; [reflexivity|]. intros [|f] c sst; [left|right]; reflexivity.
  Qed.

  (* Statement (1).  For every compiler state (any code buffer, pool, symbol table) for which
     compilation succeeds, the emitted code `ce`, placed at its offset in ANY program whose pool
     agrees with the compiler's, started in ANY machine state at that offset: whenever Sem gives
     the expression a value v, the machine reaches, in finitely many steps, the state that differs
     from the start state only by v pushed and ip at the end of `ce`; whenever Sem gives an error,
     the machine stops with that error and has printed nothing more.  Sem's own state is unchanged. *)
  Theorem compile_expr_correct_F1a : forall e, in_F1a e = true ->
    forall st st', compile_expression e st = Ok st' ->
    exists ce kx, c_code st' = c_code st ++ ce /\ c_constants st' = c_constants st ++ kx /\
    forall prog, code_at prog (code_len st) ce -> consts_ok prog (c_constants st') ->
    forall s, v_ip s = code_len st ->
    forall fuel c sst,
    match eval_expr orc fuel c e sst with
    | ROk v sst' =>
        sst' = sst /\
        reaches orc prog s (mkVM (v :: v_stack s) (v_slen s + 1) (v_globals s) (v_frames s) (code_len st')
                                 (v_bp s) (v_final s) (v_heap s) (v_gc s) (v_out s))
    | RErr k sst' => sst' = sst /\ stops orc prog s (Err k) (v_out s)
    | RFuel => True
    | RSig _ _ | RFault _ _ => False
    end.
  Proof.
    intros e HF st st' Hc. destruct (in_F1a_F1e e HF) as [HFe Hni].
    destruct (compile_expr_sim orc e HFe st st' (or_introl Hni) Hc) as [_ [ce [kx [Hce [Hkx [_ Hsim]]]]]].
    exists ce, kx. split; [exact Hce|]. split; [exact Hkx|].
    intros prog Hcode Hk s Hip fuel c sst. specialize (Hsim prog Hcode Hk s Hip).
    pose proof (pure_eval_spec e HF) as Hp. unfold pure_spec in Hp.
    destruct (pure_eval e) as [v|k| |]; try contradiction.
    - destruct Hp as [_ [Pe Se]]. rewrite Pe in Hsim. cbn [sim_expr] in Hsim.
      destruct (Se fuel c sst) as [E|E]; rewrite E; [exact I|]. split; [reflexivity|exact Hsim].
    - destruct Hp as [Pe Se]. rewrite Pe in Hsim. cbn [sim_expr retag] in Hsim.
      destruct (Se fuel c sst) as [E|E]; rewrite E; [exact I|]. split; [reflexivity|exact Hsim].
  Qed.
End F1a.

(** * Examples: the hypotheses are satisfiable, and both sides compute the same observations *)

Definition ex_orc : oracle := mkOracle (fun _ => []) (fun _ => None) (fun x _ => x).
Definition ex_a : text := [97%N].

(* stel a = 10 - 3; a = a * 2; a + 1 *)
Definition ex_prog : block :=
  [ SLet ex_a (EInfix (EInt 10) OpSubtract (EInt 3));
    SExpr (EAssign (EIdent ex_a) (EInfix (EIdent ex_a) OpMultiply (EInt 2)));
    SExpr (EInfix (EIdent ex_a) OpAdd (EInt 1)) ].

Example ex_prog_in_F1 : in_F1 ex_prog = true /\ ends_expr ex_prog = true.
Proof. split; vm_compute; reflexivity. Qed.

Example ex_prog_compiles : exists bc, compile ex_prog = Ok bc.
Proof. vm_compute. eexists. reflexivity. Qed.

Example ex_prog_runs :
  match compile ex_prog with
  | Ok bc => o_result (run_program ex_orc bc 100) = Ok (VInt 15) /\ o_out (run_program ex_orc bc 100) = []
             /\ obs_eq (run_program ex_orc bc 100) (sem_program ex_orc 100 ex_prog)
  | _ => False
  end.
Proof. vm_compute. repeat split; reflexivity. Qed.

Example ex_prog_sem : exists h, sem_program ex_orc 100 ex_prog = SemValue (VInt 15) h [].
Proof. vm_compute. eexists. reflexivity. Qed.

(* the theorem applied to the example *)
Example ex_prog_by_theorem : forall bc, compile ex_prog = Ok bc ->
  exists budget, obs_eq (run_program ex_orc bc budget) (sem_program ex_orc 100 ex_prog).
Proof.
  intros bc H.
  apply (compile_correct_F1_fuel ex_orc ex_prog (proj1 ex_prog_in_F1) (proj2 ex_prog_in_F1) bc H 100).
  - vm_compute. lia.
  - vm_compute. discriminate.
Qed.

(* a run-time error: ja + 1; both sides TypeError *)
Definition ex_err : block := [SExpr (EInfix (EBool true) OpAdd (EInt 1))].
Example ex_err_runs :
  match compile ex_err with
  | Ok bc => o_result (run_program ex_orc bc 100) = Err ETypeError
             /\ obs_eq (run_program ex_orc bc 100) (sem_program ex_orc 100 ex_err)
  | _ => False
  end.
Proof. vm_compute. repeat split; reflexivity. Qed.

(* an undeclared name: stel a = 1; b; rejected by both front ends before anything runs *)
Definition ex_undeclared : block := [SLet ex_a (EInt 1); SExpr (EIdent [98%N])].
Example ex_undeclared_rejected :
  in_F1 ex_undeclared = true /\ compile ex_undeclared = Err EReferenceError
  /\ sem_program ex_orc 100 ex_undeclared = SemRejected EReferenceError.
Proof. vm_compute. repeat split; reflexivity. Qed.

(* the fuel quirk of Sem.static_check that forces the hypothesis r <> SemRejected ESyntaxError *)
Example ex_static_fuel_quirk :
  sem_program ex_orc 1 ex_prog = SemRejected ESyntaxError /\ exists bc, compile ex_prog = Ok bc.
Proof. vm_compute. split; [reflexivity|eexists; reflexivity]. Qed.

(* statement (1) is not vacuous: (10 - 3) * 2 < 15 && !nee compiles from the empty state *)
Definition ex_expr : expr :=
  EInfix (EInfix (EInfix (EInfix (EInt 10) OpSubtract (EInt 3)) OpMultiply (EInt 2)) OpLt (EInt 15))
         OpAnd (EPrefix OpNot (EBool false)).
Example ex_expr_ok :
  in_F1a ex_expr = true /\ (exists st', compile_expression ex_expr compiler_new = Ok st')
  /\ pure_eval ex_orc ex_expr = Ok (VBool true).
Proof. vm_compute. split; [reflexivity|]. split; [eexists; reflexivity|reflexivity]. Qed.

Print Assumptions compile_expr_correct_F1a.
Print Assumptions compile_correct_F1.
Print Assumptions compile_correct_F1_fuel.
Print Assumptions compile_reject_F1.
Print Assumptions static_reject_F1.
Print Assumptions static_check_agrees.
