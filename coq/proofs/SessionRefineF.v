(* SessionRefineF.v - Sem-only facts about the fuelled definitional evaluator (nothing about the compiler
   or the machine), and the "one growing program" reading of a session for fragment F2.

   A. `sem_fuel_mono`      : more fuel never changes a result that is not RFuel (whole language).
   B. `check_fuel_mono`    : more fuel keeps an acceptance of the static pass (whole language).
   C. `check_block_app_gen`: the static pass accepts a concatenation (whole language).
   D. `exec_block_top_gen` : exec_block and exec_top agree on statement lists without antwoord/stop/volgende
                             at the top.
   E. `exec_top_static`    : the environment after a successful exec_top declares what static_after says.
   F. `f2_out_unchanged`   : F2 code prints nothing.
   G. `sem_session_is_program_F2` : a session of F2 lines that all succeed = the single program made of them.
   H. an example. *)
From Coq Require Import ZArith Lia Bool List String.
From NL.Model Require Import VM Session.
From NL.Spec Require Import Sem SemSession Fragment Fragment2.
From NL.Proofs Require Import CompileCorrectB CompileCorrectD SessionRefine SessionRefineB.
Import ListNotations.
Open Scope Z_scope.

(** * A. Fuel monotonicity of the evaluator *)

(* x' is x unless x ran out of fuel *)
Definition rle {A} (x x' : res A) : Prop := x <> RFuel -> x' = x.

Lemma rle_refl : forall A (x : res A), rle x x.
Proof. intros A x _. reflexivity. Qed.

Lemma rle_fuel : forall A (x' : res A), rle RFuel x'.
Proof. intros A x' H. exfalso. apply H. reflexivity. Qed.

Lemma rcase_mono : forall A B (x x' : res A) (K K' : res A -> res B),
  rle x x' -> K RFuel = RFuel -> (forall y, y <> RFuel -> rle (K y) (K' y)) -> rle (K x) (K' x').
Proof.
  intros A B x x' K K' Hx HK HKK. unfold rle in Hx. destruct x as [a st|s st|k st|f st|].
  5: { rewrite HK. apply rle_fuel. }
  all: rewrite Hx by discriminate; apply HKK; discriminate.
Qed.

Lemma rbind_mono : forall A B (x x' : res A) (k k' : A -> sstate -> res B),
  rle x x' -> (forall a st, rle (k a st) (k' a st)) -> rle (rbind x k) (rbind x' k').
Proof.
  intros A B x x' k k' Hx Hk.
  apply (rcase_mono A B x x' (fun y => rbind y k) (fun y => rbind y k') Hx); [reflexivity|].
  intros y _. destruct y; cbn [rbind]; try apply rle_refl. apply Hk.
Qed.

Section Mono.
  Variable orc : oracle.

  (* the local fixpoints of eval_expr, named *)
  Definition evl (f : nat) (c : dctx) : list expr -> sstate -> res (list val) :=
    fix go (l : list expr) (st : sstate) : res (list val) :=
      match l with
      | [] => ROk [] st
      | x :: r =>
          rdo (v, st) <- eval_expr orc f c x st;
          rdo (vs, st) <- go r st;
          ROk (v :: vs) st
      end.

  Definition bindp : list text -> list val -> list (text * positive) -> sstate -> list (text * positive) * sstate :=
    fix bind (ps : list text) (vs : list val) (acc : list (text * positive)) (st : sstate) :=
      match ps with
      | [] => (acc, st)
      | p :: ps' =>
          let '(cl, st') := new_cell st in
          let '(v, vs') := match vs with v :: r => (v, r) | [] => (VNull, []) end in
          bind ps' vs' ((p, cl) :: acc) (set_cell cl v st')
      end.

  Definition ret_of (r : res val) : res val :=
    match r with
    | ROk v st2 => ROk v st2
    | RSig (SigReturn v) st2 => ROk v st2
    | RSig _ st2 => RErr ESyntaxError st2
    | RErr k st2 => RErr k st2
    | RFault x st2 => RFault x st2
    | RFuel => RFuel
    end.

  Definition call_fun (f : nat) (fv : val) (vs : list val) (st : sstate) : res val :=
    match fv with
    | VFun id _ =>
        match nth_error (st_funs st) (Z.to_nat id) with
        | Some clo =>
            if Nat.ltb (length (k_params clo)) (length vs) then RErr EArgumentError st
            else
              let '(scope, st1) := bindp (k_params clo) vs [] st in
              ret_of (exec_block orc f (mkD [scope] (Some (k_genv clo))) (k_body clo) VNull st1)
        | None => RFault FBadTag st
        end
    | _ => RErr ETypeError st
    end.

  Definition call_bi b (vs : list val) (st : sstate) : res val :=
    match call_builtin orc b (st_heap st) vs with
    | Ok (v, h, printed) =>
        ROk v (mkSt h (st_cells st) (st_next st) (st_funs st) (st_out st ++ printed))
    | Err k => RErr k st
    | Fault x => RFault x st
    | OutOfFuel => RFuel
    end.

  Definition builtin_of (fn : expr) := match fn with EIdent x => assoc_text x builtin_names | _ => None end.

  Lemma xe_call : forall f c fn args st,
    eval_expr orc (S f) c (ECall fn args) st =
    rbind (evl f c args st) (fun vs st =>
      match builtin_of fn with
      | Some b => call_bi b vs st
      | None => rbind (eval_expr orc f c fn st) (fun fv st => call_fun f fv vs st)
      end).
  Proof. reflexivity. Qed.

  Lemma xe_array : forall f c vs st,
    eval_expr orc (S f) c (EArray vs) st =
    rbind (evl f c vs st) (fun xs st =>
      let '(l, h) := h_alloc (st_heap st) (OArr xs) in ROk (VArr l) (with_heap st h)).
  Proof. reflexivity. Qed.

  Lemma xe_if : forall f c cnd t alt st,
    eval_expr orc (S f) c (EIf cnd t alt) st =
    rbind (eval_expr orc f c cnd st) (fun b st =>
      match b with
      | VBool true => exec_block orc f (d_push c) t VNull st
      | VBool false =>
          match alt with
          | Some bl => exec_block orc f (d_push c) bl VNull st
          | None => ROk VNull st
          end
      | _ => RErr ETypeError st
      end).
  Proof. reflexivity. Qed.

  Lemma xe_while : forall f c cnd body st,
    eval_expr orc (S f) c (EWhile cnd body) st = eval_while orc f f c cnd body VNull st.
  Proof. reflexivity. Qed.

  Definition while_k (f iter : nat) (c : dctx) (cnd : expr) (body : list stmt) (r : res val) : res val :=
    match r with
    | ROk v st1 => eval_while orc f iter c cnd body v st1
    | RSig SigBreak st1 => ROk VNull st1
    | RSig SigContinue st1 => eval_while orc f iter c cnd body VNull st1
    | other => other
    end.

  Lemma xw_step : forall f iter c cnd body last st,
    eval_while orc (S f) iter c cnd body last st =
    rbind (eval_expr orc f c cnd st) (fun b st =>
      match b with
      | VBool true => while_k f iter c cnd body (exec_block orc f (d_push c) body VNull st)
      | VBool false => ROk last st
      | _ => RErr ETypeError st
      end).
  Proof.
    intros f iter c cnd body last st.
    change (eval_while orc (S f) iter c cnd body last st) with
      (rbind (eval_expr orc f c cnd st) (fun b st =>
        match b with
        | VBool true =>
            match exec_block orc f (d_push c) body VNull st with
            | ROk v st1 => eval_while orc f iter c cnd body v st1
            | RSig SigBreak st1 => ROk VNull st1
            | RSig SigContinue st1 => eval_while orc f iter c cnd body VNull st1
            | other => other
            end
        | VBool false => ROk last st
        | _ => RErr ETypeError st
        end)).
    destruct (eval_expr orc f c cnd st) as [v st1| | | |]; try reflexivity. cbn [rbind].
    destruct v as [|[|]| | | | |]; try reflexivity. unfold while_k.
    destruct (exec_block orc f (d_push c) body VNull st1) as [v st2|[| |v] st2|k st2|x st2|]; reflexivity.
  Qed.

  Lemma xb_nil : forall f c last st, exec_block orc (S f) c [] last st = ROk last st.
  Proof. reflexivity. Qed.
  Lemma xb_let : forall f c x e r last st,
    exec_block orc (S f) c (SLet x e :: r) last st =
    rbind (eval_expr orc f (d_declare c x (st_next st)) e (snd (new_cell st))) (fun v st2 =>
      exec_block orc f (d_declare c x (st_next st)) r VNull (set_cell (st_next st) v st2)).
  Proof. reflexivity. Qed.
  Lemma xb_expr : forall f c e r last st,
    exec_block orc (S f) c (SExpr e :: r) last st =
    rbind (eval_expr orc f c e st) (fun v st1 =>
      exec_block orc f (match e with
                        | EFunction (ch :: name) _ _ => d_declare c (ch :: name) (Pos.pred (st_next st1))
                        | _ => c
                        end) r v st1).
  Proof. reflexivity. Qed.
  Lemma xb_block : forall f c b r last st,
    exec_block orc (S f) c (SBlock b :: r) last st =
    rbind (exec_block orc f (d_push c) b VNull st) (fun v st1 => exec_block orc f c r v st1).
  Proof. reflexivity. Qed.
  Lemma xb_return : forall f c e r last st,
    exec_block orc (S f) c (SReturn e :: r) last st =
    rbind (eval_expr orc f c e st) (fun v st1 => RSig (SigReturn v) st1).
  Proof. reflexivity. Qed.
  Lemma xb_break : forall f c r last st, exec_block orc (S f) c (SBreak :: r) last st = RSig SigBreak st.
  Proof. reflexivity. Qed.
  Lemma xb_continue : forall f c r last st, exec_block orc (S f) c (SContinue :: r) last st = RSig SigContinue st.
  Proof. reflexivity. Qed.

  (* the three functions at fuel g' extend those at fuel g *)
  Definition mono_at (g g' : nat) : Prop :=
    (forall c e st, rle (eval_expr orc g c e st) (eval_expr orc g' c e st)) /\
    (forall iter iter' c cnd body last st,
       rle (eval_while orc g iter c cnd body last st) (eval_while orc g' iter' c cnd body last st)) /\
    (forall c b last st, rle (exec_block orc g c b last st) (exec_block orc g' c b last st)).

  Lemma evl_mono : forall g g' c,
    (forall c e st, rle (eval_expr orc g c e st) (eval_expr orc g' c e st)) ->
    forall l st, rle (evl g c l st) (evl g' c l st).
  Proof.
    intros g g' c He l. induction l as [|x r IH]; intros st; [apply rle_refl|].
    cbn [evl]. apply rbind_mono; [apply He|]. intros v st1.
    apply rbind_mono; [apply IH|]. intros vs st2. apply rle_refl.
  Qed.

  Lemma mono_step : forall g g', mono_at g g' -> mono_at (S g) (S g').
  Proof.
    intros g g' [He [Hw Hb]]. split; [|split].
    - intros c e st.
      destruct e as [l op r|op r|z|x|b|cnd t alt|x|name ps body|fn args|l r|s|vs|l i|cnd body].
      + cbn [eval_expr]. apply rbind_mono; [apply He|]. intros a st1.
        apply rbind_mono; [apply He|]. intros b st2. apply rle_refl.
      + cbn [eval_expr]. apply rbind_mono; [apply He|]. intros a st1. apply rle_refl.
      + apply rle_refl.
      + apply rle_refl.
      + apply rle_refl.
      + rewrite !xe_if. apply rbind_mono; [apply He|]. intros v st1.
        destruct v as [|[|]| | | | |]; try apply rle_refl; [apply Hb|].
        destruct alt as [bl|]; [apply Hb|apply rle_refl].
      + apply rle_refl.
      + apply rle_refl.
      + rewrite !xe_call. apply rbind_mono; [apply evl_mono; exact He|]. intros vs st1.
        destruct (builtin_of fn) as [b|]; [apply rle_refl|].
        apply rbind_mono; [apply He|]. intros fv st2. unfold call_fun.
        destruct fv as [| | |id k| | |]; try apply rle_refl.
        destruct (nth_error (st_funs st2) (Z.to_nat id)) as [clo|]; [|apply rle_refl].
        destruct (Nat.ltb (length (k_params clo)) (length vs)); [apply rle_refl|].
        destruct (bindp (k_params clo) vs [] st2) as [scope st3].
        apply (rcase_mono _ _ _ _ ret_of ret_of (Hb _ _ _ _)); [reflexivity|].
        intros y _. apply rle_refl.
      + destruct l as [ | | | | | |x| | | | | |l i| ]; try apply rle_refl.
        * cbn [eval_expr]. destruct (d_lookup c x); [|apply rle_refl].
          apply rbind_mono; [apply He|]. intros a st1. apply rle_refl.
        * cbn [eval_expr]. apply rbind_mono; [apply He|]. intros a st1.
          apply rbind_mono; [apply He|]. intros b st2.
          apply rbind_mono; [apply He|]. intros v st3. apply rle_refl.
      + apply rle_refl.
      + rewrite !xe_array. apply rbind_mono; [apply evl_mono; exact He|]. intros xs st1. apply rle_refl.
      + cbn [eval_expr]. apply rbind_mono; [apply He|]. intros a st1.
        apply rbind_mono; [apply He|]. intros b st2. apply rle_refl.
      + rewrite !xe_while. apply Hw.
    - intros iter iter' c cnd body last st. rewrite !xw_step.
      apply rbind_mono; [apply He|]. intros v st1.
      destruct v as [|[|]| | | | |]; try apply rle_refl.
      apply (rcase_mono _ _ _ _ (while_k g iter c cnd body) (while_k g' iter' c cnd body) (Hb _ _ _ _));
        [reflexivity|].
      intros y _. destruct y as [v st2|[| |v] st2|k st2|f st2|]; cbn [while_k]; try apply rle_refl; apply Hw.
    - intros c b last st. destruct b as [|s r]; [apply rle_refl|].
      destruct s as [x e|e|e|b'| |].
      + rewrite !xb_let. apply rbind_mono; [apply He|]. intros v st2. apply Hb.
      + rewrite !xb_return. apply rbind_mono; [apply He|]. intros v st2. apply rle_refl.
      + rewrite !xb_expr. apply rbind_mono; [apply He|]. intros v st2. apply Hb.
      + rewrite !xb_block. apply rbind_mono; [apply Hb|]. intros v st2. apply Hb.
      + apply rle_refl.
      + apply rle_refl.
  Qed.

  Lemma mono_all : forall n n', (n <= n')%nat -> mono_at n n'.
  Proof.
    induction n as [|g IH]; intros n' Hle.
    - split; [|split]; intros; apply rle_fuel.
    - destruct n' as [|g']; [lia|]. apply mono_step. apply IH. lia.
  Qed.
End Mono.

Theorem sem_fuel_mono : forall orc n,
  (forall n' c e st, (n <= n')%nat -> eval_expr orc n c e st <> RFuel ->
     eval_expr orc n' c e st = eval_expr orc n c e st) /\
  (forall n' iter iter' c cnd body last st, (n <= n')%nat ->
     eval_while orc n iter c cnd body last st <> RFuel ->
     eval_while orc n' iter' c cnd body last st = eval_while orc n iter c cnd body last st) /\
  (forall n' c b last st, (n <= n')%nat -> exec_block orc n c b last st <> RFuel ->
     exec_block orc n' c b last st = exec_block orc n c b last st).
Proof.
  intros orc n. split; [|split].
  - intros n' c e st Hle. destruct (mono_all orc n n' Hle) as [He _]. apply He.
  - intros n' iter iter' c cnd body last st Hle. destruct (mono_all orc n n' Hle) as [_ [Hw _]]. apply Hw.
  - intros n' c b last st Hle. destruct (mono_all orc n n' Hle) as [_ [_ Hb]]. apply Hb.
Qed.

(** * B. Fuel monotonicity of the static pass *)

Definition cle (a a' : option errkind) : Prop := a = None -> a' = None.

Lemma cle_refl : forall a, cle a a.
Proof. intros a H. exact H. Qed.
Lemma cle_some : forall k a', cle (Some k) a'.
Proof. intros k a' H. discriminate H. Qed.
Lemma first_err_mono : forall a a' b b',
  cle a a' -> cle (b tt) (b' tt) -> cle (first_err a b) (first_err a' b').
Proof.
  intros a a' b b' Ha Hb. destruct a as [k|]; [apply cle_some|].
  unfold cle in Ha. rewrite Ha by reflexivity. exact Hb.
Qed.
Lemma first_err_none : forall a b, first_err a b = None -> a = None /\ b tt = None.
Proof. intros [k|] b H; [discriminate H|]. split; [reflexivity|exact H]. Qed.

Definition ckl (f : nat) : sctx -> list expr -> option errkind :=
  fix go (c : sctx) (l : list expr) : option errkind :=
    match l with
    | [] => None
    | x :: r => first_err (check_expr f c x) (fun _ => go c r)
    end.

Lemma yc_if : forall f c cnd t alt, check_expr (S f) c (EIf cnd t alt) =
  first_err (check_expr f c cnd) (fun _ =>
  first_err (check_block f (s_push c) t) (fun _ =>
  match alt with Some b => check_block f (s_push c) b | None => None end)).
Proof. reflexivity. Qed.
Lemma yc_while : forall f c cnd body, check_expr (S f) c (EWhile cnd body) =
  first_err (check_expr f (mkS (s_local c) (s_global c) (S (s_loops c))) cnd)
            (fun _ => check_block f (s_push (mkS (s_local c) (s_global c) (S (s_loops c)))) body).
Proof. reflexivity. Qed.
Definition fun_ctx (c : sctx) (name : text) (params : list text) : sctx :=
  let c1 := match name with [] => c | _ => s_declare c name end in
  mkS [rev params] (Some (match s_global c1 with Some g => g | None => s_local c1 end)) 0.
Lemma yc_function : forall f c name params body, check_expr (S f) c (EFunction name params body) =
  check_block f (fun_ctx c name params) body.
Proof. reflexivity. Qed.
Lemma yc_call : forall f c fn args, check_expr (S f) c (ECall fn args) =
  first_err (ckl f c args) (fun _ =>
    match fn with
    | EIdent x => if is_builtin_name x then None else check_expr f c fn
    | _ => check_expr f c fn
    end).
Proof. reflexivity. Qed.
Lemma yc_array : forall f c vs, check_expr (S f) c (EArray vs) = ckl f c vs.
Proof. reflexivity. Qed.

(* one statement; the context its successors are checked in *)
Definition chk1 (f : nat) (c : sctx) (s : stmt) : option errkind :=
  match s with
  | SLet x e => check_expr f (s_declare c x) e
  | SExpr e => check_expr f c e
  | SBlock b => check_block f (s_push c) b
  | SReturn e => match s_global c with None => Some ESyntaxError | Some _ => check_expr f c e end
  | SBreak | SContinue => match s_loops c with O => Some ESyntaxError | S _ => None end
  end.
Definition sdecl (c : sctx) (s : stmt) : sctx :=
  match stmt_declares s with Some x => s_declare c x | None => c end.

Lemma yb_nil : forall f c, check_block (S f) c [] = None.
Proof. reflexivity. Qed.
(* check_block declares for its successors exactly what stmt_declares / static_after say *)
Lemma yb_cons : forall f c s r, check_block (S f) c (s :: r) =
  first_err (chk1 f c s) (fun _ => check_block f (sdecl c s) r).
Proof.
  intros f c s r. destruct s as [x e|e|e|b| |]; try reflexivity.
  - change (check_block (S f) c (SReturn e :: r)) with
      (match s_global c with None => Some ESyntaxError
       | Some _ => first_err (check_expr f c e) (fun _ => check_block f c r) end).
    cbn [chk1]. destruct (s_global c); reflexivity.
  - destruct e; try reflexivity. destruct name; reflexivity.
  - change (check_block (S f) c (SBreak :: r)) with
      (match s_loops c with O => Some ESyntaxError | S _ => check_block f c r end).
    cbn [chk1]. destruct (s_loops c); reflexivity.
  - change (check_block (S f) c (SContinue :: r)) with
      (match s_loops c with O => Some ESyntaxError | S _ => check_block f c r end).
    cbn [chk1]. destruct (s_loops c); reflexivity.
Qed.

Definition cmono_at (g g' : nat) : Prop :=
  (forall c e, cle (check_expr g c e) (check_expr g' c e)) /\
  (forall c b, cle (check_block g c b) (check_block g' c b)).

Lemma ckl_mono : forall g g', (forall c e, cle (check_expr g c e) (check_expr g' c e)) ->
  forall c l, cle (ckl g c l) (ckl g' c l).
Proof.
  intros g g' He c l. induction l as [|x r IH]; [apply cle_refl|].
  cbn [ckl]. apply first_err_mono; [apply He|exact IH].
Qed.

Lemma chk1_mono : forall g g', cmono_at g g' -> forall c s, cle (chk1 g c s) (chk1 g' c s).
Proof.
  intros g g' [He Hb] c s. destruct s as [x e|e|e|b| |]; cbn [chk1]; try apply He; try apply Hb; try apply cle_refl.
  destruct (s_global c); [apply He|apply cle_refl].
Qed.

Lemma cmono_step : forall g g', cmono_at g g' -> cmono_at (S g) (S g').
Proof.
  intros g g' HH. pose proof HH as [He Hb]. split.
  - intros c e.
    destruct e as [l op r|op r|z|x|b|cnd t alt|x|name ps body|fn args|l r|s|vs|l i|cnd body].
    + cbn [check_expr]. apply first_err_mono; apply He.
    + cbn [check_expr]. apply He.
    + apply cle_refl.
    + apply cle_refl.
    + apply cle_refl.
    + rewrite !yc_if. apply first_err_mono; [apply He|]. apply first_err_mono; [apply Hb|].
      destruct alt as [bl|]; [apply Hb|apply cle_refl].
    + apply cle_refl.
    + rewrite !yc_function. apply Hb.
    + rewrite !yc_call. apply first_err_mono; [apply ckl_mono; exact He|].
      destruct fn; try apply He. destruct (is_builtin_name s); [apply cle_refl|apply He].
    + destruct l as [ | | | | | |x| | | | | |l i| ]; try apply cle_refl.
      * cbn [check_expr]. destruct (s_visible c x); [apply He|apply cle_refl].
      * cbn [check_expr]. apply first_err_mono; [apply He|]. apply first_err_mono; apply He.
    + apply cle_refl.
    + rewrite !yc_array. apply ckl_mono; exact He.
    + cbn [check_expr]. apply first_err_mono; apply He.
    + rewrite !yc_while. apply first_err_mono; [apply He|apply Hb].
  - intros c b. destruct b as [|s r]; [apply cle_refl|].
    rewrite !yb_cons. apply first_err_mono; [apply chk1_mono; exact HH|apply Hb].
Qed.

Lemma cmono_all : forall n n', (n <= n')%nat -> cmono_at n n'.
Proof.
  induction n as [|g IH]; intros n' Hle.
  - split; intros; apply cle_some.
  - destruct n' as [|g']; [lia|]. apply cmono_step. apply IH. lia.
Qed.

Theorem check_fuel_mono : forall n n', (n <= n')%nat ->
  (forall c e, check_expr n c e = None -> check_expr n' c e = None) /\
  (forall c b, check_block n c b = None -> check_block n' c b = None).
Proof. intros n n' Hle. exact (cmono_all n n' Hle). Qed.

(** * C. The static pass over a concatenation *)

Lemma static_after_cons : forall c s r, static_after c (s :: r) = static_after (sdecl c s) r.
Proof. reflexivity. Qed.

Theorem check_block_app_gen : forall a b f c,
  check_block f c a = None -> check_block f (static_after c a) b = None ->
  check_block (f + length a) c (a ++ b) = None.
Proof.
  intros a. induction a as [|s a IH]; intros b f c Ha Hb.
  - cbn [length app static_after] in *. rewrite Nat.add_0_r. exact Hb.
  - destruct f as [|g]; [discriminate Ha|].
    cbn [length app]. replace (S g + S (length a))%nat with (S (S g + length a)) by lia.
    rewrite yb_cons in Ha. apply first_err_none in Ha. destruct Ha as [H1 Ha].
    rewrite yb_cons. rewrite static_after_cons in Hb.
    destruct (cmono_all g (S g + length a) ltac:(lia)) as [He' Hb'].
    rewrite (chk1_mono g (S g + length a) (conj He' Hb') c s H1). cbn [first_err].
    apply IH; [|exact Hb].
    destruct (cmono_all g (S g) ltac:(lia)) as [_ Hb'']. apply Hb''. exact Ha.
Qed.

(** * D. exec_block (fuel per statement) against exec_top (no fuel per statement) *)

Definition top_ok (l : list stmt) : bool :=
  forallb (fun s => match s with SReturn _ | SBreak | SContinue => false | _ => true end) l.

Definition nst (st : sstate) : sstate :=
  mkSt (st_heap st) (st_cells st) (Pos.succ (st_next st)) (st_funs st) (st_out st).

Definition top_k (c' : dctx) (r : res val) (k : val -> sstate -> dctx * res val) : dctx * res val :=
  match r with
  | ROk v st => k v st
  | RSig s st => (c', RSig s st)
  | RErr e st => (c', RErr e st)
  | RFault x st => (c', RFault x st)
  | RFuel => (c', RFuel)
  end.

Lemma snd_top_k : forall c' r k, snd (top_k c' r k) = rbind r (fun v st => snd (k v st)).
Proof. intros c' r k. destruct r; reflexivity. Qed.

Section Top.
  Variable orc : oracle.

  Lemma xt_let : forall fuel c x e r last st,
    exec_top orc fuel c (SLet x e :: r) last st =
    top_k (d_declare c x (st_next st)) (eval_expr orc fuel (d_declare c x (st_next st)) e (nst st))
      (fun v st2 => exec_top orc fuel (d_declare c x (st_next st)) r VNull (set_cell (st_next st) v st2)).
  Proof.
    intros. rewrite et_let. unfold new_cell. fold (nst st). cbv zeta.
    destruct (eval_expr orc fuel (d_declare c x (st_next st)) e (nst st)); reflexivity.
  Qed.
  Definition edecl (c : dctx) (e : expr) (st1 : sstate) : dctx :=
    match e with
    | EFunction (ch :: name) _ _ => d_declare c (ch :: name) (Pos.pred (st_next st1))
    | _ => c
    end.
  Lemma xt_expr : forall fuel c e r last st,
    exec_top orc fuel c (SExpr e :: r) last st =
    top_k c (eval_expr orc fuel c e st) (fun v st1 => exec_top orc fuel (edecl c e st1) r v st1).
  Proof. intros. rewrite et_expr. destruct (eval_expr orc fuel c e st); reflexivity. Qed.
  Lemma xt_block : forall fuel c b r last st,
    exec_top orc fuel c (SBlock b :: r) last st =
    top_k c (exec_block orc fuel (d_push c) b VNull st) (fun v st1 => exec_top orc fuel c r v st1).
  Proof.
    intros. cbn [exec_top]. destruct (exec_block orc fuel (d_push c) b VNull st); reflexivity.
  Qed.

  Lemma xb_let' : forall f c x e r last st,
    exec_block orc (S f) c (SLet x e :: r) last st =
    rbind (eval_expr orc f (d_declare c x (st_next st)) e (nst st)) (fun v st2 =>
      exec_block orc f (d_declare c x (st_next st)) r VNull (set_cell (st_next st) v st2)).
  Proof. reflexivity. Qed.
  Lemma xb_expr' : forall f c e r last st,
    exec_block orc (S f) c (SExpr e :: r) last st =
    rbind (eval_expr orc f c e st) (fun v st1 => exec_block orc f (edecl c e st1) r v st1).
  Proof. reflexivity. Qed.

  Lemma exec_block_top_rle : forall l, top_ok l = true -> forall fuel f c last st,
    (fuel + length l + 1 <= f)%nat ->
    rle (snd (exec_top orc fuel c l last st)) (exec_block orc f c l last st).
  Proof.
    intros l. induction l as [|s0 l IH]; intros Hok fuel f c last st Hf;
      (destruct f as [|g]; [lia|]).
    - apply rle_refl.
    - cbn [top_ok forallb] in Hok. apply andb_prop in Hok. destruct Hok as [H0 Hl]. cbn [length] in Hf.
      destruct (mono_all orc fuel g ltac:(lia)) as [He [_ Hb]].
      destruct s0 as [x e|e|e|b| |]; try discriminate H0.
      + rewrite xt_let, snd_top_k, xb_let'. apply rbind_mono; [apply He|].
        intros v st2. apply IH; [exact Hl|lia].
      + rewrite xt_expr, snd_top_k, xb_expr'. apply rbind_mono; [apply He|].
        intros v st2. apply IH; [exact Hl|lia].
      + rewrite xt_block, snd_top_k, xb_block. apply rbind_mono; [apply Hb|].
        intros v st2. apply IH; [exact Hl|lia].
  Qed.
End Top.

Theorem exec_block_top_gen : forall orc l, top_ok l = true -> forall fuel f c last st,
  (fuel + length l + 1 <= f)%nat -> snd (exec_top orc fuel c l last st) <> RFuel ->
  exec_block orc f c l last st = snd (exec_top orc fuel c l last st).
Proof. intros orc l Hok fuel f c last st Hf. exact (exec_block_top_rle orc l Hok fuel f c last st Hf). Qed.

(** * E. The environment after a successful line *)

Theorem exec_top_static : forall orc fuel a c last st c' v st',
  exec_top orc fuel c a last st = (c', ROk v st') ->
  static_of_dyn c' = static_after (static_of_dyn c) a.
Proof.
  intros orc fuel a. induction a as [|s a IH]; intros c last st c' v st' H.
  - rewrite et_nil in H. inversion H; subst. reflexivity.
  - rewrite static_after_cons. destruct s as [x e|e|e|b| |]; try discriminate H.
    + rewrite xt_let in H.
      destruct (eval_expr orc fuel (d_declare c x (st_next st)) e (nst st)) as [v1 st1| | | |];
        try discriminate H. cbn [top_k] in H.
      rewrite (IH _ _ _ _ _ _ H). unfold sdecl. cbn [stmt_declares].
      rewrite static_of_dyn_declare. reflexivity.
    + rewrite xt_expr in H.
      destruct (eval_expr orc fuel c e st) as [v1 st1| | | |]; try discriminate H. cbn [top_k] in H.
      rewrite (IH _ _ _ _ _ _ H). unfold sdecl, edecl.
      destruct e as [| | | | | | |name ps body| | | | | |]; try reflexivity.
      destruct name as [|ch name]; [reflexivity|]. cbn [stmt_declares].
      rewrite static_of_dyn_declare. reflexivity.
    + rewrite xt_block in H.
      destruct (exec_block orc fuel (d_push c) b VNull st) as [v1 st1| | | |]; try discriminate H.
      cbn [top_k] in H. exact (IH _ _ _ _ _ _ H).
Qed.

(** * F. F2 code prints nothing *)

(* whatever the outcome, the output carried by the result is o *)
Definition out_pres {A} (r : res A) (o : text) : Prop :=
  match r with
  | ROk _ s => st_out s = o
  | RSig _ s => st_out s = o
  | RErr _ s => st_out s = o
  | RFault _ s => st_out s = o
  | RFuel => True
  end.

Lemma out_rbind : forall A B (x : res A) (k : A -> sstate -> res B) o,
  out_pres x o -> (forall a st, st_out st = o -> out_pres (k a st) o) -> out_pres (rbind x k) o.
Proof. intros A B x k o Hx Hk. destruct x; cbn [rbind out_pres] in *; try exact Hx. apply Hk. exact Hx. Qed.

Lemma out_lift_heap : forall st r, out_pres (lift_heap st r) (st_out st).
Proof. intros st r. destruct r as [[v h]| | |]; cbn; first [exact I|reflexivity]. Qed.
Lemma out_lift_plain : forall A st (r : outcome A), out_pres (lift_plain st r) (st_out st).
Proof. intros A st r. destruct r; cbn; first [exact I|reflexivity]. Qed.

Lemma out_state_of : forall r st, out_pres r (st_out st) -> st_out (state_of r st) = st_out st.
Proof. intros r st H. destruct r; cbn [state_of out_pres] in *; try exact H. reflexivity. Qed.

Lemma g2e_if : forall lp c t alt,
  f2e lp (EIf c t alt) = f2e false c && f2b lp t && match alt with Some b => f2b lp b | None => true end.
Proof. reflexivity. Qed.
Lemma g2e_while : forall lp c b, f2e lp (EWhile c b) = f2e false c && f2b true b.
Proof. reflexivity. Qed.
Lemma g2s_block : forall lp b, f2s lp (SBlock b) = f2b lp b.
Proof. reflexivity. Qed.

Section Out.
  Variable orc : oracle.

  Definition f2out_at (fuel : nat) : Prop :=
    (forall lp e c st, f2e lp e = true -> out_pres (eval_expr orc fuel c e st) (st_out st)) /\
    (forall iter c cnd body last st, f2e false cnd = true -> f2b true body = true ->
       out_pres (eval_while orc fuel iter c cnd body last st) (st_out st)) /\
    (forall lp l c last st, f2b lp l = true -> out_pres (exec_block orc fuel c l last st) (st_out st)).

  Lemma f2out_step : forall g, f2out_at g -> f2out_at (S g).
  Proof.
    intros g [He [Hw Hb]]. split; [|split].
    - intros lp e c st HF.
      destruct e as [l op r|op r|z|x|b|cnd t alt|x|name ps body|fn args|l r|s|vs|l i|cnd body];
        try discriminate HF.
      + cbn [f2e] in HF. apply andb_prop in HF. destruct HF as [HF Hr]. apply andb_prop in HF. destruct HF as [_ Hl].
        cbn [eval_expr]. apply out_rbind; [exact (He false l c st Hl)|]. intros a st1 E1.
        apply out_rbind; [rewrite <- E1; exact (He false r c st1 Hr)|]. intros b st2 E2.
        destruct (method_of op); [rewrite <- E2; apply out_lift_heap|exact E2].
      + cbn [f2e] in HF. apply andb_prop in HF. destruct HF as [_ Hr].
        cbn [eval_expr]. apply out_rbind; [exact (He false r c st Hr)|]. intros a st1 E1.
        destruct op; try exact E1; rewrite <- E1; try apply out_lift_heap; apply out_lift_plain.
      + reflexivity.
      + reflexivity.
      + rewrite g2e_if in HF. apply andb_prop in HF. destruct HF as [HF Ha]. apply andb_prop in HF. destruct HF as [Hc Ht].
        rewrite xe_if. apply out_rbind; [exact (He false cnd c st Hc)|]. intros v st1 E1.
        destruct v as [|[|]| | | | |]; try exact E1.
        * rewrite <- E1. exact (Hb lp t _ _ _ Ht).
        * destruct alt as [bl|]; [|exact E1]. rewrite <- E1. exact (Hb lp bl _ _ _ Ha).
      + cbn [eval_expr]. destruct (d_lookup c x); reflexivity.
      + destruct l as [ | | | | | |x| | | | | | | ]; try discriminate HF. cbn [f2e] in HF.
        cbn [eval_expr]. destruct (d_lookup c x); [|reflexivity].
        apply out_rbind; [exact (He false r c st HF)|]. intros a st1 E1. exact E1.
      + rewrite g2e_while in HF. apply andb_prop in HF. destruct HF as [Hc Hbd].
        rewrite xe_while. exact (Hw g c cnd body VNull st Hc Hbd).
    - intros iter c cnd body last st Hc Hbd. rewrite xw_step.
      apply out_rbind; [exact (He false cnd c st Hc)|]. intros v st1 E1.
      destruct v as [|[|]| | | | |]; try exact E1.
      pose proof (Hb true body (d_push c) VNull st1 Hbd) as H. rewrite E1 in H.
      destruct (exec_block orc g (d_push c) body VNull st1) as [v st2|[| |v] st2|k st2|x st2|];
        cbn [while_k out_pres] in *; try exact H; try exact I.
      * rewrite <- H. exact (Hw iter c cnd body v st2 Hc Hbd).
      * rewrite <- H. exact (Hw iter c cnd body VNull st2 Hc Hbd).
    - intros lp l c last st HF. destruct l as [|s r]; [reflexivity|].
      cbn [f2b] in HF. apply andb_prop in HF. destruct HF as [Hs Hr].
      destruct s as [x e|e|e|b| |]; try discriminate Hs.
      + cbn [f2s] in Hs. apply andb_prop in Hs. destruct Hs as [Hs _].
        rewrite xb_let'. apply out_rbind; [exact (He false e _ (nst st) Hs)|]. intros v st2 E2.
        rewrite <- E2. exact (Hb lp r _ _ (set_cell (st_next st) v st2) Hr).
      + cbn [f2s] in Hs. rewrite xb_expr'. apply out_rbind; [exact (He lp e _ _ Hs)|]. intros v st2 E2.
        rewrite <- E2. exact (Hb lp r _ _ _ Hr).
      + rewrite g2s_block in Hs. rewrite xb_block. apply out_rbind; [exact (Hb lp b _ _ _ Hs)|].
        intros v st2 E2. rewrite <- E2. exact (Hb lp r _ _ _ Hr).
      + reflexivity.
      + reflexivity.
  Qed.

  Lemma f2out_all : forall fuel, f2out_at fuel.
  Proof.
    induction fuel as [|g IH]; [|exact (f2out_step g IH)].
    split; [|split]; intros; exact I.
  Qed.

  Lemma f2_out_top_pres : forall fuel lp a c last st, f2b lp a = true ->
    out_pres (snd (exec_top orc fuel c a last st)) (st_out st).
  Proof.
    intros fuel lp a. destruct (f2out_all fuel) as [He [_ Hb]].
    induction a as [|s r IH]; intros c last st HF; [reflexivity|].
    cbn [f2b] in HF. apply andb_prop in HF. destruct HF as [Hs Hr].
    destruct s as [x e|e|e|b| |]; try reflexivity.
    - cbn [f2s] in Hs. apply andb_prop in Hs. destruct Hs as [Hs _].
      rewrite xt_let, snd_top_k. apply out_rbind; [exact (He false e _ (nst st) Hs)|]. intros v st2 E2.
      rewrite <- E2. exact (IH _ _ (set_cell (st_next st) v st2) Hr).
    - cbn [f2s] in Hs. rewrite xt_expr, snd_top_k. apply out_rbind; [exact (He lp e _ _ Hs)|].
      intros v st2 E2. rewrite <- E2. exact (IH _ _ _ Hr).
    - rewrite g2s_block in Hs. rewrite xt_block, snd_top_k. apply out_rbind; [exact (Hb lp b _ _ _ Hs)|].
      intros v st2 E2. rewrite <- E2. exact (IH _ _ _ Hr).
  Qed.
End Out.

Theorem f2_out_unchanged : forall orc fuel,
  (forall lp e c st, f2e lp e = true ->
     st_out (state_of (eval_expr orc fuel c e st) st) = st_out st) /\
  (forall iter c cnd body last st, f2e false cnd = true -> f2b true body = true ->
     st_out (state_of (eval_while orc fuel iter c cnd body last st) st) = st_out st) /\
  (forall lp l c last st, f2b lp l = true ->
     st_out (state_of (exec_block orc fuel c l last st) st) = st_out st).
Proof.
  intros orc fuel. destruct (f2out_all orc fuel) as [He [Hw Hb]]. split; [|split].
  - intros lp e c st HF. apply out_state_of. exact (He lp e c st HF).
  - intros iter c cnd body last st Hc Hbd. apply out_state_of. exact (Hw iter c cnd body last st Hc Hbd).
  - intros lp l c last st HF. apply out_state_of. exact (Hb lp l c last st HF).
Qed.

Theorem f2_out_unchanged_top : forall orc fuel a c last st, in_F2 a = true ->
  st_out (state_of (snd (exec_top orc fuel c a last st)) st) = st_out st.
Proof.
  intros orc fuel a c last st HF. apply out_state_of. exact (f2_out_top_pres orc fuel false a c last st HF).
Qed.

(** * G. A session of F2 lines that all succeed, read as one program *)

Lemma f2b_app : forall lp a b, f2b lp (a ++ b) = f2b lp a && f2b lp b.
Proof.
  intros lp a b. induction a as [|s a IH]; [reflexivity|].
  cbn [app f2b]. rewrite IH. apply andb_assoc.
Qed.

Lemma f2b_top_ok : forall l, f2b false l = true -> top_ok l = true.
Proof.
  intros l. induction l as [|s l IH]; intros H; [reflexivity|].
  cbn [f2b] in H. apply andb_prop in H. destruct H as [Hs Hl].
  cbn [top_ok forallb]. fold (top_ok l). rewrite (IH Hl).
  destruct s; try reflexivity; discriminate Hs.
Qed.

Definition top0 : sctx := mkS [[]] None 0.

(* `sem` is what running the block P as one program from the initial state reaches (v0: P's value so far) *)
Record ReachedF (orc : oracle) (fuel : nat) (P : block) (sem : sem_session) (v0 : val) : Prop := mkReachedF {
  RF_F2 : in_F2 P = true;
  RF_check : exists fP, check_block fP top0 P = None;
  RF_static : static_after top0 P = sm_static sem;
  RF_exec : exec_top orc fuel (mkD [[]] None) P VNull sem_init = (sm_dyn sem, ROk v0 (sm_state sem));
  RF_out : st_out (sm_state sem) = [];
  RF_sd : sm_static sem = static_of_dyn (sm_dyn sem)
}.

Lemma ReachedF_init : forall orc fuel, ReachedF orc fuel [] sem_session_new VNull.
Proof. intros orc fuel. constructor; try reflexivity. exists 1%nat. reflexivity. Qed.

Lemma ReachedF_step : forall orc fuel P sem v0 a sem' v h out,
  ReachedF orc fuel P sem v0 -> in_F2 a = true ->
  sem_line' orc fuel sem a = (sem', LValue v h out) ->
  out = [] /\ h = st_heap (sm_state sem') /\
  exists v', ReachedF orc fuel (P ++ a) sem' v' /\ (a <> [] -> v' = v).
Proof.
  intros orc fuel P sem v0 a sem' v h out [HFP [fP HcP] Hst Hex Hout Hsd] HFa Hl.
  unfold sem_line', sem_line in Hl.
  destruct (check_block fuel (sm_static sem) a) as [k|] eqn:Eck; [discriminate Hl|].
  rewrite (clear_out_id _ Hout) in Hl.
  pose proof (f2_out_unchanged_top orc fuel a (sm_dyn sem) VNull (sm_state sem) HFa) as Ho.
  destruct (exec_top orc fuel (sm_dyn sem) a VNull (sm_state sem)) as [c' r] eqn:Eet. cbn [snd] in Ho.
  destruct r as [v1 st1|sg st1|k st1|f st1|]; try discriminate Hl.
  cbn [state_of sm_dyn sm_state] in Hl, Ho. inversion Hl; subst sem' v h out; clear Hl. cbn [sm_state].
  assert (st_out st1 = []) as Hout1 by (rewrite Ho; exact Hout).
  split; [exact Hout1|]. split; [reflexivity|].
  assert (exists v', exec_top orc fuel (sm_dyn sem) a v0 (sm_state sem) = (c', ROk v' st1)
                     /\ (a <> [] -> v' = v1)) as [v' [Hex' Hv']].
  { destruct a as [|s0 a'].
    - rewrite et_nil in Eet. inversion Eet; subst. exists v0. split; [apply et_nil|].
      intros H; contradiction.
    - exists v1. split; [|reflexivity]. rewrite (exec_top_last orc fuel (s0 :: a') _ v0 VNull) by discriminate.
      exact Eet. }
  exists v'. split; [|exact Hv'].
  constructor; cbn [sm_static sm_dyn sm_state].
  - unfold in_F2 in *. rewrite f2b_app, HFP, HFa. reflexivity.
  - exists (Nat.max fP fuel + length P)%nat. apply check_block_app_gen.
    + destruct (check_fuel_mono fP (Nat.max fP fuel) ltac:(lia)) as [_ Hb]. apply Hb. exact HcP.
    + rewrite Hst. destruct (check_fuel_mono fuel (Nat.max fP fuel) ltac:(lia)) as [_ Hb]. apply Hb. exact Eck.
  - rewrite static_after_app, Hst, Hsd. symmetry. exact (exec_top_static _ _ _ _ _ _ _ _ _ Hex').
  - rewrite exec_top_app, Hex. exact Hex'.
  - exact Hout1.
  - reflexivity.
Qed.

Lemma sem_session_from_F2 : forall orc fuel asts P sem v0,
  ReachedF orc fuel P sem v0 -> Forall (fun a => in_F2 a = true) asts ->
  (forall r, In r (sem_session_run orc fuel sem asts) -> exists v h out, r = LValue v h out) ->
  asts <> [] -> last asts [] <> [] ->
  exists sem_n v, ReachedF orc fuel (P ++ concat asts) sem_n v /\
    last (sem_session_run orc fuel sem asts) LFuel = LValue v (st_heap (sm_state sem_n)) [].
Proof.
  intros orc fuel asts. induction asts as [|a rest IH]; intros P sem v0 HRc HF Hall Hne Hlast; [contradiction|].
  inversion HF as [|a0 r0 HFa HFr]; subst.
  cbn [sem_session_run] in *. destruct (sem_line' orc fuel sem a) as [sem' res] eqn:El.
  destruct (Hall res (or_introl eq_refl)) as [v [h [out ->]]].
  destruct (ReachedF_step orc fuel P sem v0 a sem' v h out HRc HFa El) as [-> [-> [v' [HRc' Hv']]]].
  destruct rest as [|b rest'].
  - cbn [last concat] in *. rewrite app_nil_r. exists sem', v. rewrite <- (Hv' Hlast). split; [exact HRc'|reflexivity].
  - destruct (IH (P ++ a) sem' v' HRc' HFr) as [sem_n [vn [HRn Hln]]].
    + intros r Hr. apply Hall. right. exact Hr.
    + discriminate.
    + exact Hlast.
    + exists sem_n, vn. cbn [concat]. rewrite app_assoc. split; [exact HRn|].
      cbn [sem_session_run] in *. destruct (sem_line' orc fuel sem' b) as [sem'' res']. exact Hln.
Qed.

(* Sem only: a session of F2 lines that all succeed (and whose last line is not empty) gives, as the
   result of its last line, the result of the single program made of all its lines - same value, same
   heap, nothing printed *)
Theorem sem_session_is_program_F2 : forall orc fuel asts,
  Forall (fun a => in_F2 a = true) asts ->
  (forall r, In r (sem_session_run orc fuel sem_session_new asts) -> exists v h out, r = LValue v h out) ->
  asts <> [] -> last asts [] <> [] ->
  exists v h F, last (sem_session_run orc fuel sem_session_new asts) LFuel = LValue v h [] /\
    forall fuel', (F <= fuel')%nat -> sem_program orc fuel' (concat asts) = SemValue v h [].
Proof.
  intros orc fuel asts HF Hall Hne Hlast.
  destruct (sem_session_from_F2 orc fuel asts [] sem_session_new VNull (ReachedF_init orc fuel) HF Hall Hne Hlast)
    as [sem_n [v [[HFP [fP HcP] _ Hex Hout _] Hl]]].
  cbn [app] in *.
  exists v, (st_heap (sm_state sem_n)), (Nat.max fP (fuel + length (concat asts) + 1)).
  split; [exact Hl|]. intros fuel' Hf. unfold sem_program, static_check.
  change (mkS [[]] None 0) with top0.
  destruct (check_fuel_mono fP fuel' ltac:(lia)) as [_ Hb]. rewrite (Hb _ _ HcP).
  rewrite (exec_block_top_gen orc _ (f2b_top_ok _ HFP) fuel fuel' _ _ _ ltac:(lia)); rewrite Hex; cbn [snd];
    [|discriminate].
  rewrite Hout. reflexivity.
Qed.

(** * H. Example (by computation) *)

Module SRFExamples.
  Import SRExamples.
  Local Open Scope string_scope.

  (* a loop with stop / volgende inside an als ... anders als ... anders chain, and a block with a local stel *)
  Definition f2_srcs : list text := map str_cps
    [ "stel i = 0; stel t = 0";
      "zolang ja { i = i + 1; als i == 3 { volgende } anders als i > 6 { stop } anders { { stel d = i * 2; t = t + d } } }; i";
      "als t > 10 { t - 10 } anders { 0 }" ].
  Definition f2_asts : list block := Eval vm_compute in map ast_of f2_srcs.

  Example f2_parses : Forall2 (fun src a => parse u0 (parse_float orc0) src = Ok a) f2_srcs f2_asts.
  Proof. repeat constructor. Qed.
  Example f2_in_F2 : Forall (fun a => in_F2 a = true) f2_asts.
  Proof. repeat constructor. Qed.
  Example f2_all_succeed : forall r, In r (sem_session_run orc0 100 sem_session_new f2_asts) ->
    exists v h out, r = LValue v h out.
  Proof.
    vm_compute. intros r [<-|[<-|[<-|[]]]]; eexists; eexists; eexists; reflexivity.
  Qed.
  Example f2_by_theorem : exists v h F,
    last (sem_session_run orc0 100 sem_session_new f2_asts) LFuel = LValue v h [] /\
    forall fuel', (F <= fuel')%nat -> sem_program orc0 fuel' (concat f2_asts) = SemValue v h [].
  Proof.
    apply (sem_session_is_program_F2 orc0 100 f2_asts f2_in_F2 f2_all_succeed); discriminate.
  Qed.
  (* the values, by computation: i = 7 after the loop, t = 2+4+8+10+12 = 36, last line 26 *)
  Example f2_computed : exists h1 h2 h3 h,
    sem_session_run orc0 100 sem_session_new f2_asts = [LValue VNull h1 []; LValue (VInt 7) h2 []; LValue (VInt 26) h3 []] /\
    sem_program orc0 100 (concat f2_asts) = SemValue (VInt 26) h [] /\ h3 = h.
  Proof. vm_compute. eexists. eexists. eexists. eexists. split; [reflexivity|]. split; reflexivity. Qed.

  (* D is about statement lists without antwoord / stop / volgende at the top: exec_top answers
     SyntaxError for them where exec_block raises the signal *)
  Example top_ok_needed :
    snd (exec_top orc0 5 (mkD [[]] None) [SBreak] VNull sem_init) = RErr ESyntaxError sem_init /\
    exec_block orc0 7 (mkD [[]] None) [SBreak] VNull sem_init = RSig SigBreak sem_init.
  Proof. split; reflexivity. Qed.
End SRFExamples.

Print Assumptions sem_fuel_mono.
Print Assumptions check_fuel_mono.
Print Assumptions check_block_app_gen.
Print Assumptions exec_block_top_gen.
Print Assumptions exec_top_static.
Print Assumptions f2_out_unchanged.
Print Assumptions f2_out_unchanged_top.
Print Assumptions sem_session_is_program_F2.
