(* LexerProofs.v - property C08: tokenisation and literals are faithful to the text.
   Every theorem quantifies over every classification oracle u : unicode. *)
From NL.Model Require Import Lexer Parser.
From NL.Spec Require Import RenderSpec.
From Coq Require Import Lia.
Open Scope Z_scope.

(** * Basic facts: byte lengths, text equality, spans *)

Lemma utf8_fold_acc : forall s acc,
  fold_left (fun a c => a + utf8_len1 c) s acc = acc + utf8_len s.
Proof.
  unfold utf8_len. induction s as [|c s IH]; intros acc; cbn [fold_left].
  - lia.
  - rewrite IH. rewrite (IH (0 + utf8_len1 c)). lia.
Qed.

Lemma utf8_len_nil : utf8_len [] = 0.
Proof. reflexivity. Qed.

Lemma utf8_len_cons : forall c s, utf8_len (c :: s) = utf8_len1 c + utf8_len s.
Proof.
  intros c s. unfold utf8_len at 1. cbn [fold_left]. rewrite utf8_fold_acc. lia.
Qed.

Lemma utf8_len_app : forall a b, utf8_len (a ++ b) = utf8_len a + utf8_len b.
Proof.
  induction a as [|c a IH]; intros b; cbn [app].
  - rewrite utf8_len_nil. lia.
  - rewrite !utf8_len_cons, IH. lia.
Qed.

Lemma utf8_len1_pos : forall c, 1 <= utf8_len1 c <= 4.
Proof.
  intros c. unfold utf8_len1.
  destruct (c <? 128)%N; [lia|]. destruct (c <? 2048)%N; [lia|]. destruct (c <? 65536)%N; lia.
Qed.

Lemma utf8_len1_ascii : forall c, (c < 128)%N -> utf8_len1 c = 1.
Proof. intros c H. unfold utf8_len1. apply N.ltb_lt in H. rewrite H. reflexivity. Qed.

Lemma text_eqb_eq : forall a b, text_eqb a b = true <-> a = b.
Proof.
  induction a as [|x a IH]; intros [|y b]; cbn [text_eqb]; split; intros H; try congruence.
  - apply andb_true_iff in H. destruct H as [H1 H2]. apply N.eqb_eq in H1. apply IH in H2. congruence.
  - inversion H; subst. rewrite N.eqb_refl. cbn. apply IH. reflexivity.
Qed.

(* what may follow a maximal run of p-characters *)
Definition stops (p : cp -> bool) (rest : text) : Prop :=
  match rest with [] => True | c :: _ => p c = false end.

Lemma span_app : forall p s a b, span p s = (a, b) -> s = a ++ b.
Proof.
  intros p. induction s as [|c s IH]; intros a b H; cbn [span] in H.
  - inversion H. reflexivity.
  - destruct (p c).
    + destruct (span p s) as [a' b'] eqn:E. inversion H; subst. cbn [app]. f_equal. apply IH. reflexivity.
    + inversion H. reflexivity.
Qed.

Lemma span_all : forall p s a b, span p s = (a, b) -> forallb p a = true /\ stops p b.
Proof.
  intros p. induction s as [|c s IH]; intros a b H; cbn [span] in H.
  - inversion H. split; reflexivity.
  - destruct (p c) eqn:Pc.
    + destruct (span p s) as [a' b'] eqn:E. inversion H; subst.
      destruct (IH _ _ eq_refl) as [H1 H2]. split; [cbn [forallb]; rewrite Pc, H1; reflexivity | exact H2].
    + inversion H; subst. split; [reflexivity | exact Pc].
Qed.

Lemma span_exact : forall p a rest, forallb p a = true -> stops p rest -> span p (a ++ rest) = (a, rest).
Proof.
  intros p. induction a as [|c a IH]; intros rest Ha Hr.
  - cbn [app]. destruct rest as [|c r]; [reflexivity|]. cbn [span]. cbn [stops] in Hr. rewrite Hr. reflexivity.
  - cbn [forallb] in Ha. apply andb_true_iff in Ha. destruct Ha as [Pc Ha].
    cbn [app span]. rewrite Pc. rewrite (IH rest Ha Hr). reflexivity.
Qed.

(** * 1. String literals *)

Theorem string_roundtrip : forall s, decode_string (quote s) = s.
Proof.
  induction s as [|c s IH]; [reflexivity|].
  cbn [quote].
  destruct (N.eqb_spec c 34) as [->|N34]; [cbn; rewrite IH; reflexivity|].
  destruct (N.eqb_spec c 92) as [->|N92]; [cbn; rewrite IH; reflexivity|].
  destruct (N.eqb_spec c 10) as [->|N10]; [cbn; rewrite IH; reflexivity|].
  destruct (N.eqb_spec c 9) as [->|N9]; [cbn; rewrite IH; reflexivity|].
  cbn [decode_string]. apply N.eqb_neq in N92. rewrite N92, IH. reflexivity.
Qed.

Lemma quote_raw : forall s, raw_string (quote s).
Proof.
  induction s as [|c s IH]; [constructor|].
  cbn [quote].
  destruct (N.eqb_spec c 34); [apply raw_escape; exact IH|].
  destruct (N.eqb_spec c 92); [apply raw_escape; exact IH|].
  destruct (N.eqb_spec c 10); [apply raw_escape; exact IH|].
  destruct (N.eqb_spec c 9); [apply raw_escape; exact IH|].
  apply raw_plain; assumption.
Qed.

(* one step of skip_while in the string arm *)
Lemma span_string_plain : forall c r, c <> 34%N -> c <> 92%N ->
  span_string false (c :: r) = let '(a, b) := span_string false r in (c :: a, b).
Proof.
  intros c r H1 H2. cbn [span_string].
  apply N.eqb_neq in H1. apply N.eqb_neq in H2. rewrite H1, H2. reflexivity.
Qed.

Lemma span_string_escape : forall c r,
  span_string false (92%N :: c :: r) = let '(a, b) := span_string false r in (92%N :: c :: a, b).
Proof.
  intros c r. cbn [span_string].
  change (92 =? 34)%N with false. change (92 =? 92)%N with true. cbn [negb orb andb].
  rewrite orb_true_r. rewrite andb_false_r.
  destruct (span_string false r) as [a b]. reflexivity.
Qed.

Lemma span_string_quote_stop : forall r, span_string false (34%N :: r) = ([], 34%N :: r).
Proof. reflexivity. Qed.

(* the escaped flag is set only in the middle of an escape pair, so the scan stops exactly at
   the first quote that is not part of a pair *)
Lemma span_string_raw : forall r rest, raw_string r ->
  span_string false (r ++ 34%N :: rest) = (r, 34%N :: rest).
Proof.
  intros r rest H. induction H as [|c r H1 H2 H IH|c r H IH].
  - reflexivity.
  - cbn [app]. rewrite span_string_plain by assumption. rewrite IH. reflexivity.
  - cbn [app]. rewrite span_string_escape. rewrite IH. reflexivity.
Qed.

Lemma span_string_app : forall s e a b, span_string e s = (a, b) -> s = a ++ b.
Proof.
  induction s as [|c s IH]; intros e a b H; cbn [span_string] in H.
  - inversion H. reflexivity.
  - destruct (negb (c =? 34)%N || e).
    + destruct (span_string ((c =? 92)%N && negb e) s) as [a' b'] eqn:E. inversion H; subst.
      cbn [app]. f_equal. eapply IH. exact E.
    + inversion H. reflexivity.
Qed.

Lemma span_string_stops_at_quote : forall s e a q b, span_string e s = (a, q :: b) -> q = 34%N.
Proof.
  induction s as [|c s IH]; intros e a q b H; cbn [span_string] in H.
  - inversion H.
  - destruct (negb (c =? 34)%N || e) eqn:C.
    + destruct (span_string ((c =? 92)%N && negb e) s) as [a' b'] eqn:E. inversion H; subst.
      eapply IH. exact E.
    + inversion H; subst. apply orb_false_iff in C. destruct C as [C _].
      apply negb_false_iff in C. apply N.eqb_eq in C. exact C.
Qed.

Lemma not_terminated_nil : ~ terminated [].
Proof. intros (r & rest & _ & E). destruct r; discriminate. Qed.

Lemma not_terminated_backslash : ~ terminated [92%N].
Proof.
  intros (r & rest & Hr & E). destruct r as [|x [|y r]]; cbn in E; discriminate.
Qed.

Lemma terminated_plain_inv : forall c b, c <> 34%N -> c <> 92%N -> terminated (c :: b) -> terminated b.
Proof.
  intros c b H1 H2 (r & rest & Hr & E). destruct Hr as [|x r X1 X2 Hr|x r Hr]; cbn in E.
  - inversion E. congruence.
  - inversion E; subst. exists r, rest. split; [exact Hr|reflexivity].
  - inversion E. congruence.
Qed.

Lemma terminated_escape_inv : forall d b, terminated (92%N :: d :: b) -> terminated b.
Proof.
  intros d b (r & rest & Hr & E). destruct Hr as [|x r X1 X2 Hr|x r Hr]; cbn in E.
  - inversion E.
  - inversion E. congruence.
  - inversion E; subst. exists r, rest. split; [exact Hr|reflexivity].
Qed.

(* exhaustive description of the scan, by the shape of the text *)
Lemma span_string_cases_len : forall n body, (length body <= n)%nat ->
  (exists r rest, raw_string r /\ body = r ++ 34%N :: rest /\ span_string false body = (r, 34%N :: rest))
  \/ (~ terminated body /\ span_string false body = (body, [])).
Proof.
  induction n as [|n IH]; intros body Hn.
  - destruct body; [|cbn in Hn; lia]. right. split; [exact not_terminated_nil|reflexivity].
  - destruct body as [|c b].
    + right. split; [exact not_terminated_nil|reflexivity].
    + destruct (N.eq_dec c 34) as [->|N34].
      { left. exists [], b. split; [constructor|]. split; reflexivity. }
      destruct (N.eq_dec c 92) as [->|N92].
      * destruct b as [|d b'].
        { right. split; [exact not_terminated_backslash|reflexivity]. }
        cbn [length] in Hn.
        destruct (IH b' ltac:(lia)) as [(r & rest & Hr & E & S)|(NT & S)].
        { left. exists (92%N :: d :: r), rest. split; [apply raw_escape; exact Hr|].
          split; [subst; reflexivity|]. rewrite span_string_escape, S. reflexivity. }
        { right. split.
          - intros T. apply NT. eapply terminated_escape_inv. exact T.
          - rewrite span_string_escape, S. reflexivity. }
      * cbn [length] in Hn.
        destruct (IH b ltac:(lia)) as [(r & rest & Hr & E & S)|(NT & S)].
        { left. exists (c :: r), rest. split; [apply raw_plain; assumption|].
          split; [subst; reflexivity|]. rewrite span_string_plain by assumption. rewrite S. reflexivity. }
        { right. split.
          - intros T. apply NT. eapply terminated_plain_inv; eassumption.
          - rewrite span_string_plain by assumption. rewrite S. reflexivity. }
Qed.

Lemma span_string_cases : forall body,
  (exists r rest, raw_string r /\ body = r ++ 34%N :: rest /\ span_string false body = (r, 34%N :: rest))
  \/ (~ terminated body /\ span_string false body = (body, [])).
Proof. intros body. apply (span_string_cases_len (length body)). lia. Qed.

Lemma span_string_unterminated : forall body, ~ terminated body -> span_string false body = (body, []).
Proof.
  intros body NT. destruct (span_string_cases body) as [(r & rest & Hr & E & _)|(_ & S)]; [|exact S].
  exfalso. apply NT. exists r, rest. split; assumption.
Qed.

(** * The generated tables, checked once by computation *)

Definition legal (k : ftoken) : bool := match k with KIllegal | KEof => false | _ => true end.

(* k is a proper token and the tables spell it w *)
Definition spelled (k : ftoken) (w : text) : bool :=
  legal k && match fixed_spelling k with Some w' => text_eqb w' w | None => false end.

Lemma legal_spec : forall k, legal k = true -> k <> KIllegal /\ k <> KEof.
Proof. intros k H. split; intros ->; discriminate. Qed.

Lemma legal_iff : forall k, legal k = true <-> (k <> KIllegal /\ k <> KEof).
Proof.
  intros k. split; [apply legal_spec|]. intros [H1 H2]. destruct k; try reflexivity; congruence.
Qed.

Lemma spelled_spec : forall k w, spelled k w = true ->
  TFix k <> TFix KIllegal /\ TFix k <> TFix KEof /\ spelling (TFix k) = w.
Proof.
  intros k w H. unfold spelled in H. apply andb_true_iff in H. destruct H as [L S].
  apply legal_spec in L. destruct L as [L1 L2].
  split; [congruence|]. split; [congruence|].
  cbn [spelling]. destruct (fixed_spelling k) as [w'|]; [|discriminate].
  apply text_eqb_eq in S. exact S.
Qed.

(* every proper fixed token has a spelling *)
Theorem fixed_spelling_total : forall k,
  (k <> KIllegal /\ k <> KEof) <-> (exists w, fixed_spelling k = Some w /\ w <> []).
Proof.
  intros k. split.
  - intros [H1 H2]. destruct k; try congruence; vm_compute; eexists; (split; [reflexivity|discriminate]).
  - intros (w & E & _). split; intros ->; vm_compute in E; discriminate.
Qed.

Lemma keywords_ok : forallb (fun p => spelled (snd p) (str_cps (fst p))) keywords = true.
Proof. vm_compute. reflexivity. Qed.

Lemma singles_ok : forallb (fun p => spelled (snd p) [fst p]) single_tokens = true.
Proof. vm_compute. reflexivity. Qed.

Definition double_entry_ok (p : N * N * ftoken * option ftoken) : bool :=
  let '(a, b, t, e) := p in
  spelled t [a; b] && is_two_char t &&
  match e with Some k => spelled k [a] && negb (is_two_char k) | None => true end.

Lemma doubles_ok : forallb double_entry_ok double_tokens = true.
Proof. vm_compute. reflexivity. Qed.

Lemma slash_ok : spelled KSlash [47%N] = true.
Proof. vm_compute. reflexivity. Qed.

Lemma assoc_text_In : forall A w (l : list (string * A)) k,
  assoc_text w l = Some k -> exists s, In (s, k) l /\ w = str_cps s.
Proof.
  intros A w. induction l as [|[s a] l IH]; intros k H; cbn [assoc_text] in H; [discriminate|].
  destruct (text_eqb w (str_cps s)) eqn:E.
  - inversion H; subst. exists s. split; [left; reflexivity|]. apply text_eqb_eq. exact E.
  - destruct (IH _ H) as (s' & I & W). exists s'. split; [right; exact I|exact W].
Qed.

Lemma assoc_N_In : forall A c (l : list (N * A)) k, assoc N.eqb c l = Some k -> In (c, k) l.
Proof.
  intros A c. induction l as [|[y a] l IH]; intros k H; cbn [assoc] in H; [discriminate|].
  destruct (N.eqb_spec c y) as [->|NE].
  - inversion H; subst. left. reflexivity.
  - right. apply IH. exact H.
Qed.

Lemma find_double_In : forall c l b t e, find_double c l = Some (b, t, e) -> In (c, b, t, e) l.
Proof.
  intros c. induction l as [|[[[a b'] t'] e'] l IH]; intros b t e H; cbn [find_double] in H; [discriminate|].
  destruct (N.eqb_spec a c) as [->|NE].
  - inversion H; subst. left. reflexivity.
  - right. apply IH. exact H.
Qed.

Lemma keyword_spelled : forall w k, assoc_text w keywords = Some k -> spelled k w = true.
Proof.
  intros w k H. destruct (assoc_text_In _ _ _ _ H) as (s & I & ->).
  pose proof keywords_ok as K. rewrite forallb_forall in K. exact (K _ I).
Qed.

Lemma single_spelled : forall c k, assoc N.eqb c single_tokens = Some k -> spelled k [c] = true.
Proof.
  intros c k H. apply assoc_N_In in H.
  pose proof singles_ok as K. rewrite forallb_forall in K. exact (K _ H).
Qed.

Lemma double_entry : forall c b t e, find_double c double_tokens = Some (b, t, e) ->
  double_entry_ok (c, b, t, e) = true.
Proof.
  intros c b t e H. apply find_double_In in H.
  pose proof doubles_ok as K. rewrite forallb_forall in K. exact (K _ H).
Qed.

Lemma keyword_or_ident_spelling : forall w, w <> [] ->
  keyword_or_ident w <> TFix KIllegal /\ keyword_or_ident w <> TFix KEof /\
  spelling (keyword_or_ident w) = w.
Proof.
  intros w NE. unfold keyword_or_ident. destruct (assoc_text w keywords) as [k|] eqn:E.
  - apply spelled_spec. apply keyword_spelled. exact E.
  - split; [discriminate|]. split; [discriminate|reflexivity].
Qed.

(** * One step of Tokenizer::next, in readable form *)

Lemma span_number_app : forall s d a b d', span_number d s = (a, b, d') -> s = a ++ b.
Proof.
  induction s as [|c s IH]; intros d a b d' H; cbn [span_number] in H.
  - inversion H. reflexivity.
  - destruct (is_digit c).
    + destruct (span_number d s) as [[a' b'] d''] eqn:E. inversion H; subst. cbn [app]. f_equal. eapply IH. exact E.
    + destruct (negb d && (c =? 46)%N).
      * destruct (span_number true s) as [[a' b'] d''] eqn:E. inversion H; subst. cbn [app]. f_equal. eapply IH. exact E.
      * inversion H. reflexivity.
Qed.

Section WithOracle.
  Variable u : unicode.

  Lemma ident_start_ascii : forall c, (c < 128)%N -> ident_start u c = ascii_alpha c || (c =? 95)%N.
  Proof. intros c H. unfold ident_start, is_alphabetic. apply N.ltb_lt in H. rewrite H. reflexivity. Qed.

  Lemma ident_char_ascii : forall c, (c < 128)%N ->
    ident_char u c = ascii_alpha c || is_digit c || (c =? 95)%N.
  Proof. intros c H. unfold ident_char, is_alphanumeric. apply N.ltb_lt in H. rewrite H. reflexivity. Qed.

  Lemma is_digit_range : forall c, is_digit c = true <-> (48 <= c <= 57)%N.
  Proof.
    intros c. unfold is_digit. rewrite andb_true_iff, !N.leb_le. reflexivity.
  Qed.

  Lemma digit_not_ident_start : forall c, is_digit c = true -> ident_start u c = false.
  Proof.
    intros c H. apply is_digit_range in H. rewrite ident_start_ascii by lia.
    unfold ascii_alpha.
    destruct (N.leb_spec 65 c); destruct (N.leb_spec c 90); destruct (N.leb_spec 97 c);
      destruct (N.leb_spec c 122); destruct (N.eqb_spec c 95); cbn; try reflexivity; lia.
  Qed.

  Lemma digit_ident_char : forall c, is_digit c = true -> ident_char u c = true.
  Proof.
    intros c H. pose proof H as R. apply is_digit_range in R. rewrite ident_char_ascii by lia.
    rewrite H. rewrite orb_true_r. reflexivity.
  Qed.

  (* Tokenizer::next on a non-empty input with fuel; identical to the definition except that the
     look-ahead for the second '/' is written as a test *)
  Lemma next_token_S : forall f c r pos,
    next_token u (S f) (c :: r) pos =
      let pos1 := pos + utf8_len1 c in
      if ident_start u c then
        let '(a, rest) := span (ident_char u) r in
        Some (keyword_or_ident (c :: a), rest, pos1 + utf8_len a)
      else if is_digit c then
        let '(a, rest, dec) := span_number false r in
        Some (if dec : bool then TFloatLit (c :: a) else TIntLit (c :: a), rest, pos1 + utf8_len a)
      else if (c =? 34)%N then
        let '(a, rest) := span_string false r in
        match rest with
        | [] => Some (TFix KIllegal, [], pos1 + utf8_len a)
        | q :: rest' => Some (TStringLit a, rest', pos1 + utf8_len a + utf8_len1 q)
        end
      else if is_ws c then next_token u f r pos1
      else if (c =? 47)%N then
        if match r with d :: _ => (d =? 47)%N | [] => false end then
          let '(a, rest) := span (fun x => negb (x =? 10)%N) r in
          next_token u f rest (pos1 + utf8_len a)
        else Some (TFix KSlash, r, pos1)
      else
        match find_double c double_tokens with
        | Some (second, t, els) =>
            let matched := match r with x :: _ => (x =? second)%N | [] => false end in
            let tok := if matched then Some t else els in
            match tok with
            | None => Some (TFix KIllegal, r, pos1)
            | Some k =>
                if is_two_char k then
                  match r with
                  | x :: r' => Some (TFix k, r', pos1 + utf8_len1 x)
                  | [] => Some (TFix k, [], pos1)
                  end
                else Some (TFix k, r, pos1)
            end
        | None =>
            match assoc N.eqb c single_tokens with
            | Some k => Some (TFix k, r, pos1)
            | None => Some (TFix KIllegal, r, pos1)
            end
        end.
  Proof.
    intros f c r pos. cbn [next_token].
    destruct (ident_start u c); [reflexivity|].
    destruct (is_digit c); [reflexivity|].
    destruct (c =? 34)%N; [reflexivity|].
    destruct (is_ws c); [reflexivity|].
    destruct (c =? 47)%N; [|reflexivity].
    destruct r as [|d r']; [reflexivity|].
    destruct d as [|p]; [reflexivity|].
    do 6 (destruct p as [p|p|]; try reflexivity).
  Qed.

End WithOracle.

(** * 2. Coverage: no part of the input is silently dropped *)

(* what one call of Tokenizer::next consumed for the token it returned *)
Definition lexeme (t : token) (w rest : text) : Prop :=
  (t <> TFix KIllegal /\ t <> TFix KEof /\ spelling t = w /\ w <> [])
  \/ (t = TFix KIllegal /\
      ((exists c, w = [c]) \/ (exists body, w = 34%N :: body /\ ~ terminated body /\ rest = []))).

Ltac abstract_lens :=
  repeat match goal with
         | |- context [utf8_len1 ?c] => let z := fresh "z" in generalize (utf8_len1 c); intro z
         | |- context [utf8_len ?c] => let z := fresh "z" in generalize (utf8_len c); intro z
         end.
Lemma utf8_len_nilN : utf8_len (@nil N) = 0.
Proof. reflexivity. Qed.
Ltac norm_lens :=
  repeat (rewrite utf8_len_app || rewrite utf8_len_cons || rewrite utf8_len_nil || rewrite utf8_len_nilN).
Ltac pos_eq := do 2 f_equal; norm_lens; abstract_lens; lia.

Section Coverage.
  Variable u : unicode.

  Lemma next_token_nil : forall f pos, next_token u f [] pos = None.
  Proof. intros [|f] pos; reflexivity. Qed.

  Lemma next_token_spec_len : forall n s, (length s <= n)%nat -> forall f pos, (length s < f)%nat ->
    (next_token u f s pos = None /\ gap s) \/
    (exists g t w rest, next_token u f s pos = Some (t, rest, pos + utf8_len (g ++ w))
        /\ s = g ++ w ++ rest /\ gap g /\ lexeme t w rest).
  Proof.
    induction n as [|n IH]; intros s Hn f pos Hf.
    { destruct s; [|cbn in Hn; lia]. left. split; [apply next_token_nil|constructor]. }
    destruct s as [|c r]. { left. split; [apply next_token_nil|constructor]. }
    destruct f as [|f]; [cbn in Hf; lia|]. cbn [length] in Hn, Hf.
    rewrite next_token_S. cbv zeta.
    destruct (ident_start u c) eqn:IS.
    { destruct (span (ident_char u) r) as [a rest] eqn:E. apply span_app in E. subst r.
      destruct (keyword_or_ident_spelling (c :: a)) as (K1 & K2 & K3); [discriminate|].
      right. exists [], (keyword_or_ident (c :: a)), (c :: a), rest.
      split; [pos_eq|]. split; [reflexivity|]. split; [constructor|].
      left. repeat split; auto; discriminate. }
    destruct (is_digit c) eqn:ID.
    { destruct (span_number false r) as [[a rest] dec] eqn:E. apply span_number_app in E. subst r.
      right. exists [], (if dec then TFloatLit (c :: a) else TIntLit (c :: a)), (c :: a), rest.
      split; [pos_eq|]. split; [reflexivity|]. split; [constructor|].
      left. destruct dec; repeat split; auto; discriminate. }
    destruct (N.eqb_spec c 34) as [->|N34].
    { destruct (span_string false r) as [a rest] eqn:E.
      destruct rest as [|q rest'].
      - destruct (span_string_cases r) as [(r0 & rest0 & _ & _ & S)|(NT & S)]; [congruence|].
        assert (a = r) by congruence. subst a.
        right. exists [], (TFix KIllegal), (34%N :: r), [].
        split; [pos_eq|]. split; [cbn [app]; rewrite app_nil_r; reflexivity|]. split; [constructor|].
        right. split; [reflexivity|]. right. exists r. repeat split; auto.
      - pose proof (span_string_stops_at_quote _ _ _ _ _ E) as ->.
        apply span_string_app in E. subst r.
        right. exists [], (TStringLit a), (34%N :: a ++ [34%N]), rest'.
        split; [pos_eq|]. split; [cbn [app]; rewrite <- app_assoc; reflexivity|]. split; [constructor|].
        left. repeat split; auto; discriminate. }
    destruct (is_ws c) eqn:WS.
    { destruct (IH r ltac:(lia) f (pos + utf8_len1 c) ltac:(lia))
        as [[E G]|(g & t & w & rest & E & S & G & L)].
      - left. split; [exact E|]. constructor; assumption.
      - right. exists (c :: g), t, w, rest. split; [rewrite E; pos_eq|].
        split; [subst r; reflexivity|]. split; [constructor; assumption|exact L]. }
    destruct (N.eqb_spec c 47) as [->|N47].
    { destruct r as [|d r'].
      - right. exists [], (TFix KSlash), [47%N], [].
        split; [pos_eq|]. split; [reflexivity|]. split; [constructor|].
        left. destruct (spelled_spec _ _ slash_ok) as (A & B & C). repeat split; auto; discriminate.
      - destruct (N.eqb_spec d 47) as [->|D47].
        + (* comment *)
          match goal with |- context [span ?p ?l] => destruct (span p l) as [a rest] eqn:E end.
          pose proof (span_all _ _ _ _ E) as [NN ST]. apply span_app in E.
          destruct a as [|a0 body].
          { cbn [span] in E. cbn [app] in E. subst rest. cbn [stops] in ST. discriminate. }
          cbn [app] in E. inversion E as [[E0 E1]]. subst a0. cbn [forallb] in NN.
          change (negb (47 =? 10)%N) with true in NN. cbn [andb] in NN.
          destruct rest as [|nl rest''].
          * left. split; [apply next_token_nil|].
            rewrite app_nil_r. rewrite <- (app_nil_r body). apply gap_comment; [exact NN|exact I|constructor].
          * cbn [stops] in ST. apply negb_false_iff in ST. apply N.eqb_eq in ST. subst nl.
            assert (Lr : length r' = (length body + S (length rest''))%nat).
            { rewrite E1, app_length. reflexivity. }
            destruct f as [|f]; [cbn [length] in Hf; lia|].
            rewrite next_token_S. cbv zeta.
            rewrite (ident_start_ascii u 10%N) by reflexivity.
            change (ascii_alpha 10%N || (10 =? 95)%N) with false. cbv iota.
            change (is_digit 10%N) with false. change (10 =? 34)%N with false.
            change (is_ws 10%N) with true. cbv iota.
            match goal with |- context [next_token u f rest'' ?p] =>
              destruct (IH rest'' ltac:(cbn [length] in Hn; lia) f p ltac:(cbn [length] in Hf; lia))
                as [[E' G]|(g & t & w & rest & E' & S & G & L)] end.
            -- left. split; [exact E'|]. apply gap_comment; [exact NN|reflexivity|].
               apply gap_ws; [reflexivity|exact G].
            -- right. exists (47%N :: 47%N :: body ++ 10%N :: g), t, w, rest.
               split; [rewrite E'; pos_eq|].
               split; [subst rest''; cbn [app]; rewrite <- app_assoc; reflexivity|].
               split; [|exact L]. apply gap_comment; [exact NN|reflexivity|].
               apply gap_ws; [reflexivity|exact G].
        + right. exists [], (TFix KSlash), [47%N], (d :: r').
          split; [pos_eq|]. split; [reflexivity|]. split; [constructor|].
          left. destruct (spelled_spec _ _ slash_ok) as (A & B & C). repeat split; auto; discriminate. }
    destruct (find_double c double_tokens) as [[[second t] els]|] eqn:FD.
    { apply double_entry in FD. unfold double_entry_ok in FD.
      apply andb_true_iff in FD. destruct FD as [FD ELS]. apply andb_true_iff in FD. destruct FD as [SP TC].
      apply spelled_spec in SP. destruct SP as (A & B & C).
      assert (ELSE : match els with
                     | None => Some (TFix KIllegal, r, pos + utf8_len1 c)
                     | Some k => if is_two_char k
                                 then match r with
                                      | x :: r' => Some (TFix k, r', pos + utf8_len1 c + utf8_len1 x)
                                      | [] => Some (TFix k, [], pos + utf8_len1 c)
                                      end
                                 else Some (TFix k, r, pos + utf8_len1 c)
                     end = Some (match els with Some k => TFix k | None => TFix KIllegal end, r,
                                 pos + utf8_len ([] ++ [c]))
                     /\ lexeme (match els with Some k => TFix k | None => TFix KIllegal end) [c] r).
      { destruct els as [k|].
        - apply andb_true_iff in ELS. destruct ELS as [SPK NTC]. apply negb_true_iff in NTC. rewrite NTC.
          apply spelled_spec in SPK. destruct SPK as (A' & B' & C').
          split; [pos_eq|]. left. repeat split; auto; discriminate.
        - split; [pos_eq|]. right. split; [reflexivity|]. left. exists c. reflexivity. }
      destruct ELSE as [ELSE LX].
      destruct r as [|x r'].
      - right. eexists [], _, [c], []. split; [exact ELSE|]. split; [reflexivity|]. split; [constructor|exact LX].
      - destruct (N.eqb_spec x second) as [->|NX].
        + rewrite TC. right. exists [], (TFix t), [c; second], r'.
          split; [pos_eq|]. split; [reflexivity|]. split; [constructor|].
          left. repeat split; auto; discriminate.
        + right. eexists [], _, [c], (x :: r'). split; [exact ELSE|]. split; [reflexivity|].
          split; [constructor|exact LX]. }
    destruct (assoc N.eqb c single_tokens) as [k|] eqn:SG.
    { apply single_spelled in SG. apply spelled_spec in SG. destruct SG as (A & B & C).
      right. exists [], (TFix k), [c], r. split; [pos_eq|]. split; [reflexivity|]. split; [constructor|].
      left. repeat split; auto; discriminate. }
    right. exists [], (TFix KIllegal), [c], r. split; [pos_eq|]. split; [reflexivity|]. split; [constructor|].
    right. split; [reflexivity|]. left. exists c. reflexivity.
  Qed.

  Lemma next_token_spec : forall s f pos, (length s < f)%nat ->
    (next_token u f s pos = None /\ gap s) \/
    (exists g t w rest, next_token u f s pos = Some (t, rest, pos + utf8_len (g ++ w))
        /\ s = g ++ w ++ rest /\ gap g /\ lexeme t w rest).
  Proof. intros s f pos H. apply (next_token_spec_len (length s) s (le_n _) f pos H). Qed.

  Lemma lexeme_nonempty : forall t w rest, lexeme t w rest -> w <> [].
  Proof.
    intros t w rest [(_ & _ & _ & H)|(_ & [(c & ->)|(b & -> & _)])]; [exact H|discriminate|discriminate].
  Qed.

  (* every call consumes input *)
  Lemma next_token_shorter : forall f s pos t rest pos', (length s < f)%nat ->
    next_token u f s pos = Some (t, rest, pos') -> (length rest < length s)%nat.
  Proof.
    intros f s pos t rest pos' Hf E.
    destruct (next_token_spec s f pos Hf) as [[E' _]|(g & t' & w & rest' & E' & S & _ & L)]; [congruence|].
    rewrite E in E'. inversion E'; subst. apply lexeme_nonempty in L.
    rewrite !app_length. destruct w; [congruence|]. cbn [length]. lia.
  Qed.

  Lemma lex_fuel_nil : forall fuel pos, lex_fuel u fuel [] pos = [].
  Proof. intros [|fuel] pos; reflexivity. Qed.

  Lemma lex_fuel_covers : forall n s, (length s < n)%nat -> forall fuel pos, (length s < fuel)%nat ->
    covers pos s (lex_fuel u fuel s pos).
  Proof.
    induction n as [|n IH]; intros s Hn fuel pos Hf; [lia|].
    destruct fuel as [|fuel]; [lia|]. cbn [lex_fuel].
    destruct (next_token_spec s (S (length s)) pos ltac:(lia)) as [[E G]|(g & t & w & rest & E & S & G & L)].
    - rewrite E. apply cov_end. exact G.
    - rewrite E.
      assert (LR : (length rest < length s)%nat) by (eapply next_token_shorter; [|exact E]; lia).
      destruct L as [(L1 & L2 & L3 & L4)|(-> & [(c & ->)|(body & -> & NT & ->)])].
      + subst w s. apply cov_tok; auto. apply IH; lia.
      + subst s. cbn [app]. apply cov_bad_char; auto. apply IH; lia.
      + subst s. rewrite lex_fuel_nil. rewrite app_nil_r. apply cov_bad_string; auto.
  Qed.

  (* C08, "no part of the input is silently dropped": the whole input is the interleaving of
     white space / comments and the spellings of the tokens returned, in order, and every end
     offset is the byte length of the text consumed so far. *)
  Theorem lex_covers : forall s, covers 0 s (lex u s).
  Proof. intros s. unfold lex. apply (lex_fuel_covers (S (length s))); lia. Qed.

  (* the fuel of lex_fuel is adequate: it never cuts the token list short *)
  Lemma lex_fuel_enough : forall n s, (length s < n)%nat -> forall fuel pos, (length s < fuel)%nat ->
    lex_fuel u fuel s pos = lex_fuel u (S (length s)) s pos.
  Proof.
    induction n as [|n IH]; intros s Hn fuel pos Hf; [lia|].
    destruct fuel as [|fuel]; [lia|]. cbn [lex_fuel].
    destruct (next_token u (S (length s)) s pos) as [[[t rest] pos']|] eqn:E; [|reflexivity].
    assert (LR : (length rest < length s)%nat) by (eapply next_token_shorter; [|exact E]; lia).
    f_equal. rewrite (IH rest ltac:(lia) fuel pos' ltac:(lia)).
    rewrite (IH rest ltac:(lia) (length s) pos' ltac:(lia)). reflexivity.
  Qed.

  Lemma lex_fuel_step : forall s pos t rest pos',
    next_token u (S (length s)) s pos = Some (t, rest, pos') ->
    lex_fuel u (S (length s)) s pos = (t, pos') :: lex_fuel u (S (length rest)) rest pos'.
  Proof.
    intros s pos t rest pos' E. cbn [lex_fuel]. rewrite E. f_equal.
    assert (LR : (length rest < length s)%nat) by (eapply next_token_shorter; [|exact E]; lia).
    apply (lex_fuel_enough (S (length rest))); lia.
  Qed.

  Lemma lex_fuel_stop : forall s pos,
    next_token u (S (length s)) s pos = None -> lex_fuel u (S (length s)) s pos = [].
  Proof. intros s pos E. cbn [lex_fuel]. rewrite E. reflexivity. Qed.

  (* more fuel does not change the result of next_token *)
  Lemma next_token_fuel_mono : forall f s pos r, next_token u f s pos = Some r ->
    forall f', (f <= f')%nat -> next_token u f' s pos = Some r.
  Proof.
    induction f as [|f IH]; intros s pos r E f' Hf; [discriminate|].
    destruct f' as [|f']; [lia|]. destruct s as [|c s]; [discriminate|].
    rewrite next_token_S in E |- *. cbv zeta in E |- *.
    destruct (ident_start u c); [exact E|]. destruct (is_digit c); [exact E|].
    destruct (c =? 34)%N; [exact E|].
    destruct (is_ws c); [apply (IH _ _ _ E); lia|].
    destruct (c =? 47)%N; [|exact E].
    destruct (match s with d :: _ => (d =? 47)%N | [] => false end); [|exact E].
    destruct (span (fun x => negb (x =? 10)%N) s) as [a rest]. apply (IH _ _ _ E); lia.
  Qed.
End Coverage.

(** * 1 (continued) and 3. What the first token of a text is *)

Lemma ftoken_eqb_eq : forall a b, ftoken_eqb a b = true -> a = b.
Proof. intros a b; destruct a; destruct b; intros H; try reflexivity; discriminate H. Qed.

Lemma ftoken_eqb_refl : forall a, ftoken_eqb a a = true.
Proof. destruct a; reflexivity. Qed.

(* the first character of every two-character operator is an ASCII punctuation character that
   no earlier arm of the tokenizer claims, and it has exactly one row in the table *)
Definition double_head_ok (p : N * N * ftoken * option ftoken) : bool :=
  let '(a, b, t, e) := p in
  (a <? 128)%N && (b <? 128)%N && negb (ascii_alpha a || (a =? 95)%N) && negb (is_digit a)
  && negb (a =? 34)%N && negb (is_ws a) && negb (a =? 47)%N
  && match find_double a double_tokens with
     | Some (b', t', e') =>
         (b' =? b)%N && ftoken_eqb t' t &&
         match e', e with
         | Some x, Some y => ftoken_eqb x y
         | None, None => true
         | _, _ => false
         end
     | None => false
     end.

Lemma double_heads_ok : forallb double_head_ok double_tokens = true.
Proof. vm_compute. reflexivity. Qed.

(* the white-space code points of the table that are ASCII are claimed by no earlier arm *)
Definition ws_entry_ok (c : N) : bool :=
  negb (is_digit c) && negb (c =? 34)%N && negb (c =? 46)%N && negb (c =? 47)%N
  && negb (existsb (fun '(a, b, t, e) => (b =? c)%N) double_tokens)
  && ((128 <=? c)%N || negb (ascii_alpha c || is_digit c || (c =? 95)%N)).

Lemma ws_table_ok : forallb ws_entry_ok whitespace = true.
Proof. vm_compute. reflexivity. Qed.

Lemma is_ws_In : forall c, is_ws c = true -> In c whitespace.
Proof.
  intros c H. unfold is_ws in H. apply existsb_exists in H. destruct H as (x & I & E).
  apply N.eqb_eq in E. subst. exact I.
Qed.

Lemma keyword_rows_distinct :
  forallb (fun p => match assoc_text (str_cps (fst p)) keywords with
                    | Some k' => ftoken_eqb k' (snd p)
                    | None => false
                    end) keywords = true.
Proof. vm_compute. reflexivity. Qed.

Section FirstToken.
  Variable u : unicode.

  Lemma next_token_quote : forall f r pos,
    next_token u (S f) (34%N :: r) pos =
      let '(a, rest) := span_string false r in
      match rest with
      | [] => Some (TFix KIllegal, [], pos + 1 + utf8_len a)
      | q :: rest' => Some (TStringLit a, rest', pos + 1 + utf8_len a + utf8_len1 q)
      end.
  Proof.
    intros f r pos. rewrite next_token_S. cbv zeta.
    rewrite (ident_start_ascii u 34%N) by reflexivity. reflexivity.
  Qed.

  (* a literal written with any raw text (escape pairs and plain characters) is one token *)
  Theorem raw_string_lexes : forall r rest pos f, raw_string r ->
    next_token u (S f) (34%N :: r ++ 34%N :: rest) pos = Some (TStringLit r, rest, pos + 2 + utf8_len r).
  Proof.
    intros r rest pos f H. rewrite next_token_quote. rewrite (span_string_raw r rest H).
    change (utf8_len1 34%N) with 1. do 2 f_equal. lia.
  Qed.

  Theorem string_lexes : forall s rest pos f,
    next_token u (S f) (34%N :: quote s ++ 34%N :: rest) pos
    = Some (TStringLit (quote s), rest, pos + 2 + utf8_len (quote s)).
  Proof. intros s rest pos f. apply raw_string_lexes. apply quote_raw. Qed.

  Corollary string_literal_denotes : forall s rest pos f,
    exists raw pos', next_token u (S f) (34%N :: quote s ++ 34%N :: rest) pos = Some (TStringLit raw, rest, pos')
                     /\ decode_string raw = s.
  Proof.
    intros s rest pos f. exists (quote s), (pos + 2 + utf8_len (quote s)).
    split; [apply string_lexes|apply string_roundtrip].
  Qed.

  (* an opening quote without closing quote: the rest of the input becomes one KIllegal token *)
  Theorem unterminated_is_illegal : forall body pos f, ~ terminated body ->
    next_token u (S f) (34%N :: body) pos = Some (TFix KIllegal, [], pos + 1 + utf8_len body).
  Proof.
    intros body pos f NT. rewrite next_token_quote. rewrite (span_string_unterminated body NT). reflexivity.
  Qed.

  (* ... and conversely a literal is produced only for a terminated body *)
  Theorem string_token_inv : forall body pos f raw rest pos',
    next_token u (S f) (34%N :: body) pos = Some (TStringLit raw, rest, pos') ->
    raw_string raw /\ body = raw ++ 34%N :: rest /\ pos' = pos + 2 + utf8_len raw.
  Proof.
    intros body pos f raw rest pos' H. rewrite next_token_quote in H.
    destruct (span_string_cases body) as [(r & rest0 & Hr & E & S)|(NT & S)]; rewrite S in H.
    - change (utf8_len1 34%N) with 1 in H. inversion H; subst. split; [exact Hr|]. split; [reflexivity|lia].
    - discriminate.
  Qed.

  (** ** 3a. two-character operators before their one-character prefixes *)

  Lemma next_token_punct : forall c r pos f,
    ident_start u c = false -> is_digit c = false -> (c =? 34)%N = false -> is_ws c = false ->
    (c =? 47)%N = false ->
    next_token u (S f) (c :: r) pos =
      match find_double c double_tokens with
      | Some (second, t, els) =>
          let matched := match r with x :: _ => (x =? second)%N | [] => false end in
          let tok := if matched then Some t else els in
          match tok with
          | None => Some (TFix KIllegal, r, pos + utf8_len1 c)
          | Some k =>
              if is_two_char k then
                match r with
                | x :: r' => Some (TFix k, r', pos + utf8_len1 c + utf8_len1 x)
                | [] => Some (TFix k, [], pos + utf8_len1 c)
                end
              else Some (TFix k, r, pos + utf8_len1 c)
          end
      | None =>
          match assoc N.eqb c single_tokens with
          | Some k => Some (TFix k, r, pos + utf8_len1 c)
          | None => Some (TFix KIllegal, r, pos + utf8_len1 c)
          end
      end.
  Proof.
    intros c r pos f H1 H2 H3 H4 H5. rewrite next_token_S. cbv zeta. rewrite H1, H2, H3, H4, H5. reflexivity.
  Qed.

  Lemma double_row : forall a b t e, In (a, b, t, e) double_tokens ->
    ident_start u a = false /\ is_digit a = false /\ (a =? 34)%N = false /\ is_ws a = false /\
    (a =? 47)%N = false /\ find_double a double_tokens = Some (b, t, e) /\
    utf8_len1 a = 1 /\ utf8_len1 b = 1 /\ is_two_char t = true /\
    match e with Some k => is_two_char k = false | None => True end.
  Proof.
    intros a b t e I.
    pose proof double_heads_ok as K. rewrite forallb_forall in K. specialize (K _ I).
    pose proof doubles_ok as K2. rewrite forallb_forall in K2. specialize (K2 _ I).
    unfold double_head_ok in K. unfold double_entry_ok in K2.
    repeat (apply andb_true_iff in K; let X := fresh "X" in destruct K as [K X]).
    apply andb_true_iff in K2. destruct K2 as [K2 K3]. apply andb_true_iff in K2. destruct K2 as [_ K2].
    apply N.ltb_lt in K. apply N.ltb_lt in X5.
    apply negb_true_iff in X4, X3, X2, X1, X0.
    rewrite ident_start_ascii by exact K.
    repeat split; auto using utf8_len1_ascii.
    - destruct (find_double a double_tokens) as [[[b' t'] e']|]; [|discriminate].
      apply andb_true_iff in X. destruct X as [X Y]. apply andb_true_iff in X. destruct X as [X Z].
      apply N.eqb_eq in X. apply ftoken_eqb_eq in Z. subst.
      destruct e' as [x|], e as [y|]; try discriminate; [apply ftoken_eqb_eq in Y; subst|]; reflexivity.
    - destruct e as [k|]; [|exact Logic.I]. apply andb_true_iff in K3. destruct K3 as [_ K3].
      apply negb_true_iff in K3. exact K3.
  Qed.

  (* for each row (a, b, t, e) of the table: `ab` is the operator t ... *)
  Theorem two_char_first : forall a b t e rest pos f, In (a, b, t, e) double_tokens ->
    next_token u (S f) (a :: b :: rest) pos = Some (TFix t, rest, pos + 2).
  Proof.
    intros a b t e rest pos f I.
    destruct (double_row _ _ _ _ I) as (H1 & H2 & H3 & H4 & H5 & FD & La & Lb & TC & _).
    rewrite next_token_punct by assumption. rewrite FD. cbv zeta. rewrite N.eqb_refl. rewrite TC.
    rewrite La, Lb. do 2 f_equal. lia.
  Qed.

  (* ... and `a` followed by anything else (or by nothing) is the one-character token e, consuming
     one character only; `&` and `|` alone (e = None) are illegal characters *)
  Definition prefix_token (e : option ftoken) : token :=
    match e with Some k => TFix k | None => TFix KIllegal end.

  Theorem one_char_otherwise : forall a b t e c rest pos f, In (a, b, t, e) double_tokens -> c <> b ->
    next_token u (S f) (a :: c :: rest) pos = Some (prefix_token e, c :: rest, pos + 1).
  Proof.
    intros a b t e c rest pos f I NE.
    destruct (double_row _ _ _ _ I) as (H1 & H2 & H3 & H4 & H5 & FD & La & Lb & TC & EC).
    rewrite next_token_punct by assumption. rewrite FD. cbv zeta.
    apply N.eqb_neq in NE. rewrite NE. rewrite La.
    destruct e as [k|]; [rewrite EC|]; reflexivity.
  Qed.

  Theorem one_char_at_end : forall a b t e pos f, In (a, b, t, e) double_tokens ->
    next_token u (S f) [a] pos = Some (prefix_token e, [], pos + 1).
  Proof.
    intros a b t e pos f I.
    destruct (double_row _ _ _ _ I) as (H1 & H2 & H3 & H4 & H5 & FD & La & Lb & TC & EC).
    rewrite next_token_punct by assumption. rewrite FD. cbv zeta. rewrite La.
    destruct e as [k|]; [rewrite EC|]; reflexivity.
  Qed.

  (* the same for '/': `//` opens a comment, '/' followed by anything else is KSlash *)
  Theorem slash_otherwise : forall c rest pos f, c <> 47%N ->
    next_token u (S f) (47%N :: c :: rest) pos = Some (TFix KSlash, c :: rest, pos + 1).
  Proof.
    intros c rest pos f NE. rewrite next_token_S. cbv zeta.
    rewrite (ident_start_ascii u 47%N) by reflexivity.
    apply N.eqb_neq in NE.
    change (ascii_alpha 47%N || (47 =? 95)%N) with false. cbv iota.
    change (is_digit 47%N) with false. change (47 =? 34)%N with false. change (is_ws 47%N) with false.
    change (47 =? 47)%N with true. cbv iota. rewrite NE. reflexivity.
  Qed.

  (** ** 3b. keywords only as whole words; identifiers keep their spelling *)

  Theorem keyword_iff : forall w k,
    keyword_or_ident w = TFix k <-> exists s, In (s, k) keywords /\ w = str_cps s.
  Proof.
    intros w k. unfold keyword_or_ident. split.
    - destruct (assoc_text w keywords) as [k'|] eqn:E; [|discriminate].
      intros H. inversion H; subst. apply assoc_text_In. exact E.
    - intros (s & I & ->). pose proof keyword_rows_distinct as K. rewrite forallb_forall in K.
      specialize (K _ I). cbn [fst snd] in K.
      destruct (assoc_text (str_cps s) keywords) as [k'|]; [|discriminate].
      apply ftoken_eqb_eq in K. subst. reflexivity.
  Qed.

  Theorem non_keyword_is_ident : forall w,
    (forall s k, In (s, k) keywords -> w <> str_cps s) -> keyword_or_ident w = TIdent w.
  Proof.
    intros w H. unfold keyword_or_ident. destruct (assoc_text w keywords) as [k|] eqn:E; [|reflexivity].
    apply assoc_text_In in E. destruct E as (s & I & W). exfalso. exact (H _ _ I W).
  Qed.

  (* a maximal identifier-shaped word is one token, keyword or identifier, spelled verbatim *)
  Theorem word_lexes : forall c a rest pos f,
    ident_start u c = true -> forallb (ident_char u) a = true -> stops (ident_char u) rest ->
    next_token u (S f) (c :: a ++ rest) pos = Some (keyword_or_ident (c :: a), rest, pos + utf8_len (c :: a)).
  Proof.
    intros c a rest pos f H1 H2 H3. rewrite next_token_S. cbv zeta. rewrite H1.
    rewrite (span_exact _ _ _ H2 H3). rewrite utf8_len_cons. do 2 f_equal. lia.
  Qed.

  (** ** 3c. numbers keep their exact spelling *)

  Lemma span_number_digits : forall ds d rest, forallb is_digit ds = true ->
    span_number d (ds ++ rest) = let '(a, b, d') := span_number d rest in (ds ++ a, b, d').
  Proof.
    induction ds as [|c ds IH]; intros d rest H.
    - cbn [app]. destruct (span_number d rest) as [[a b] d']. reflexivity.
    - cbn [forallb] in H. apply andb_true_iff in H. destruct H as [Hc H].
      cbn [app span_number]. rewrite Hc. rewrite (IH d rest H).
      destruct (span_number d rest) as [[a b] d']. reflexivity.
  Qed.

  Lemma span_number_stop : forall d rest,
    stops (fun x => is_digit x || negb d && (x =? 46)%N) rest -> span_number d rest = ([], rest, d).
  Proof.
    intros d [|c r] H; [reflexivity|]. cbn [stops] in H. apply orb_false_iff in H. destruct H as [H1 H2].
    cbn [span_number]. rewrite H1, H2. reflexivity.
  Qed.

  Theorem int_lexes : forall c ds rest pos f,
    is_digit c = true -> forallb is_digit ds = true ->
    stops (fun x => is_digit x || (x =? 46)%N) rest ->
    next_token u (S f) (c :: ds ++ rest) pos = Some (TIntLit (c :: ds), rest, pos + utf8_len (c :: ds)).
  Proof.
    intros c ds rest pos f Hc Hd Hr. rewrite next_token_S. cbv zeta.
    rewrite (digit_not_ident_start u c Hc), Hc.
    rewrite (span_number_digits ds false rest Hd). rewrite (span_number_stop false rest Hr).
    rewrite app_nil_r. rewrite utf8_len_cons. do 2 f_equal. lia.
  Qed.

  (* the first '.' belongs to the number even when no digit follows; a second '.' ends it *)
  Theorem float_lexes : forall c ds fs rest pos f,
    is_digit c = true -> forallb is_digit ds = true -> forallb is_digit fs = true ->
    stops is_digit rest ->
    next_token u (S f) (c :: ds ++ 46%N :: fs ++ rest) pos
    = Some (TFloatLit (c :: ds ++ 46%N :: fs), rest, pos + utf8_len (c :: ds ++ 46%N :: fs)).
  Proof.
    intros c ds fs rest pos f Hc Hd Hf Hr. rewrite next_token_S. cbv zeta.
    rewrite (digit_not_ident_start u c Hc), Hc.
    rewrite (span_number_digits ds false _ Hd).
    assert (E : span_number false (46%N :: fs ++ rest) = (46%N :: fs, rest, true)).
    { cbn [span_number]. change (is_digit 46%N) with false. change (negb false && (46 =? 46)%N) with true.
      cbv iota. rewrite (span_number_digits fs true rest Hf).
      rewrite (span_number_stop true rest).
      - rewrite app_nil_r. reflexivity.
      - destruct rest as [|x r]; [exact I|]. cbn [stops] in Hr |- *. rewrite Hr. reflexivity. }
    rewrite E. rewrite utf8_len_cons. do 2 f_equal. lia.
  Qed.
End FirstToken.

(* Examples with a trivial oracle (nothing beyond ASCII is a letter) *)
Definition u0 : unicode := mkUnicode (fun _ => false) (fun _ => false).

Example ex_keyword : tokens u0 (str_cps "als") = [TFix KIf].
Proof. vm_compute. reflexivity. Qed.
Example ex_alsof : tokens u0 (str_cps "alsof") = [TIdent (str_cps "alsof")].
Proof. vm_compute. reflexivity. Qed.
Example ex_stelling : tokens u0 (str_cps "stelling") = [TIdent (str_cps "stelling")].
Proof. vm_compute. reflexivity. Qed.
Example ex_ja_ : tokens u0 (str_cps "ja_") = [TIdent (str_cps "ja_")].
Proof. vm_compute. reflexivity. Qed.
Example ex_float_dot : tokens u0 (str_cps "2.") = [TFloatLit (str_cps "2.")].
Proof. vm_compute. reflexivity. Qed.
Example ex_second_dot : tokens u0 (str_cps "1.2.3") = [TFloatLit (str_cps "1.2"); TFix KDot; TIntLit (str_cps "3")].
Proof. vm_compute. reflexivity. Qed.
Example ex_ops : tokens u0 (str_cps "a<=b<c==d=e!=!f") =
  [TIdent (str_cps "a"); TFix KLte; TIdent (str_cps "b"); TFix KLt; TIdent (str_cps "c"); TFix KEq;
   TIdent (str_cps "d"); TFix KAssign; TIdent (str_cps "e"); TFix KNeq; TFix KBang; TIdent (str_cps "f")].
Proof. vm_compute. reflexivity. Qed.
Example ex_amp : tokens u0 (str_cps "a&b&&c") =
  [TIdent (str_cps "a"); TFix KIllegal; TIdent (str_cps "b"); TFix KAnd; TIdent (str_cps "c")].
Proof. vm_compute. reflexivity. Qed.

(** * 4. Rendering a token sequence and lexing it back *)

Lemma spell_keyword_In : forall k l w, spell_keyword k l = Some w ->
  exists s, In (s, k) l /\ w = str_cps s.
Proof.
  intros k. induction l as [|[s k'] l IH]; intros w H; cbn [spell_keyword] in H; [discriminate|].
  destruct (ftoken_eqb k k') eqn:E.
  - apply ftoken_eqb_eq in E. subst. inversion H. exists s. split; [left; reflexivity|reflexivity].
  - destruct (IH _ H) as (s' & I & W). exists s'. split; [right; exact I|exact W].
Qed.

Lemma spell_single_In : forall k l w, spell_single k l = Some w ->
  exists c, In (c, k) l /\ w = [c].
Proof.
  intros k. induction l as [|[c k'] l IH]; intros w H; cbn [spell_single] in H; [discriminate|].
  destruct (ftoken_eqb k k') eqn:E.
  - apply ftoken_eqb_eq in E. subst. inversion H. exists c. split; [left; reflexivity|reflexivity].
  - destruct (IH _ H) as (c' & I & W). exists c'. split; [right; exact I|exact W].
Qed.

Lemma spell_double_In : forall k l w, spell_double k l = Some w ->
  exists a b t e, In (a, b, t, e) l /\ ((t = k /\ w = [a; b]) \/ (e = Some k /\ w = [a])).
Proof.
  intros k. induction l as [|[[[a b] t] e] l IH]; intros w H; cbn [spell_double] in H; [discriminate|].
  destruct (ftoken_eqb k t) eqn:E.
  { apply ftoken_eqb_eq in E. subst. inversion H. exists a, b, t, e. split; [left; reflexivity|].
    left. split; reflexivity. }
  destruct e as [k'|].
  - destruct (ftoken_eqb k k') eqn:E'.
    + apply ftoken_eqb_eq in E'. subst. inversion H. exists a, b, t, (Some k'). split; [left; reflexivity|].
      right. split; reflexivity.
    + destruct (IH _ H) as (a' & b' & t' & e' & I & W). exists a', b', t', e'. split; [right; exact I|exact W].
  - destruct (IH _ H) as (a' & b' & t' & e' & I & W). exists a', b', t', e'. split; [right; exact I|exact W].
Qed.

Lemma fixed_spelling_cases : forall k w, fixed_spelling k = Some w ->
  (exists s, In (s, k) keywords /\ w = str_cps s)
  \/ (exists c, In (c, k) single_tokens /\ w = [c])
  \/ (exists a b t e, In (a, b, t, e) double_tokens /\
                      ((t = k /\ w = [a; b]) \/ (e = Some k /\ w = [a])))
  \/ (k = KSlash /\ w = [47%N]).
Proof.
  intros k w H. unfold fixed_spelling in H.
  destruct (spell_keyword k keywords) as [w1|] eqn:E1.
  { inversion H; subst. left. apply spell_keyword_In. exact E1. }
  destruct (spell_single k single_tokens) as [w2|] eqn:E2.
  { inversion H; subst. right. left. apply spell_single_In. exact E2. }
  destruct (spell_double k double_tokens) as [w3|] eqn:E3.
  { inversion H; subst. right. right. left. apply spell_double_In. exact E3. }
  destruct (ftoken_eqb k KSlash) eqn:E4; [|discriminate].
  apply ftoken_eqb_eq in E4. inversion H. right. right. right. split; [exact E4|reflexivity].
Qed.

(* table checks *)
Definition ascii_letter (c : N) : bool := (c <? 128)%N && ascii_alpha c.
Definition ascii_word_char (c : N) : bool :=
  (c <? 128)%N && (ascii_alpha c || is_digit c || (c =? 95)%N).
Definition keyword_shape_ok (p : string * ftoken) : bool :=
  match str_cps (fst p) with
  | c :: a => ascii_letter c && forallb ascii_word_char a
  | [] => false
  end.
Lemma keyword_shapes_ok : forallb keyword_shape_ok keywords = true.
Proof. vm_compute. reflexivity. Qed.

Definition single_head_ok (p : N * ftoken) : bool :=
  let '(c, k) := p in
  (c <? 128)%N && negb (ascii_alpha c || (c =? 95)%N) && negb (is_digit c) && negb (c =? 34)%N
  && negb (is_ws c) && negb (c =? 47)%N
  && match find_double c double_tokens with None => true | Some _ => false end
  && match assoc N.eqb c single_tokens with Some k' => ftoken_eqb k' k | None => false end.
Lemma single_heads_ok : forallb single_head_ok single_tokens = true.
Proof. vm_compute. reflexivity. Qed.

Definition prefix_ok (p : N * N * ftoken * option ftoken) : bool :=
  let '(a, b, t, e) := p in
  match e with Some k => negb (is_keyword k) && negb (ftoken_eqb k KSlash) | None => true end.
Lemma prefixes_ok : forallb prefix_ok double_tokens = true.
Proof. vm_compute. reflexivity. Qed.

(* the first character of the spelling of a proper fixed token: ASCII, never a digit, and a
   word character only for keywords *)
Definition fixed_head_ok (k : ftoken) : bool :=
  match fixed_spelling k with
  | Some (c :: _) =>
      (c <? 128)%N && negb (is_digit c)
      && (is_keyword k || negb (ascii_alpha c || is_digit c || (c =? 95)%N))
  | _ => false
  end.
Lemma fixed_heads_ok : forall k, legal k = true -> fixed_head_ok k = true.
Proof. intros k H. destruct k; try discriminate H; vm_compute; reflexivity. Qed.

(* the clash test of [prefix] tokens against a fixed character *)
Definition prefix_clash_char (k : ftoken) (c : cp) : bool :=
  existsb (fun '(a, b, t, e) =>
             match e with Some k' => ftoken_eqb k k' && (c =? b)%N | None => false end)
          double_tokens.

Lemma no_prefix_clash_slash : forall k, prefix_clash_char k 47%N = false.
Proof. intros k. destruct k; vm_compute; reflexivity. Qed.

Lemma no_prefix_clash_ws : forall k c, is_ws c = true -> prefix_clash_char k c = false.
Proof.
  intros k c H. apply is_ws_In in H. revert c H.
  assert (G : forallb (fun c => negb (prefix_clash_char k c)) whitespace = true)
    by (destruct k; vm_compute; reflexivity).
  rewrite forallb_forall in G. intros c H. apply negb_true_iff. exact (G c H).
Qed.

Section RenderLex.
  Variable u : unicode.

  (* would c, standing right after the spelling of t, change how t is lexed? *)
  Definition clash (t : token) (c : cp) : bool :=
    match t with
    | TIdent _ => ident_char u c
    | TIntLit _ => is_digit c || (c =? 46)%N
    | TFloatLit _ => is_digit c
    | TStringLit _ => false
    | TFix k =>
        if is_keyword k then ident_char u c
        else if ftoken_eqb k KSlash then (c =? 47)%N
        else prefix_clash_char k c
    end.

  Definition follow_ok (t : token) (tail : text) : Prop :=
    match tail with [] => True | c :: _ => clash t c = false end.

  Lemma is_keyword_In : forall s k, In (s, k) keywords -> is_keyword k = true.
  Proof.
    intros s k I. unfold is_keyword. apply existsb_exists. exists (s, k). split; [exact I|].
    apply ftoken_eqb_refl.
  Qed.

  Lemma ascii_word_char_ident : forall a, forallb ascii_word_char a = true -> forallb (ident_char u) a = true.
  Proof.
    induction a as [|c a IH]; intros H; [reflexivity|].
    cbn [forallb] in H |- *. apply andb_true_iff in H. destruct H as [Hc H].
    unfold ascii_word_char in Hc. apply andb_true_iff in Hc. destruct Hc as [L W]. apply N.ltb_lt in L.
    rewrite (ident_char_ascii u c L), W, (IH H). reflexivity.
  Qed.

  Lemma keyword_lexes : forall s k tail pos f, In (s, k) keywords -> stops (ident_char u) tail ->
    next_token u (S f) (str_cps s ++ tail) pos = Some (TFix k, tail, pos + utf8_len (str_cps s)).
  Proof.
    intros s k tail pos f I ST.
    pose proof keyword_shapes_ok as K. rewrite forallb_forall in K. specialize (K _ I).
    unfold keyword_shape_ok in K. cbn [fst] in K.
    assert (KW : keyword_or_ident (str_cps s) = TFix k) by (apply keyword_iff; exists s; split; auto).
    destruct (str_cps s) as [|c a]; [discriminate|].
    apply andb_true_iff in K. destruct K as [Kc Ka].
    unfold ascii_letter in Kc. apply andb_true_iff in Kc. destruct Kc as [L A]. apply N.ltb_lt in L.
    cbn [app]. rewrite word_lexes; auto.
    - rewrite KW. reflexivity.
    - rewrite (ident_start_ascii u c L), A. reflexivity.
    - apply ascii_word_char_ident. exact Ka.
  Qed.

  Lemma single_lexes : forall c k tail pos f, In (c, k) single_tokens ->
    next_token u (S f) (c :: tail) pos = Some (TFix k, tail, pos + 1).
  Proof.
    intros c k tail pos f I.
    pose proof single_heads_ok as K. rewrite forallb_forall in K. specialize (K _ I).
    unfold single_head_ok in K.
    repeat (apply andb_true_iff in K; let X := fresh "X" in destruct K as [K X]).
    apply N.ltb_lt in K. apply negb_true_iff in X5, X4, X3, X2, X1.
    rewrite next_token_punct; auto.
    - destruct (find_double c double_tokens); [discriminate|].
      destruct (assoc N.eqb c single_tokens) as [k'|]; [|discriminate].
      apply ftoken_eqb_eq in X. subst. rewrite (utf8_len1_ascii c K). reflexivity.
    - rewrite (ident_start_ascii u c K). exact X5.
  Qed.

  Lemma slash_at_end : forall pos f, next_token u (S f) [47%N] pos = Some (TFix KSlash, [], pos + 1).
  Proof.
    intros pos f. rewrite next_token_S. cbv zeta.
    rewrite (ident_start_ascii u 47%N) by reflexivity. reflexivity.
  Qed.

  (* Lemma A: the spelling of a printable token, followed by anything that does not clash with
     it, lexes to exactly that token *)
  Lemma spelling_lexes : forall t tail pos f, printable u t -> follow_ok t tail ->
    next_token u (S f) (spelling t ++ tail) pos = Some (t, tail, pos + utf8_len (spelling t)).
  Proof.
    intros t tail pos f P FO. destruct t as [w|w|w|r|k]; cbn [printable] in P.
    - (* identifier *)
      destruct P as [SH NK]. destruct w as [|c a]; [contradiction|]. destruct SH as [H1 H2].
      cbn [spelling app]. rewrite word_lexes; [|assumption|assumption|exact FO].
      unfold keyword_or_ident. rewrite NK. reflexivity.
    - (* integer *)
      destruct P as [NE D]. destruct w as [|c ds]; [congruence|].
      cbn [forallb] in D. apply andb_true_iff in D. destruct D as [Dc Dd].
      cbn [spelling app]. rewrite int_lexes; [reflexivity|assumption|assumption|exact FO].
    - (* float *)
      destruct P as (ds & fs & -> & NE & Dd & Df). destruct ds as [|c ds]; [congruence|].
      cbn [forallb] in Dd. apply andb_true_iff in Dd. destruct Dd as [Dc Dd].
      cbn [spelling app]. rewrite <- app_assoc. cbn [app]. rewrite float_lexes; [|assumption|assumption|assumption|exact FO].
      reflexivity.
    - (* string *)
      cbn [spelling app]. rewrite <- app_assoc. cbn [app]. rewrite raw_string_lexes by exact P.
      do 2 f_equal. rewrite utf8_len_cons, utf8_len_app. change (utf8_len1 34%N) with 1.
      change (utf8_len [34%N]) with 1. lia.
    - (* fixed token *)
      destruct (proj1 (fixed_spelling_total k) P) as (w & W & WN).
      cbn [spelling]. rewrite W.
      destruct (fixed_spelling_cases k w W)
        as [(s & I & ->)|[(c & I & ->)|[(a & b & t & e & I & [[-> ->]|[-> ->]])|[-> ->]]]].
      + apply keyword_lexes; [exact I|]. destruct tail as [|c tl]; [exact Logic.I|].
        cbn [follow_ok clash] in FO. rewrite (is_keyword_In _ _ I) in FO. exact FO.
      + cbn [app]. rewrite (single_lexes _ _ _ _ _ I).
        pose proof single_heads_ok as K. rewrite forallb_forall in K. specialize (K _ I).
        unfold single_head_ok in K.
        repeat (apply andb_true_iff in K; let X := fresh "X" in destruct K as [K X]).
        apply N.ltb_lt in K. rewrite utf8_len_cons, (utf8_len1_ascii c K). reflexivity.
      + cbn [app]. rewrite (two_char_first u _ _ _ _ _ _ _ I).
        destruct (double_row u _ _ _ _ I) as (_ & _ & _ & _ & _ & _ & La & Lb & _).
        rewrite !utf8_len_cons, La, Lb. reflexivity.
      + destruct (double_row u _ _ _ _ I) as (_ & _ & _ & _ & _ & _ & La & Lb & _).
        cbn [app]. rewrite utf8_len_cons, La. change (utf8_len []) with 0.
        destruct tail as [|c tl].
        * rewrite (one_char_at_end u _ _ _ _ _ _ I). reflexivity.
        * rewrite (one_char_otherwise u _ _ _ _ c tl _ _ I); [reflexivity|].
          cbn [follow_ok clash] in FO.
          pose proof prefixes_ok as K. rewrite forallb_forall in K. specialize (K _ I).
          cbn [prefix_ok] in K. apply andb_true_iff in K. destruct K as [K1 K2].
          apply negb_true_iff in K1, K2. rewrite K1, K2 in FO.
          unfold prefix_clash_char in FO.
          intros ->.
          apply not_true_iff_false in FO. apply FO.
          apply existsb_exists. exists (a, b, t, Some k). split; [exact I|].
          cbn beta iota. rewrite ftoken_eqb_refl, N.eqb_refl. reflexivity.
      + cbn [app]. change (utf8_len [47%N]) with 1.
        destruct tail as [|c tl]; [apply slash_at_end|].
        cbn [follow_ok clash] in FO. change (is_keyword KSlash) with false in FO.
        change (ftoken_eqb KSlash KSlash) with true in FO. cbv iota in FO.
        apply slash_otherwise. apply N.eqb_neq. exact FO.
  Qed.

  Lemma printable_spelling_nonempty : forall t, printable u t -> spelling t <> [].
  Proof.
    intros [w|w|w|r|k] P; cbn [printable spelling] in *.
    - destruct P as [P _]. destruct w; [contradiction|discriminate].
    - destruct P as [P _]. exact P.
    - destruct P as (ds & fs & -> & _). destruct ds; discriminate.
    - discriminate.
    - destruct (proj1 (fixed_spelling_total k) P) as (w & W & WN). rewrite W. exact WN.
  Qed.

  (** ** what the first character of a spelling can be *)

  Lemma head_nonword : forall t c tl, printable u t -> spelling t = c :: tl -> wordlike t = false ->
    ident_char u c = false.
  Proof.
    intros [w|w|w|r|k] c tl P S W; cbn [wordlike] in W; try discriminate W.
    - cbn [spelling] in S. inversion S; subst. rewrite (ident_char_ascii u 34%N) by reflexivity. reflexivity.
    - cbn [printable] in P. apply legal_iff in P. pose proof (fixed_heads_ok k P) as H.
      unfold fixed_head_ok in H. cbn [spelling] in S.
      destruct (fixed_spelling k) as [[|c' tl']|]; try discriminate H. inversion S; subst.
      rewrite W in H. cbn [orb] in H.
      apply andb_true_iff in H. destruct H as [H H3]. apply andb_true_iff in H. destruct H as [H1 H2].
      apply N.ltb_lt in H1. rewrite (ident_char_ascii u c H1). apply negb_true_iff in H3. exact H3.
  Qed.

  Lemma head_nondigit : forall t c tl, printable u t -> spelling t = c :: tl -> numberlike t = false ->
    is_digit c = false.
  Proof.
    intros [w|w|w|r|k] c tl P S W; cbn [numberlike] in W; try discriminate W.
    - cbn [spelling] in S. subst w. cbn [printable] in P. destruct P as [[P _] _].
      destruct (is_digit c) eqn:D; [|reflexivity].
      rewrite (digit_not_ident_start u c D) in P. discriminate.
    - cbn [spelling] in S. inversion S; subst. reflexivity.
    - cbn [printable] in P. apply legal_iff in P. pose proof (fixed_heads_ok k P) as H.
      unfold fixed_head_ok in H. cbn [spelling] in S.
      destruct (fixed_spelling k) as [[|c' tl']|]; try discriminate H. inversion S; subst.
      apply andb_true_iff in H. destruct H as [H H3]. apply andb_true_iff in H. destruct H as [H1 H2].
      apply negb_true_iff in H2. exact H2.
  Qed.

  Lemma starts_with_head : forall t c tl x, spelling t = c :: tl -> starts_with x t = (c =? x)%N.
  Proof. intros t c tl x S. unfold starts_with. rewrite S. reflexivity. Qed.

  (* Lemma B: needs_sep is a sound approximation of clash *)
  Lemma needs_sep_clash : forall t1 t2 c tl, printable u t2 -> spelling t2 = c :: tl ->
    needs_sep t1 t2 = false -> clash t1 c = false.
  Proof.
    intros t1 t2 c tl P S NS. destruct t1 as [w|w|w|r|k]; cbn [needs_sep] in NS; cbn [clash].
    - eapply head_nonword; eauto.
    - apply orb_false_iff in NS. destruct NS as [N1 N2].
      rewrite (starts_with_head _ _ _ _ S) in N2. rewrite N2.
      rewrite (head_nondigit _ _ _ P S N1). reflexivity.
    - eapply head_nondigit; eauto.
    - reflexivity.
    - destruct (is_keyword k); [eapply head_nonword; eauto|].
      destruct (ftoken_eqb k KSlash).
      + rewrite (starts_with_head _ _ _ _ S) in NS. exact NS.
      + unfold prefix_clash in NS. unfold starts_with in NS. rewrite S in NS. exact NS.
  Qed.

  Lemma ws_facts : forall c, is_ws c = true ->
    is_digit c = false /\ (c =? 34)%N = false /\ (c =? 46)%N = false /\ (c =? 47)%N = false.
  Proof.
    intros c H. apply is_ws_In in H. pose proof ws_table_ok as K. rewrite forallb_forall in K.
    specialize (K _ H). unfold ws_entry_ok in K.
    repeat (apply andb_true_iff in K; let X := fresh "X" in destruct K as [K X]).
    apply negb_true_iff in K, X3, X2, X1. auto.
  Qed.

  Lemma sep_char_facts : forall c, sep_char u c = true ->
    is_ws c = true /\ ident_start u c = false /\ ident_char u c = false.
  Proof.
    intros c H. unfold sep_char in H. apply andb_true_iff in H. destruct H as [H H3].
    apply andb_true_iff in H. destruct H as [H1 H2]. apply negb_true_iff in H2, H3. auto.
  Qed.

  (* Lemma E: an admissible white-space character ends every token *)
  Lemma sep_char_no_clash : forall t c, sep_char u c = true -> clash t c = false.
  Proof.
    intros t c H. destruct (sep_char_facts c H) as (W & IS & IC).
    destruct (ws_facts c W) as (D & Q & DOT & SL).
    destruct t as [w|w|w|r|k]; cbn [clash]; auto.
    - rewrite D, DOT. reflexivity.
    - destruct (is_keyword k); [exact IC|]. destruct (ftoken_eqb k KSlash); [exact SL|].
      apply no_prefix_clash_ws. exact W.
  Qed.

  (* Lemma F: so does the '/' of a comment, except after '/' *)
  Lemma slash_no_clash : forall t, t <> TFix KSlash -> clash t 47%N = false.
  Proof.
    intros t NE. assert (IC : ident_char u 47%N = false)
      by (rewrite (ident_char_ascii u 47%N) by reflexivity; reflexivity).
    destruct t as [w|w|w|r|k]; cbn [clash]; auto.
    destruct (is_keyword k); [exact IC|]. destruct (ftoken_eqb k KSlash) eqn:E.
    - apply ftoken_eqb_eq in E. subst. congruence.
    - apply no_prefix_clash_slash.
  Qed.

  (** ** skipping separators *)

  Lemma next_token_ws : forall c r pos f, sep_char u c = true ->
    next_token u (S f) (c :: r) pos = next_token u f r (pos + utf8_len1 c).
  Proof.
    intros c r pos f H. destruct (sep_char_facts c H) as (W & IS & IC).
    destruct (ws_facts c W) as (D & Q & DOT & SL).
    rewrite next_token_S. cbv zeta. rewrite IS, D, Q, W. reflexivity.
  Qed.

  Lemma newline_sep_char : sep_char u 10%N = true.
  Proof.
    unfold sep_char. rewrite (ident_start_ascii u 10%N) by reflexivity.
    rewrite (ident_char_ascii u 10%N) by reflexivity. reflexivity.
  Qed.

  Lemma next_token_comment : forall body tail pos f, no_newline body = true ->
    stops (fun x => negb (x =? 10)%N) tail ->
    next_token u (S f) (47%N :: 47%N :: body ++ tail) pos = next_token u f tail (pos + 2 + utf8_len body).
  Proof.
    intros body tail pos f NN ST. rewrite next_token_S. cbv zeta.
    rewrite (ident_start_ascii u 47%N) by reflexivity.
    change (ascii_alpha 47%N || (47 =? 95)%N) with false. cbv iota.
    change (is_digit 47%N) with false. change (47 =? 34)%N with false. change (is_ws 47%N) with false.
    change (47 =? 47)%N with true. cbv iota.
    change (47%N :: body ++ tail) with ((47%N :: body) ++ tail).
    rewrite span_exact; [| |exact ST].
    - rewrite utf8_len_cons. change (utf8_len1 47%N) with 1. f_equal. lia.
    - cbn [forallb]. apply andb_true_iff. split; [reflexivity|exact NN].
  Qed.

  (* Lemma C *)
  Lemma skip_sepgap : forall g, sepgap u g -> forall s pos f r,
    next_token u f s (pos + utf8_len g) = Some r -> next_token u (f + length g) (g ++ s) pos = Some r.
  Proof.
    intros g H. induction H as [|c g SC H IH|body g NN H IH]; intros s pos f r E.
    - rewrite utf8_len_nil, Z.add_0_r in E. cbn [length app]. rewrite Nat.add_0_r. exact E.
    - cbn [length app]. rewrite Nat.add_succ_r. rewrite next_token_ws by exact SC.
      apply IH. rewrite utf8_len_cons, Z.add_assoc in E. exact E.
    - apply (next_token_fuel_mono u (S (S (f + length g)))).
      2:{ cbn [length]. rewrite app_length. cbn [length]. lia. }
      cbn [app]. rewrite <- app_assoc. cbn [app].
      rewrite next_token_comment; [|exact NN|reflexivity].
      rewrite next_token_ws by exact newline_sep_char.
      apply IH.
      match goal with |- next_token u f s ?p = _ => replace p with (pos + utf8_len (47%N :: 47%N :: body ++ 10%N :: g)) end; [exact E|].
      rewrite !utf8_len_cons, utf8_len_app, utf8_len_cons. change (utf8_len1 47%N) with 1.
      change (utf8_len1 10%N) with 1. lia.
  Qed.

  (* Lemma D *)
  Lemma skip_sepgap_none : forall g, sepgap u g -> forall s,
    (forall f pos, next_token u f s pos = None) -> forall f pos, next_token u f (g ++ s) pos = None.
  Proof.
    intros g H. induction H as [|c g SC H IH|body g NN H IH]; intros s E f pos.
    - apply E.
    - destruct f as [|f]; [reflexivity|]. cbn [app]. rewrite next_token_ws by exact SC. apply IH. exact E.
    - destruct f as [|f]; [reflexivity|]. cbn [app]. rewrite <- app_assoc. cbn [app].
      rewrite next_token_comment; [|exact NN|reflexivity].
      destruct f as [|f]; [reflexivity|]. rewrite next_token_ws by exact newline_sep_char.
      apply IH. exact E.
  Qed.

  Lemma trailgap_none : forall g, trailgap u g -> forall f pos, next_token u f g pos = None.
  Proof.
    intros g H. destruct H as [g H|g body H NN]; intros f pos.
    - rewrite <- (app_nil_r g). apply skip_sepgap_none; [exact H|]. intros. apply next_token_nil.
    - apply skip_sepgap_none; [exact H|]. clear f pos. intros f pos.
      destruct f as [|f]; [reflexivity|]. rewrite <- (app_nil_r body).
      rewrite next_token_comment; [|exact NN|exact Logic.I]. apply next_token_nil.
  Qed.

  (** ** what follows a token in a rendering does not clash with it *)

  Lemma sepgap_head : forall c g, sepgap u (c :: g) -> sep_char u c = true \/ c = 47%N.
  Proof. intros c g H. inversion H; subst; [left; assumption|right; reflexivity]. Qed.

  Lemma trailgap_head : forall c g, trailgap u (c :: g) -> sep_char u c = true \/ c = 47%N.
  Proof.
    intros c g H. inversion H as [g0 H0 E|g0 body H0 NN E]; subst.
    - eapply sepgap_head. exact H0.
    - destruct g0 as [|c0 g0]; cbn [app] in E; inversion E; subst.
      + right. reflexivity.
      + eapply sepgap_head. exact H0.
  Qed.

  Lemma gap_head_no_clash : forall t c, (sep_char u c = true \/ c = 47%N) ->
    (c = 47%N -> t <> TFix KSlash) -> clash t c = false.
  Proof.
    intros t c [H| ->] NS; [apply sep_char_no_clash; exact H|].
    apply slash_no_clash. apply NS. reflexivity.
  Qed.

  Lemma follow_render : forall t r trail, admissible u (Some t) r -> trailgap u trail ->
    trail_admissible (last_tok (Some t) r) trail -> follow_ok t (render r trail).
  Proof.
    intros t r trail A TG TA. destruct r as [|[sep t'] r'].
    - cbn [render last_tok] in *. destruct trail as [|c tl]; [exact Logic.I|].
      cbn [follow_ok]. cbn [trail_admissible] in TA.
      apply gap_head_no_clash; [eapply trailgap_head; exact TG|exact TA].
    - cbn [admissible] in A. destruct A as (SG & P & SA & _). cbn [render].
      destruct sep as [|c sep'].
      + cbn [app]. cbn [sep_admissible] in SA.
        pose proof (printable_spelling_nonempty t' P) as NE.
        destruct (spelling t') as [|c tl] eqn:S; [congruence|]. cbn [app follow_ok].
        eapply needs_sep_clash; eauto.
      + cbn [app follow_ok]. cbn [sep_admissible] in SA.
        apply gap_head_no_clash; [eapply sepgap_head; exact SG|exact SA].
  Qed.

  Lemma lex_render_from : forall trail, trailgap u trail -> forall items prev pos,
    admissible u prev items -> trail_admissible (last_tok prev items) trail ->
    map fst (lex_fuel u (S (length (render items trail))) (render items trail) pos) = map snd items.
  Proof.
    intros trail TG. induction items as [|[sep t] r IH]; intros prev pos A TA.
    - cbn [render map]. rewrite lex_fuel_stop; [reflexivity|]. apply trailgap_none. exact TG.
    - pose proof A as A'. cbn [admissible] in A'. destruct A' as (SG & P & SA & AR).
      cbn [last_tok] in TA. cbn [render].
      assert (E : next_token u (S (length (sep ++ spelling t ++ render r trail)))
                    (sep ++ spelling t ++ render r trail) pos
                  = Some (t, render r trail, pos + utf8_len sep + utf8_len (spelling t))).
      { apply (next_token_fuel_mono u (1 + length sep)); [|rewrite app_length; lia].
        apply skip_sepgap; [exact SG|].
        apply spelling_lexes; [exact P|]. apply follow_render; assumption. }
      rewrite (lex_fuel_step u _ _ _ _ _ E). cbn [map fst snd]. f_equal.
      apply (IH (Some t)); assumption.
  Qed.

  (* C08, round trip on token sequences: printable tokens, written with admissible separators
     (white space and newline-closed comments, non-empty wherever needs_sep asks for one) and an
     optional trailing gap, lex back to exactly the same tokens. *)
  Theorem lex_render : forall items trail,
    admissible u None items -> trailgap u trail -> trail_admissible (last_tok None items) trail ->
    tokens u (render items trail) = map snd items.
  Proof.
    intros items trail A TG TA. unfold tokens, lex. apply (lex_render_from trail TG items None 0 A TA).
  Qed.

  Lemma space_sep_char : sep_char u 32%N = true.
  Proof.
    unfold sep_char. rewrite (ident_start_ascii u 32%N) by reflexivity.
    rewrite (ident_char_ascii u 32%N) by reflexivity. reflexivity.
  Qed.

  Lemma spaced_admissible : forall r t, Forall (printable u) r ->
    admissible u (Some t) (map (fun t' => ([32%N], t')) r).
  Proof.
    induction r as [|t' r IH]; intros t F; [exact Logic.I|].
    inversion F as [|x l P F']; subst. cbn [map admissible].
    split; [apply sg_ws; [exact space_sep_char|constructor]|].
    split; [exact P|]. split; [cbn [sep_admissible]; discriminate|]. apply IH. exact F'.
  Qed.

  (* the simple layout: one space between consecutive tokens *)
  Theorem lex_render_spaces : forall ts, Forall (printable u) ts -> tokens u (render_spaces ts) = ts.
  Proof.
    intros ts F. unfold render_spaces. rewrite lex_render.
    - destruct ts as [|t r]; [reflexivity|]. cbn [space_items map snd]. f_equal.
      rewrite map_map. cbn [snd]. apply map_id.
    - destruct ts as [|t r]; [exact Logic.I|]. inversion F as [|x l P F']; subst.
      cbn [space_items admissible]. split; [constructor|]. split; [exact P|].
      split; [exact Logic.I|]. apply spaced_admissible. exact F'.
    - apply tg_sep. constructor.
    - destruct (last_tok None (space_items ts)); exact Logic.I.
  Qed.
End RenderLex.

(** ** Examples: the hypotheses are satisfiable, and the separators are needed *)

Example ex_render_items : list (text * token) :=
  [ ([], TFix KDeclare); ([32%N], TIdent (str_cps "x")); ([], TFix KAssign);
    ([], TIntLit (str_cps "12")); ([], TFix KSemi); ([9%N; 10%N], TFloatLit (str_cps "3."));
    ([], TFix KDot); ([], TFix KSlash); (32%N :: str_cps "// c/" ++ [10%N], TFix KSlash);
    ([], TStringLit (quote (str_cps "a""b\"))); ([], TFix KIf); ([], TFix KLt); ([32%N], TFix KEq) ].

Example ex_render_text :
  render ex_render_items (str_cps " // end")
  = str_cps "stel x=12;" ++ [9%N; 10%N] ++ str_cps "3../ // c/" ++ [10%N]
    ++ str_cps "/""a\""b\\""als< == // end".
Proof. vm_compute. reflexivity. Qed.

Example ex_render_admissible : admissible u0 None ex_render_items.
Proof.
  unfold ex_render_items. cbn [admissible].
  repeat match goal with
         | |- _ /\ _ => split
         | |- sepgap _ [] => constructor
         | |- sepgap _ [32%N] => apply sg_ws; [reflexivity|constructor]
         | |- sep_admissible _ _ _ => cbn; try reflexivity; try discriminate; try exact Logic.I
         | |- True => exact Logic.I
         end.
  all: try (cbn; repeat split; try reflexivity; discriminate).
  - apply sg_ws; [reflexivity|]. apply sg_ws; [reflexivity|constructor].
  - exists (str_cps "3"), []. repeat split; try reflexivity; discriminate.
  - apply sg_ws; [reflexivity|]. apply (sg_comment u0 (str_cps " c/") []); [reflexivity|constructor].
  - apply quote_raw.
Qed.

Example ex_render_lexes :
  tokens u0 (render ex_render_items (str_cps " // end")) = map snd ex_render_items.
Proof.
  apply lex_render.
  - exact ex_render_admissible.
  - apply (tg_comment u0 [32%N] (str_cps " end")); [apply sg_ws; [reflexivity|constructor]|reflexivity].
  - cbn. discriminate.
Qed.

(* without the separator that needs_sep asks for, the text means something else *)
Example ex_sep_needed_words : needs_sep (TFix KIf) (TIdent (str_cps "of")) = true
  /\ tokens u0 (str_cps "alsof") = [TIdent (str_cps "alsof")].
Proof. split; vm_compute; reflexivity. Qed.
Example ex_sep_needed_int_dot : needs_sep (TIntLit (str_cps "1")) (TFix KDot) = true
  /\ tokens u0 (str_cps "1.") = [TFloatLit (str_cps "1.")].
Proof. split; vm_compute; reflexivity. Qed.
Example ex_sep_needed_assign : needs_sep (TFix KAssign) (TFix KEq) = true
  /\ tokens u0 (str_cps "===") = [TFix KEq; TFix KAssign].
Proof. split; vm_compute; reflexivity. Qed.
Example ex_sep_needed_slash : needs_sep (TFix KSlash) (TFix KSlash) = true
  /\ tokens u0 (str_cps "//") = [].
Proof. split; vm_compute; reflexivity. Qed.
(* ... and where it asks for none, none is needed *)
Example ex_no_sep_int_word : needs_sep (TIntLit (str_cps "1")) (TIdent (str_cps "x")) = false
  /\ tokens u0 (str_cps "1x") = [TIntLit (str_cps "1"); TIdent (str_cps "x")].
Proof. split; vm_compute; reflexivity. Qed.
Example ex_no_sep_float_dot : needs_sep (TFloatLit (str_cps "1.5")) (TFix KDot) = false
  /\ tokens u0 (str_cps "1.5.") = [TFloatLit (str_cps "1.5"); TFix KDot].
Proof. split; vm_compute; reflexivity. Qed.

(** * 5. The lexer's own output is printable; strings at the level of token lists *)

(* decidable reading of `terminated`, by the scan itself *)
Lemma terminated_iff : forall body, terminated body <-> snd (span_string false body) <> [].
Proof.
  intros body. destruct (span_string_cases body) as [(r & rest & Hr & E & S)|(NT & S)]; rewrite S; cbn [snd].
  - split; [discriminate|]. intros _. exists r, rest. split; assumption.
  - split; [intros T; contradiction|congruence].
Qed.

Lemma span_number_shape : forall s d a b d', span_number d s = (a, b, d') ->
  if d then d' = true /\ forallb is_digit a = true
  else if d' then exists ds fs, a = ds ++ 46%N :: fs /\ forallb is_digit ds = true /\ forallb is_digit fs = true
       else forallb is_digit a = true.
Proof.
  induction s as [|c s IH]; intros d a b d' H; cbn [span_number] in H.
  - inversion H; subst. destruct d'; [split|]; reflexivity.
  - destruct (is_digit c) eqn:D.
    + destruct (span_number d s) as [[a0 b0] d0] eqn:E. inversion H; subst. specialize (IH _ _ _ _ E).
      destruct d.
      * destruct IH as [-> IH]. split; [reflexivity|]. cbn [forallb]. rewrite D, IH. reflexivity.
      * destruct d'.
        -- destruct IH as (ds & fs & -> & H1 & H2). exists (c :: ds), fs. split; [reflexivity|].
           split; [cbn [forallb]; rewrite D, H1; reflexivity|exact H2].
        -- cbn [forallb]. rewrite D, IH. reflexivity.
    + destruct (negb d && (c =? 46)%N) eqn:C.
      * apply andb_true_iff in C. destruct C as [C1 C2]. apply negb_true_iff in C1. subst d.
        apply N.eqb_eq in C2. subst c.
        destruct (span_number true s) as [[a0 b0] d0] eqn:E. inversion H; subst. specialize (IH _ _ _ _ E).
        cbn iota in IH. destruct IH as [-> IH]. exists [], a0. split; [reflexivity|]. split; [reflexivity|exact IH].
      * inversion H; subst. destruct d'; [split|]; reflexivity.
Qed.

Section Relex.
  Variable u : unicode.

  Lemma next_token_printable : forall f s pos t rest pos',
    next_token u f s pos = Some (t, rest, pos') -> t = TFix KIllegal \/ printable u t.
  Proof.
    induction f as [|f IH]; intros s pos t rest pos' H; [discriminate|].
    destruct s as [|c r]; [discriminate|]. rewrite next_token_S in H. cbv zeta in H.
    destruct (ident_start u c) eqn:IS.
    { destruct (span (ident_char u) r) as [a rest0] eqn:E. inversion H; subst. right.
      apply span_all in E. destruct E as [E _].
      unfold keyword_or_ident. destruct (assoc_text (c :: a) keywords) as [k|] eqn:K.
      - apply keyword_spelled in K. unfold spelled in K. apply andb_true_iff in K. destruct K as [K _].
        apply legal_iff in K. exact K.
      - cbn [printable]. auto. }
    destruct (is_digit c) eqn:ID.
    { destruct (span_number false r) as [[a rest0] dec] eqn:E. inversion H; subst. right.
      apply span_number_shape in E. cbn iota in E. destruct dec.
      - destruct E as (ds & fs & -> & H1 & H2). cbn [printable]. exists (c :: ds), fs.
        split; [reflexivity|]. split; [discriminate|]. split; [cbn [forallb]; rewrite ID, H1; reflexivity|exact H2].
      - cbn [printable]. split; [discriminate|]. cbn [forallb]. rewrite ID, E. reflexivity. }
    destruct (N.eqb_spec c 34) as [->|N34].
    { destruct (span_string_cases r) as [(r0 & rest0 & Hr & E & S)|(NT & S)]; rewrite S in H.
      - inversion H; subst. right. exact Hr.
      - inversion H; subst. left. reflexivity. }
    destruct (is_ws c). { eapply IH. exact H. }
    destruct (c =? 47)%N.
    { destruct (match r with d :: _ => (d =? 47)%N | [] => false end).
      - destruct (span (fun x => negb (x =? 10)%N) r) as [a rest0]. eapply IH. exact H.
      - inversion H; subst. right. split; discriminate. }
    destruct (find_double c double_tokens) as [[[second t0] els]|] eqn:FD.
    { apply double_entry in FD. unfold double_entry_ok in FD.
      apply andb_true_iff in FD. destruct FD as [FD ELS]. apply andb_true_iff in FD. destruct FD as [SP _].
      unfold spelled in SP. apply andb_true_iff in SP. destruct SP as [SP _]. apply legal_iff in SP.
      assert (LE : match els with Some k => k <> KIllegal /\ k <> KEof | None => True end).
      { destruct els as [k|]; [|exact Logic.I]. apply andb_true_iff in ELS. destruct ELS as [ELS _].
        unfold spelled in ELS. apply andb_true_iff in ELS. destruct ELS as [ELS _]. apply legal_iff. exact ELS. }
      cbv zeta in H.
      destruct (if match r with x :: _ => (x =? second)%N | [] => false end then Some t0 else els) as [k|] eqn:TOK.
      - assert (LK : k <> KIllegal /\ k <> KEof).
        { destruct (match r with x :: _ => (x =? second)%N | [] => false end).
          - inversion TOK; subst. exact SP.
          - subst els. exact LE. }
        destruct (is_two_char k); [destruct r|]; inversion H; subst; right; exact LK.
      - inversion H; subst. left. reflexivity. }
    destruct (assoc N.eqb c single_tokens) as [k|] eqn:SG.
    - inversion H; subst. right. apply single_spelled in SG. unfold spelled in SG.
      apply andb_true_iff in SG. destruct SG as [SG _]. apply legal_iff. exact SG.
    - inversion H; subst. left. reflexivity.
  Qed.

  (* every token the lexer returns is KIllegal or has the shape `printable` describes
     (in particular KEof is never returned, and the raw text of a string literal is a sequence
     of plain characters and escape pairs) *)
  Theorem lex_tokens_printable : forall s,
    Forall (fun t => t = TFix KIllegal \/ printable u t) (tokens u s).
  Proof.
    intros s. unfold tokens, lex. generalize (S (length s)) as fuel, 0 as pos. revert s.
    intros s fuel. revert s. induction fuel as [|fuel IH]; intros s pos; [constructor|].
    cbn [lex_fuel]. destruct (next_token u (S (length s)) s pos) as [[[t rest] pos']|] eqn:E; [|constructor].
    cbn [map fst]. constructor; [eapply next_token_printable; exact E|apply IH].
  Qed.

  (* lexing is idempotent through rendering: an input without illegal tokens and the one-space
     rendering of its tokens have the same tokens *)
  Theorem relex_spaces : forall s, ~ In (TFix KIllegal) (tokens u s) ->
    tokens u (render_spaces (tokens u s)) = tokens u s.
  Proof.
    intros s NI. apply lex_render_spaces. pose proof (lex_tokens_printable s) as F.
    induction F as [|t l [->|P] F IH]; [constructor| |].
    - exfalso. apply NI. left. reflexivity.
    - constructor; [exact P|]. apply IH. intros I. apply NI. right. exact I.
  Qed.

  (* a whole program consisting of one string literal *)
  Theorem string_literal_tokens : forall s,
    exists raw, tokens u (34%N :: quote s ++ [34%N]) = [TStringLit raw] /\ decode_string raw = s.
  Proof.
    intros s. exists (quote s). split; [|apply string_roundtrip].
    pose proof (lex_render_spaces u [TStringLit (quote s)]) as H.
    unfold render_spaces in H. cbn [space_items map render spelling app] in H.
    rewrite app_nil_r in H. apply H. constructor; [apply quote_raw|constructor].
  Qed.
End Relex.

Example ex_unterminated : ~ terminated (str_cps "abc\""").
Proof. rewrite terminated_iff. vm_compute. congruence. Qed.
Example ex_unterminated_lex : tokens u0 (str_cps "x = ""abc\"";") = [TIdent (str_cps "x"); TFix KAssign; TFix KIllegal].
Proof. vm_compute. reflexivity. Qed.
Example ex_terminated : terminated (str_cps "abc\\"" rest").
Proof. rewrite terminated_iff. vm_compute. discriminate. Qed.
Example ex_quote : quote (str_cps "a""b\c") = str_cps "a\""b\\c" /\ quote [10%N; 9%N] = str_cps "\n\t".
Proof. split; vm_compute; reflexivity. Qed.

(** * 6. Coverage in functional form *)

Lemma covers_render : forall pos s l, covers pos s l -> ~ In (TFix KIllegal) (map fst l) ->
  exists items trail, map snd items = map fst l /\ Forall gap (map fst items) /\ gap trail /\
                      s = render items trail.
Proof.
  intros pos s l C. induction C as [pos g G|pos g t rest l G N1 N2 N3 C IH|pos g c rest l G C IH|pos g body G NT];
    intros NI.
  - exists [], g. repeat split; [constructor|exact G].
  - destruct IH as (items & trail & M & F & T & R).
    { intros I. apply NI. right. exact I. }
    exists ((g, t) :: items), trail. cbn [map fst snd render]. rewrite M, R.
    repeat split; [constructor; assumption|exact T].
  - exfalso. apply NI. left. reflexivity.
  - exfalso. apply NI. left. reflexivity.
Qed.

(* an input without illegal tokens IS a rendering of its tokens: white space / comments, then a
   token spelling, ..., then a final gap.  Nothing else is in the text. *)
Theorem lex_covers_render : forall u s, ~ In (TFix KIllegal) (tokens u s) ->
  exists items trail, map snd items = tokens u s /\ Forall gap (map fst items) /\ gap trail /\
                      s = render items trail.
Proof. intros u s NI. apply (covers_render 0 s (lex u s) (lex_covers u s) NI). Qed.

Example ex_covers : covers 0 (str_cps "a &// x") (lex u0 (str_cps "a &// x")).
Proof. apply lex_covers. Qed.
Example ex_covers_tokens : lex u0 (str_cps "a &// x") = [(TIdent (str_cps "a"), 1); (TFix KIllegal, 3)].
Proof. vm_compute. reflexivity. Qed.

Print Assumptions string_roundtrip.
Print Assumptions string_lexes.
Print Assumptions string_literal_denotes.
Print Assumptions string_literal_tokens.
Print Assumptions unterminated_is_illegal.
Print Assumptions fixed_spelling_total.
Print Assumptions lex_covers.
Print Assumptions lex_covers_render.
Print Assumptions two_char_first.
Print Assumptions one_char_otherwise.
Print Assumptions one_char_at_end.
Print Assumptions slash_otherwise.
Print Assumptions keyword_iff.
Print Assumptions non_keyword_is_ident.
Print Assumptions word_lexes.
Print Assumptions int_lexes.
Print Assumptions float_lexes.
Print Assumptions lex_render.
Print Assumptions lex_render_spaces.
Print Assumptions lex_tokens_printable.
Print Assumptions relex_spaces.
