(* SessionRefineD.v - property C17 for sessions whose lines are in fragment F2, part D: Sem.

   - `sem_zeval`: the definitional evaluator Sem.v agrees with the intermediate evaluator of part C
     (SessionRefineC.v), INCLUDING the state a failure leaves behind (CompileCorrectD.sem_xeval
     compares only the error kind): cells and global slots stay related (RelH).
   - `zeval_mono`: more fuel does not change a result of the intermediate evaluator.
   - `ztop`: the top-level statements of a line, evaluated the way SemSession.exec_top does (one
     fuel for every statement, declarations kept), and its two links: `sem_ztop` (with Sem's
     exec_top, environment included) and `ztop_zstmts` (with `zstmts`, which the machine simulates).
   - the exclusion of finding D30 (`init_done`): Sem-side predicate "the line does not fail inside
     the initialiser of one of its top-level declarations". *)
From Coq Require Import ZArith Lia Bool List String.
From NL.Model Require Import VM Session.
From NL.Spec Require Import Sem SemSession Fragment Fragment2 ArithSpec.
From NL.Proofs Require Import WordProofs OpsProofs AstInduction ControlProofs CompileCorrectA CompileCorrectB
  CompileCorrectC CompileCorrectD SessionRefine SessionRefineC.
Open Scope Z_scope.

(** * Cells and slots: forgetting declarations and holes *)

(* the declarations ds2 go out of scope; holes that pointed into them (or beyond) are forgotten *)
Lemma RelH_shrink : forall holes holes' ds ds2 sst m, RelH holes (ds ++ ds2) sst m ->
  (forall i, (i < length ds)%nat -> In i holes -> In i holes') -> RelH holes' ds sst m.
Proof.
  intros holes holes' ds ds2 sst m [R1 R2 R4 R5 R6] Hh. constructor; auto.
  - rewrite map_app in R2. exact (NoDup_prefix _ _ _ R2).
  - intros i y c Hi Hn.
    assert (i < length ds)%nat as Hlt by (apply nth_error_Some; rewrite Hi; discriminate).
    apply (R4 i y c).
    + rewrite nth_error_app1 by exact Hlt. exact Hi.
    + intros Hin. apply Hn. apply Hh; assumption.
  - intros c Hin. apply R5. rewrite map_app. apply in_or_app. left. exact Hin.
Qed.

(** * Sem agrees with the intermediate evaluator, failure states included *)

Section Agree.
  Variable orc : oracle.

  Definition zcorr (holes : list nat) (ds : decls) (sst : sstate) (r : res val) (x : zres val) : Prop :=
    match x, r with
    | ZOk v m', ROk v' sst' => v' = v /\ RelH holes ds sst' m' /\ st_out sst' = st_out sst
    | ZBrk m', RSig SigBreak sst' => RelH holes ds sst' m' /\ st_out sst' = st_out sst
    | ZCnt m', RSig SigContinue sst' => RelH holes ds sst' m' /\ st_out sst' = st_out sst
    | ZErr k m', RErr k' sst' => k' = k /\ RelH holes ds sst' m' /\ st_out sst' = st_out sst
    | ZFault f m', RFault f' sst' => f' = f /\ RelH holes ds sst' m' /\ st_out sst' = st_out sst
    | ZFuel, RFuel => True
    | _, _ => False
    end.

  Lemma zcorr_shift : forall holes ds sst sst1 r x, st_out sst1 = st_out sst ->
    zcorr holes ds sst1 r x -> zcorr holes ds sst r x.
  Proof.
    intros holes ds sst sst1 r x Ho H.
    destruct x as [v m'|m'|m'|k m'|f m'|]; destruct r as [v' s'|[| |rv] s'|k' s'|f' s'|]; cbn [zcorr] in *;
      try contradiction; try exact I; intuition congruence.
  Qed.

  Lemma zcorr_bind : forall holes ds sst r x (k : val -> sstate -> res val) (kx : val -> mst -> zres val),
    zcorr holes ds sst r x ->
    (forall v sst1 m1, RelH holes ds sst1 m1 -> st_out sst1 = st_out sst ->
                       zcorr holes ds sst1 (k v sst1) (kx v m1)) ->
    zcorr holes ds sst (rbind r k) (zbind x kx).
  Proof.
    intros holes ds sst r x k kx H Hk.
    destruct x as [v m'|m'|m'|e m'|f m'|]; destruct r as [v' s'|[| |rv] s'|k' s'|f' s'|]; cbn [zcorr rbind zbind] in *;
      try contradiction; try exact I; try exact H.
    destruct H as [-> [HR Ho]]. apply (zcorr_shift holes ds sst s'); [exact Ho|]. apply Hk; assumption.
  Qed.

  (* declarations that go out of scope, and holes among them *)
  Lemma zcorr_shrink : forall holes holes' ds ds2 sst r x, zcorr holes (ds ++ ds2) sst r x ->
    (forall i, (i < length ds)%nat -> In i holes -> In i holes') -> zcorr holes' ds sst r x.
  Proof.
    intros holes holes' ds ds2 sst r x H Hh.
    destruct x as [v m'|m'|m'|e m'|f m'|]; destruct r as [v' s'|[| |rv] s'|k' s'|f' s'|]; cbn [zcorr] in *;
      try contradiction; try exact I.
    - destruct H as [A [B C]]. split; [exact A|]. split; [exact (RelH_shrink _ _ _ _ _ _ B Hh)|exact C].
    - destruct H as [B C]. split; [exact (RelH_shrink _ _ _ _ _ _ B Hh)|exact C].
    - destruct H as [B C]. split; [exact (RelH_shrink _ _ _ _ _ _ B Hh)|exact C].
    - destruct H as [A [B C]]. split; [exact A|]. split; [exact (RelH_shrink _ _ _ _ _ _ B Hh)|exact C].
    - destruct H as [A [B C]]. split; [exact A|]. split; [exact (RelH_shrink _ _ _ _ _ _ B Hh)|exact C].
  Qed.

  Lemma zcorr_prefix : forall holes ds ds2 sst r x, zcorr holes (ds ++ ds2) sst r x -> zcorr holes ds sst r x.
  Proof. intros holes ds ds2 sst r x H. apply (zcorr_shrink holes holes ds ds2 sst r x H). auto. Qed.

  Lemma zcorr_lift_h : forall holes ds sst m (r : outcome (val * heap)), RelH holes ds sst m ->
    zcorr holes ds sst (lift_heap sst r) (zlift_h m r).
  Proof.
    intros holes ds sst m r HR. destruct r as [[v h']| | |]; cbn [lift_heap zlift_h zcorr fst]; auto.
    split; [reflexivity|]. split; [apply RelH_heap; exact HR|reflexivity].
  Qed.

  Lemma zcorr_lift_p : forall holes ds sst m (r : outcome val), RelH holes ds sst m ->
    zcorr holes ds sst (lift_plain sst r) (zlift_p m r).
  Proof. intros holes ds sst m r HR. destruct r as [v| | |]; cbn [lift_plain zlift_p zcorr]; auto. Qed.

  Theorem sem_zeval : forall fuel,
    (forall lp e c ds sst m holes, f2e lp e = true -> ctx_flat c ds -> RelH holes ds sst m ->
       holes_lt holes ds -> holes_ok holes ds e ->
       zcorr holes ds sst (eval_expr orc fuel c e sst) (zeval orc fuel (map fst ds) e m)) /\
    (forall iter cnd body c ds sst m holes last, f2e false cnd = true -> f2b true body = true ->
       ctx_flat c ds -> RelH holes ds sst m -> holes_lt holes ds ->
       holes_ok holes ds cnd -> holes_ok_b holes ds body ->
       zcorr holes ds sst (eval_while orc fuel iter c cnd body last sst)
                         (zwhile orc fuel (map fst ds) cnd body last m)) /\
    (forall lp l c ds sst m holes last, f2b lp l = true -> ctx_flat c ds -> RelH holes ds sst m ->
       holes_lt holes ds -> holes_ok_b holes ds l ->
       zcorr holes ds sst (exec_block orc fuel c l last sst) (zstmts orc fuel (map fst ds) l last m)).
  Proof.
    induction fuel as [|f [IHe [IHw IHs]]].
    - repeat split; intros; exact I.
    - split; [|split].
      + (* expressions *)
        intros lp e c ds sst m holes HF Hc HR Hlt Hok.
        destruct e as [e1 o e2|o e|z|fl|bb|cnd t alt|s|n ps body|h args|e1 e2|str|vs|bs i|cnd body]; try discriminate HF.
        * (* EInfix *)
          rewrite f2e_infix in HF. apply andb_prop in HF. destruct HF as [HF Hr].
          apply andb_prop in HF. destruct HF as [_ Hl].
          rewrite ee_infix, ze_infix.
          assert (holes_ok holes ds e1) as Hok1.
          { intros h y cc Hin Hn. pose proof (Hok h y cc Hin Hn) as Hm. rewrite mentions_infix in Hm.
            exact (orb_false_l _ _ Hm). }
          assert (holes_ok holes ds e2) as Hok2.
          { intros h y cc Hin Hn. pose proof (Hok h y cc Hin Hn) as Hm. rewrite mentions_infix in Hm.
            exact (orb_false_r' _ _ Hm). }
          apply zcorr_bind; [apply (IHe false); assumption|]. intros a sst1 m1 R1 O1.
          apply zcorr_bind; [apply (IHe false); assumption|]. intros b sst2 m2 R2 O2.
          destruct (Sem.method_of o); [|cbn [zcorr]; auto].
          rewrite (RH_heap _ _ _ _ R2). apply zcorr_lift_h. exact R2.
        * (* EPrefix *)
          rewrite f2e_prefix in HF. apply andb_prop in HF. destruct HF as [Hop Hr].
          rewrite ee_prefix, ze_prefix.
          apply zcorr_bind; [apply (IHe false); assumption|]. intros a sst1 m1 R1 O1.
          destruct o; try discriminate Hop.
          -- rewrite (RH_heap _ _ _ _ R1). apply zcorr_lift_h. exact R1.
          -- apply zcorr_lift_p. exact R1.
          -- rewrite (RH_heap _ _ _ _ R1). apply zcorr_lift_h. exact R1.
        * (* EInt *) rewrite ee_int, ze_int. cbn [zcorr]. auto.
        * (* EBool *) rewrite ee_bool, ze_bool. cbn [zcorr]. auto.
        * (* EIf *)
          rewrite f2e_if in HF. apply andb_prop in HF. destruct HF as [HF Ha].
          apply andb_prop in HF. destruct HF as [Hcn Ht].
          rewrite ee_if, ze_if.
          assert (holes_ok holes ds cnd) as Hok1.
          { intros h y cc Hin Hn. pose proof (Hok h y cc Hin Hn) as Hm. rewrite mentions_if in Hm.
            exact (orb_false_l _ _ (orb_false_l _ _ Hm)). }
          assert (holes_ok_b holes ds t) as Hok2.
          { intros h y cc Hin Hn. pose proof (Hok h y cc Hin Hn) as Hm. rewrite mentions_if in Hm.
            exact (orb_false_r' _ _ (orb_false_l _ _ Hm)). }
          apply zcorr_bind; [apply (IHe false); assumption|]. intros b sst1 m1 R1 O1.
          destruct b as [|[|]| | | | |]; try (cbn [zcorr]; auto; fail).
          -- apply (IHs lp); try assumption.
          -- destruct alt as [bl|]; [|cbn [zcorr]; auto].
             apply (IHs lp); try assumption.
             intros h y cc Hin Hn. pose proof (Hok h y cc Hin Hn) as Hm. rewrite mentions_if in Hm.
             exact (orb_false_r' _ _ Hm).
        * (* EIdent *)
          rewrite ee_ident, ze_ident, (d_lookup_flat _ _ _ Hc).
          pose proof (lookup_agree ds s) as HL.
          destruct (rposition s (map fst ds)) as [i|] eqn:Er.
          -- destruct HL as [y [cc [Hi Hcc]]]. rewrite Hcc. cbn [zcorr].
             split; [|split; [exact HR|reflexivity]].
             apply (RH_val _ _ _ _ HR i y cc Hi).
             apply (lookup_not_hole holes ds s i y cc); [exact Hok|exact Er|exact Hi].
          -- rewrite HL. cbn [zcorr]. auto.
        * (* EAssign *)
          cbn [f2e] in HF. destruct e1; try discriminate HF.
          rewrite ee_assign_ident, ze_assign, (d_lookup_flat _ _ _ Hc).
          pose proof (lookup_agree ds s) as HL.
          destruct (rposition s (map fst ds)) as [i|] eqn:Er.
          -- destruct HL as [y [cc [Hi Hcc]]]. rewrite Hcc.
             assert (holes_ok holes ds e2) as Hok2.
             { intros h y' c' Hin Hn. pose proof (Hok h y' c' Hin Hn) as Hm. rewrite mentions_assign in Hm.
               exact (orb_false_r' _ _ Hm). }
             apply zcorr_bind; [apply (IHe false); assumption|]. intros a sst1 m1 R1 O1.
             cbn [zcorr]. split; [reflexivity|]. split; [|reflexivity].
             apply (RelH_set holes holes ds sst1 m1 i y cc a R1 Hi). intros j Hj. right. exact Hj.
          -- rewrite HL. cbn [zcorr]. auto.
        * (* EWhile *)
          rewrite f2e_while in HF. apply andb_prop in HF. destruct HF as [Hcn Hb].
          rewrite ee_while, ze_while. apply IHw; try assumption.
          -- intros h y cc Hin Hn. pose proof (Hok h y cc Hin Hn) as Hm. rewrite mentions_while in Hm.
             exact (orb_false_l _ _ Hm).
          -- intros h y cc Hin Hn. pose proof (Hok h y cc Hin Hn) as Hm. rewrite mentions_while in Hm.
             exact (orb_false_r' _ _ Hm).
      + (* loops *)
        intros iter cnd body c ds sst m holes last Hcn Hb Hc HR Hlt Hok1 Hok2.
        rewrite ew_step, zw_step.
        apply zcorr_bind; [apply (IHe false); assumption|]. intros b sst1 m1 R1 O1.
        destruct b as [|[|]| | | | |]; try (cbn [zcorr]; auto; fail).
        pose proof (IHs true body (d_push c) ds sst1 m1 holes VNull Hb (ctx_flat_push _ _ Hc) R1 Hlt Hok2) as Hbody.
        destruct (zstmts orc f (map fst ds) body VNull m1) as [v m2|m2|m2|e|y|];
          destruct (exec_block orc f (d_push c) body VNull sst1) as [v' s2|[| |rv] s2|k' s2|f' s2|];
          cbn [zcorr] in Hbody; try contradiction; try exact Hbody.
        * destruct Hbody as [-> [R2 O2]]. apply (zcorr_shift _ _ sst1 s2); [exact O2|].
          apply IHw; assumption.
        * destruct Hbody as [R2 O2]. cbn [zcorr]. auto.
        * destruct Hbody as [R2 O2]. apply (zcorr_shift _ _ sst1 s2); [exact O2|]. apply IHw; assumption.
      + (* statement lists *)
        intros lp l c ds sst m holes last HF Hc HR Hlt Hok. destruct l as [|s r].
        { rewrite eb_nil, zs_nil. cbn [zcorr]. auto. }
        rewrite f2b_cons in HF. apply andb_prop in HF. destruct HF as [Hs Hr].
        assert (holes_ok_b holes ds r) as Hokr.
        { intros h y cc Hin Hn. pose proof (Hok h y cc Hin Hn) as Hm. cbn [mentions_b] in Hm.
          exact (orb_false_r' _ _ Hm). }
        destruct s as [x e|e|e|b| |]; try discriminate Hs.
        * (* SLet *)
          cbn [f2s] in Hs. apply andb_prop in Hs. destruct Hs as [He Hnm]. apply negb_true_iff in Hnm.
          rewrite eb_let, zs_let. unfold new_cell.
          set (cl := st_next sst).
          set (sst1 := mkSt (st_heap sst) (st_cells sst) (Pos.succ cl) (st_funs sst) (st_out sst)).
          set (ds' := ds ++ [(x, cl)]).
          assert (map fst ds ++ [x] = map fst ds') as -> by (unfold ds'; rewrite map_app; reflexivity).
          rewrite map_length.
          pose proof (RelH_declare holes ds sst m x HR) as HR1. fold cl ds' in HR1.
          change (snd (new_cell sst)) with sst1 in HR1.
          pose proof (ctx_flat_declare c ds x cl Hc) as Hc1. fold ds' in Hc1.
          assert (nth_error ds' (length ds) = Some (x, cl)) as Hnth.
          { unfold ds'. rewrite nth_error_app2, Nat.sub_diag by lia. reflexivity. }
          assert (forall h y cc, In h holes -> nth_error ds' h = Some (y, cc) -> nth_error ds h = Some (y, cc)) as Hold.
          { intros h y cc Hin Hn. unfold ds' in Hn. rewrite nth_error_app1 in Hn by (apply Hlt; exact Hin). exact Hn. }
          assert (holes_lt holes ds') as Hlt'.
          { intros h Hin. unfold ds'. rewrite app_length. specialize (Hlt h Hin). lia. }
          assert (holes_lt (length ds :: holes) ds') as Hlt1.
          { intros h [<-|Hin]; [unfold ds'; rewrite app_length; cbn [length]; lia|apply Hlt'; exact Hin]. }
          assert (holes_ok (length ds :: holes) ds' e) as Hoke.
          { intros h y cc [<-|Hin] Hn.
            - rewrite Hnth in Hn. inversion Hn; subst. exact Hnm.
            - pose proof (Hok h y cc Hin (Hold h y cc Hin Hn)) as Hm. cbn [mentions_b mentions_s] in Hm.
              exact (orb_false_l _ _ Hm). }
          pose proof (IHe false e (d_declare c x cl) ds' sst1 m (length ds :: holes) He Hc1 HR1 Hlt1 Hoke) as H1.
          pose proof (proj1 (zeval_nosig orc f) e (map fst ds') m He) as Hns.
          destruct (zeval orc f (map fst ds') e m) as [v m1|m1|m1|k m1|y m1|];
            destruct (eval_expr orc f (d_declare c x cl) e sst1) as [v' s2|[| |rv] s2|k' s2|f' s2|];
            cbn [zcorr znosig] in H1, Hns; try contradiction; cbn [rbind zbind zcorr]; try exact H1;
            (* a failure inside the initialiser: the new variable goes out of scope with its hole *)
            try (destruct H1 as [-> [R2 O2]]; split; [reflexivity|]; split; [|exact O2];
                 apply (RelH_shrink (length ds :: holes) holes ds [(x, cl)] _ _ R2);
                 intros i Hi [E|Hin]; [lia|exact Hin]).
          destruct H1 as [-> [R2 O2]].
          assert (RelH holes ds' (set_cell cl v s2) (set_global_m (length ds) v m1)) as R3.
          { apply (RelH_set (length ds :: holes) holes ds' s2 m1 (length ds) x cl v R2 Hnth).
            intros j Hj. destruct (Nat.eq_dec j (length ds)) as [->|Hne]; [left; reflexivity|right].
            intros [E|Hin]; [apply Hne; symmetry; exact E|contradiction]. }
          assert (holes_ok_b holes ds' r) as Hokr'.
          { intros h y cc Hin Hn. exact (Hokr h y cc Hin (Hold h y cc Hin Hn)). }
          pose proof (IHs lp r (d_declare c x cl) ds' (set_cell cl v s2) (set_global_m (length ds) v m1)
                          holes VNull Hr Hc1 R3 Hlt' Hokr') as H3.
          apply (zcorr_shift holes ds sst (set_cell cl v s2)); [exact O2|].
          apply (zcorr_prefix holes ds [(x, cl)]). exact H3.
        * (* SExpr *)
          cbn [f2s] in Hs. rewrite eb_expr, zs_expr.
          assert (holes_ok holes ds e) as Hoke.
          { intros h y cc Hin Hn. pose proof (Hok h y cc Hin Hn) as Hm. cbn [mentions_b mentions_s] in Hm.
            exact (orb_false_l _ _ Hm). }
          apply zcorr_bind; [apply (IHe lp); assumption|]. intros v sst1 m1 R1 O1.
          assert (match e with
                  | EFunction (ch :: name) _ _ => d_declare c (ch :: name) (Pos.pred (st_next sst1))
                  | _ => c
                  end = c) as ->.
          { destruct e; try discriminate Hs; reflexivity. }
          apply (IHs lp); assumption.
        * (* SBlock *)
          rewrite f2s_block in Hs. rewrite eb_block, zs_block.
          assert (holes_ok_b holes ds b) as Hokb.
          { intros h y cc Hin Hn. pose proof (Hok h y cc Hin Hn) as Hm. cbn [mentions_b] in Hm.
            rewrite mentions_block in Hm. exact (orb_false_l _ _ Hm). }
          apply zcorr_bind; [apply (IHs lp); try assumption|].
          intros v sst1 m1 R1 O1. apply (IHs lp); assumption.
        * rewrite eb_break, zs_break. cbn [zcorr]. auto.
        * rewrite eb_continue, zs_continue. cbn [zcorr]. auto.
  Qed.
End Agree.

(** * More fuel does not change a result of the intermediate evaluator *)

Definition zsame {A} (x x' : zres A) : Prop := x <> ZFuel -> x' = x.

Lemma zsame_refl : forall A (x : zres A), zsame x x.
Proof. intros A x _. reflexivity. Qed.

Lemma zsame_bind : forall A B (x x' : zres A) (k k' : A -> mst -> zres B),
  zsame x x' -> (forall a m, zsame (k a m) (k' a m)) -> zsame (zbind x k) (zbind x' k').
Proof.
  intros A B x x' k k' Hx Hk Hn. destruct x as [a m|m|m|e m|y m|]; cbn [zbind] in Hn |- *;
    try (rewrite Hx by discriminate; reflexivity).
  - rewrite Hx by discriminate. cbn [zbind]. apply Hk. exact Hn.
  - exfalso. apply Hn. reflexivity.
Qed.

Theorem zeval_mono : forall orc n,
  (forall n' names e m, (n <= n')%nat -> zsame (zeval orc n names e m) (zeval orc n' names e m)) /\
  (forall n' names c body last m, (n <= n')%nat ->
     zsame (zwhile orc n names c body last m) (zwhile orc n' names c body last m)) /\
  (forall n' names l last m, (n <= n')%nat -> zsame (zstmts orc n names l last m) (zstmts orc n' names l last m)).
Proof.
  intros orc n. induction n as [|g [IHe [IHw IHs]]].
  - repeat split; intros; intros Hz; exfalso; apply Hz; reflexivity.
  - split; [|split].
    + intros n' names e m Hle. destruct n' as [|g']; [lia|]. assert (g <= g')%nat as Hg by lia.
      destruct e as [e1 o e2|o e|z|fl|bb|cnd t alt|s|nm ps body|h args|e1 e2|str|vs|bs i|cnd body];
        try apply zsame_refl.
      * rewrite !ze_infix. apply zsame_bind; [apply IHe; exact Hg|]. intros a m1.
        apply zsame_bind; [apply IHe; exact Hg|]. intros b m2. apply zsame_refl.
      * rewrite !ze_prefix. apply zsame_bind; [apply IHe; exact Hg|]. intros a m1. apply zsame_refl.
      * rewrite !ze_if. apply zsame_bind; [apply IHe; exact Hg|]. intros b m1.
        destruct b as [|[|]| | | | |]; try apply zsame_refl; [apply IHs; exact Hg|].
        destruct alt; [apply IHs; exact Hg|apply zsame_refl].
      * destruct e1; try apply zsame_refl. rewrite !ze_assign. destruct (rposition s names); [|apply zsame_refl].
        apply zsame_bind; [apply IHe; exact Hg|]. intros a m1. apply zsame_refl.
      * rewrite !ze_while. apply IHw; exact Hg.
    + intros n' names c body last m Hle. destruct n' as [|g']; [lia|]. assert (g <= g')%nat as Hg by lia.
      rewrite !zw_step. apply zsame_bind; [apply IHe; exact Hg|]. intros b m1.
      destruct b as [|[|]| | | | |]; try apply zsame_refl.
      intros Hn. pose proof (IHs g' names body VNull m1 Hg) as Hb. unfold zsame in Hb.
      destruct (zstmts orc g names body VNull m1) as [v m2|m2|m2|e m2|y m2|] eqn:Eb;
        try (rewrite Hb by discriminate; reflexivity).
      * rewrite Hb by discriminate. apply IHw; [exact Hg|exact Hn].
      * rewrite Hb by discriminate. apply IHw; [exact Hg|exact Hn].
      * exfalso. apply Hn. reflexivity.
    + intros n' names l last m Hle. destruct n' as [|g']; [lia|]. assert (g <= g')%nat as Hg by lia.
      destruct l as [|s r]; [apply zsame_refl|].
      destruct s as [x e|e|e|b| |]; try apply zsame_refl.
      * rewrite !zs_let. apply zsame_bind; [apply IHe; exact Hg|]. intros a m1. apply IHs; exact Hg.
      * rewrite !zs_expr. apply zsame_bind; [apply IHe; exact Hg|]. intros a m1. apply IHs; exact Hg.
      * rewrite !zs_block. apply zsame_bind; [apply IHs; exact Hg|]. intros a m1. apply IHs; exact Hg.
Qed.

(** * The top-level statements of a line *)

Section Top.
  Variable orc : oracle.

  (* as SemSession.exec_top: the same fuel for every statement, declarations stay (the names after the
     list are names ++ decl_names l) *)
  Fixpoint ztop (fuel : nat) (names : list text) (l : list stmt) (last : val) (m : mst) : zres val :=
    match l with
    | [] => ZOk last m
    | s :: r =>
        match s with
        | SLet x e =>
            zbind (zeval orc fuel (names ++ [x]) e m) (fun v m1 =>
              ztop fuel (names ++ [x]) r VNull (set_global_m (length names) v m1))
        | SExpr e => zbind (zeval orc fuel names e m) (fun v m1 => ztop fuel names r v m1)
        | SBlock b => zbind (zstmts orc fuel names b VNull m) (fun v m1 => ztop fuel names r v m1)
        | _ => ZErr ESyntaxError m
        end
    end.

  (* the link with zstmts (which spends one unit of fuel per statement) *)
  Lemma ztop_zstmts : forall l, f2b false l = true -> forall fuel f names last m,
    (fuel + length l + 1 <= f)%nat -> zsame (ztop fuel names l last m) (zstmts orc f names l last m).
  Proof.
    intros l. induction l as [|s r IH]; intros HF fuel f names last m Hf; (destruct f as [|g]; [lia|]).
    - apply zsame_refl.
    - rewrite f2b_cons in HF. apply andb_prop in HF. destruct HF as [Hs Hr]. cbn [length] in Hf.
      destruct s as [x e|e|e|b| |]; try discriminate Hs; cbn [ztop].
      + rewrite zs_let. apply zsame_bind; [apply (proj1 (zeval_mono orc fuel)); lia|].
        intros a m1. apply (IH Hr); lia.
      + rewrite zs_expr. apply zsame_bind; [apply (proj1 (zeval_mono orc fuel)); lia|].
        intros a m1. apply (IH Hr); lia.
      + rewrite zs_block. apply zsame_bind; [apply (proj2 (proj2 (zeval_mono orc fuel))); lia|].
        intros a m1. apply (IH Hr); lia.
  Qed.

  (** ** The exclusion of finding D30 (class stale_slot_after_failed_initialiser) *)

  (* true iff the line stops (fails, or runs out of fuel) inside the initialiser of one of its top-level
     declarations.  Such a declaration stays visible on both sides; Sem's fresh cell is unset (null), the
     machine's slot may be the reused slot of a dead block-local variable and still hold its value. *)
  Fixpoint init_fail (fuel : nat) (c : dctx) (b : list stmt) (st : sstate) : bool :=
    match b with
    | [] => false
    | s :: r =>
        match s with
        | SLet x e =>
            let '(cl, st1) := new_cell st in
            let c' := d_declare c x cl in
            match eval_expr orc fuel c' e st1 with
            | ROk v st2 => init_fail fuel c' r (set_cell cl v st2)
            | _ => true
            end
        | SExpr e =>
            match eval_expr orc fuel c e st with
            | ROk v st1 =>
                let c' := match e with
                          | EFunction (ch :: name) _ _ => d_declare c (ch :: name) (Pos.pred (st_next st1))
                          | _ => c
                          end in
                init_fail fuel c' r st1
            | _ => false
            end
        | SBlock b' =>
            match exec_block orc fuel (d_push c) b' VNull st with
            | ROk v st1 => init_fail fuel c r st1
            | _ => false
            end
        | _ => false
        end
    end.

  Definition init_done (fuel : nat) (sem : sem_session) (ast : block) : Prop :=
    init_fail fuel (sm_dyn sem) ast (clear_out (sm_state sem)) = false.

  (** ** Sem's exec_top and ztop *)

  Lemma et_block : forall fuel c b r last st,
    exec_top orc fuel c (SBlock b :: r) last st =
    match exec_block orc fuel (d_push c) b VNull st with
    | ROk v st1 => exec_top orc fuel c r v st1
    | other => (c, other)
    end.
  Proof. reflexivity. Qed.

  Lemma ctx_flat_top : forall ds : decls, ctx_flat (mkD [rev ds] None) ds.
  Proof. intros ds. split; [reflexivity|]. cbn [d_local concat]. apply app_nil_r. Qed.

  Definition agree_top2 (ds : decls) (l : list stmt) (sst : sstate) (hole : bool)
      (cr : dctx * res val) (z : zres val) : Prop :=
    snd cr = RFuel \/
    exists ds', fst cr = mkD [rev ds'] None /\ (exists ds2, ds' = ds ++ ds2) /\
    match z with
    | ZOk v m' =>
        exists sst', snd cr = ROk v sst' /\ RelH [] ds' sst' m' /\ st_out sst' = st_out sst /\
                     map fst ds' = map fst ds ++ decl_names l
    | ZErr k mf => exists sst', snd cr = RErr k sst' /\ st_out sst' = st_out sst /\
                                (hole = false -> RelH [] ds' sst' mf)
    | ZFault f mf => exists sst', snd cr = RFault f sst' /\ st_out sst' = st_out sst /\
                                  (hole = false -> RelH [] ds' sst' mf)
    | _ => False
    end.

  Lemma no_holes_lt : forall ds : decls, holes_lt [] ds.
  Proof. intros ds h []. Qed.
  Lemma no_holes_ok : forall (ds : decls) e, holes_ok [] ds e.
  Proof. intros ds e h y c []. Qed.
  Lemma no_holes_ok_b : forall (ds : decls) l, holes_ok_b [] ds l.
  Proof. intros ds l h y c []. Qed.

  Lemma sem_ztop : forall l, f2b false l = true ->
    forall fuel ds sst m last, RelH [] ds sst m ->
    agree_top2 ds l sst (init_fail fuel (mkD [rev ds] None) l sst)
               (exec_top orc fuel (mkD [rev ds] None) l last sst)
               (ztop fuel (map fst ds) l last m).
  Proof.
    intros l. induction l as [|s0 l IH]; intros HF fuel ds sst m last HR.
    - rewrite et_nil. cbn [ztop init_fail]. right. exists ds. split; [reflexivity|].
      split; [exists []; rewrite app_nil_r; reflexivity|].
      exists sst. cbn [snd decl_names]. rewrite app_nil_r. auto.
    - rewrite f2b_cons in HF. apply andb_prop in HF. destruct HF as [Hs Hr].
      destruct s0 as [x e|e|e|b| |]; try discriminate Hs.
      + (* SLet *)
        cbn [f2s] in Hs. apply andb_prop in Hs. destruct Hs as [He Hnm]. apply negb_true_iff in Hnm.
        rewrite et_let. cbn [ztop init_fail]. unfold new_cell, d_declare. cbn [d_local d_global].
        set (cl := st_next sst).
        set (sst1 := mkSt (st_heap sst) (st_cells sst) (Pos.succ cl) (st_funs sst) (st_out sst)).
        rewrite <- (rev_unit ds (x, cl)). set (ds' := ds ++ [(x, cl)]).
        assert (map fst ds ++ [x] = map fst ds') as Emap by (unfold ds'; rewrite map_app; reflexivity).
        rewrite Emap, map_length.
        pose proof (RelH_declare [] ds sst m x HR) as HR1. fold cl ds' in HR1.
        change (snd (new_cell sst)) with sst1 in HR1.
        assert (nth_error ds' (length ds) = Some (x, cl)) as Hnth.
        { unfold ds'. rewrite nth_error_app2, Nat.sub_diag by lia. reflexivity. }
        assert (holes_lt [length ds] ds') as Hlt1.
        { intros h [<-|[]]. unfold ds'. rewrite app_length. cbn [length]. lia. }
        assert (holes_ok [length ds] ds' e) as Hoke.
        { intros h y cc [<-|[]] Hn. rewrite Hnth in Hn. inversion Hn; subst. exact Hnm. }
        pose proof (proj1 (sem_zeval orc fuel) false e (mkD [rev ds'] None) ds' sst1 m [length ds] He
                      (ctx_flat_top ds') HR1 Hlt1 Hoke) as H1.
        pose proof (proj1 (zeval_nosig orc fuel) e (map fst ds') m He) as Hns.
        destruct (zeval orc fuel (map fst ds') e m) as [v m1|m1|m1|k m1|y m1|];
          destruct (eval_expr orc fuel (mkD [rev ds'] None) e sst1) as [v' s2|[| |rv] s2|k' s2|f' s2|];
          cbn [zcorr znosig] in H1, Hns; try contradiction; cbn [zbind];
          try (left; reflexivity).
        * destruct H1 as [-> [R2 O2]].
          assert (RelH [] ds' (set_cell cl v s2) (set_global_m (length ds) v m1)) as R3.
          { apply (RelH_set [length ds] [] ds' s2 m1 (length ds) x cl v R2 Hnth).
            intros j Hj. destruct (Nat.eq_dec j (length ds)) as [->|Hne]; [left; reflexivity|right].
            intros [E|[]]. apply Hne. symmetry. exact E. }
          destruct (IH Hr fuel ds' (set_cell cl v s2) (set_global_m (length ds) v m1) VNull R3)
            as [E|[ds3 [Ec [[ds2 Eds] H3]]]]; [left; exact E|].
          right. exists ds3. split; [exact Ec|]. split.
          { exists ((x, cl) :: ds2). rewrite Eds. unfold ds'. rewrite <- app_assoc. reflexivity. }
          assert (st_out (set_cell cl v s2) = st_out sst) as Oset by (cbn [set_cell st_out]; exact O2).
          destruct (ztop fuel (map fst ds') l VNull (set_global_m (length ds) v m1)) as [v3 m3|m3|m3|k3 m3|y3 m3|];
            try contradiction.
          -- destruct H3 as [s3 [E3 [R [O Nm]]]]. exists s3. split; [exact E3|]. split; [exact R|].
             split; [congruence|]. rewrite Nm, <- Emap. cbn [decl_names]. rewrite <- app_assoc. reflexivity.
          -- destruct H3 as [s3 [E3 [O R]]]. exists s3. split; [exact E3|]. split; [congruence|exact R].
          -- destruct H3 as [s3 [E3 [O R]]]. exists s3. split; [exact E3|]. split; [congruence|exact R].
        * destruct H1 as [-> [R2 O2]]. right. exists ds'. split; [reflexivity|]. split; [exists [(x, cl)]; reflexivity|].
          exists s2. split; [reflexivity|]. split; [exact O2|]. intros N. discriminate N.
        * destruct H1 as [-> [R2 O2]]. right. exists ds'. split; [reflexivity|]. split; [exists [(x, cl)]; reflexivity|].
          exists s2. split; [reflexivity|]. split; [exact O2|]. intros N. discriminate N.
      + (* SExpr *)
        cbn [f2s] in Hs. rewrite et_expr. cbn [ztop init_fail].
        pose proof (proj1 (sem_zeval orc fuel) false e (mkD [rev ds] None) ds sst m [] Hs
                      (ctx_flat_top ds) HR (no_holes_lt ds) (no_holes_ok ds e)) as H1.
        pose proof (proj1 (zeval_nosig orc fuel) e (map fst ds) m Hs) as Hns.
        assert (forall st1, match e with
                | EFunction (ch :: name) _ _ => d_declare (mkD [rev ds] None) (ch :: name) (Pos.pred (st_next st1))
                | _ => mkD [rev ds] None
                end = mkD [rev ds] None) as Ectx.
        { intros st1. destruct e; try discriminate Hs; reflexivity. }
        destruct (zeval orc fuel (map fst ds) e m) as [v m1|m1|m1|k m1|y m1|];
          destruct (eval_expr orc fuel (mkD [rev ds] None) e sst) as [v' s2|[| |rv] s2|k' s2|f' s2|];
          cbn [zcorr znosig] in H1, Hns; try contradiction; cbn [zbind];
          try (left; reflexivity).
        * destruct H1 as [-> [R2 O2]]. cbv zeta. rewrite Ectx.
          destruct (IH Hr fuel ds s2 m1 v R2) as [E|[ds3 [Ec [[ds2 Eds] H3]]]]; [left; exact E|].
          right. exists ds3. split; [exact Ec|]. split; [exists ds2; exact Eds|].
          destruct (ztop fuel (map fst ds) l v m1) as [v3 m3|m3|m3|k3 m3|y3 m3|]; try contradiction.
          -- destruct H3 as [s3 [E3 [R [O Nm]]]]. exists s3. split; [exact E3|]. split; [exact R|].
             split; [congruence|exact Nm].
          -- destruct H3 as [s3 [E3 [O R]]]. exists s3. split; [exact E3|]. split; [congruence|exact R].
          -- destruct H3 as [s3 [E3 [O R]]]. exists s3. split; [exact E3|]. split; [congruence|exact R].
        * destruct H1 as [-> [R2 O2]]. right. exists ds. split; [reflexivity|].
          split; [exists []; rewrite app_nil_r; reflexivity|].
          exists s2. split; [reflexivity|]. split; [exact O2|]. intros _. exact R2.
        * destruct H1 as [-> [R2 O2]]. right. exists ds. split; [reflexivity|].
          split; [exists []; rewrite app_nil_r; reflexivity|].
          exists s2. split; [reflexivity|]. split; [exact O2|]. intros _. exact R2.
      + (* SBlock *)
        rewrite f2s_block in Hs. rewrite et_block. cbn [ztop init_fail].
        pose proof (proj2 (proj2 (sem_zeval orc fuel)) false b (d_push (mkD [rev ds] None)) ds sst m [] VNull Hs
                      (ctx_flat_push _ _ (ctx_flat_top ds)) HR (no_holes_lt ds) (no_holes_ok_b ds b)) as H1.
        pose proof (proj2 (proj2 (zeval_nosig orc fuel)) b (map fst ds) VNull m Hs) as Hns.
        destruct (zstmts orc fuel (map fst ds) b VNull m) as [v m1|m1|m1|k m1|y m1|];
          destruct (exec_block orc fuel (d_push (mkD [rev ds] None)) b VNull sst) as [v' s2|[| |rv] s2|k' s2|f' s2|];
          cbn [zcorr znosig] in H1, Hns; try contradiction; cbn [zbind];
          try (left; reflexivity).
        * destruct H1 as [-> [R2 O2]].
          destruct (IH Hr fuel ds s2 m1 v R2) as [E|[ds3 [Ec [[ds2 Eds] H3]]]]; [left; exact E|].
          right. exists ds3. split; [exact Ec|]. split; [exists ds2; exact Eds|].
          destruct (ztop fuel (map fst ds) l v m1) as [v3 m3|m3|m3|k3 m3|y3 m3|]; try contradiction.
          -- destruct H3 as [s3 [E3 [R [O Nm]]]]. exists s3. split; [exact E3|]. split; [exact R|].
             split; [congruence|exact Nm].
          -- destruct H3 as [s3 [E3 [O R]]]. exists s3. split; [exact E3|]. split; [congruence|exact R].
          -- destruct H3 as [s3 [E3 [O R]]]. exists s3. split; [exact E3|]. split; [congruence|exact R].
        * destruct H1 as [-> [R2 O2]]. right. exists ds. split; [reflexivity|].
          split; [exists []; rewrite app_nil_r; reflexivity|].
          exists s2. split; [reflexivity|]. split; [exact O2|]. intros _. exact R2.
        * destruct H1 as [-> [R2 O2]]. right. exists ds. split; [reflexivity|].
          split; [exists []; rewrite app_nil_r; reflexivity|].
          exists s2. split; [reflexivity|]. split; [exact O2|]. intros _. exact R2.
  Qed.
End Top.

Print Assumptions sem_zeval.
Print Assumptions zeval_mono.
Print Assumptions ztop_zstmts.
Print Assumptions sem_ztop.
