(* CompileCorrectJ8.v - compiler correctness for the fragment F4, part J8: what the compiler does to
   the constant pool, and the static pass.

   - `compile_pool_facts4`: every heap literal of the program (also those inside function bodies) is
     found in the pool, and every float of the pool is a literal of the program (CompileCorrectH5
     proves this for F2h together with the static pass; here it is a traversal of its own, with
     function literals, calls, antwoord);
   - `lits_good4`: hence, under `lits_exact`, the constant found for a literal at run time is that
     literal (the pool merges IEEE-equal floats);
   - `static_accepts_F4`: Sem.static_check accepts what the compiler accepts (through
     CompilerNames.accepted_scoped, as for F3). *)
From Coq Require Import ZArith Lia Bool List String.
From NL.Model Require Import VM.
From NL.Spec Require Import Sem Fragment Fragment2 Fragment2h Fragment3 Fragment4 ArithSpec.
From NL.Spec Require ScopeSpec.
From NL.Proofs Require VMStepProofs CompilerNames SymbolsProofs PoolProofs CompileCorrectH4 CompileCorrectH5.
From NL.Proofs Require Import WordProofs OpsProofs AstInduction ControlProofs VMGCLedger
  CompileCorrectA CompileCorrectB CompileCorrectC CompileCorrectD CompileCorrectH1
  CompileCorrectJ1 CompileCorrectJ2 CompileCorrectJ3 CompileCorrectJ4 CompileCorrectJ5.
Open Scope Z_scope.

Notation wfacts := CompileCorrectH5.wfacts.
Notation wfacts_same := CompileCorrectH5.wfacts_same.
Notation wfacts_trans := CompileCorrectH5.wfacts_trans.
Notation wfacts_post := CompileCorrectH5.wfacts_post.
Notation wfacts_pre := CompileCorrectH5.wfacts_pre.
Notation wfacts_kints := CompileCorrectH5.wfacts_kints.

Ltac bok H a Ha := apply bind_ok in H; destruct H as [a [Ha H]].

(** * The pool along the compilation *)

(* the fused instruction registers its integer literal *)
Lemma cvi_consts : forall name v op st st1 done, compile_const_var_infix name v op st = (st1, done) ->
  exists kx, c_constants st1 = c_constants st ++ kx /\ Forall is_kint kx.
Proof.
  intros name v op st st1 done H. unfold compile_const_var_infix in H.
  destruct (add_constant (KInt v) st) as [st0 r] eqn:E.
  destruct (add_constant_kint v st st0 r E) as [_ [_ [kx [Hk [Hf _]]]]]. exists kx. split; [|exact Hf]. rewrite <- Hk.
  destruct r; try (inversion H; reflexivity).
  destruct (resolve (c_symbols st0) name) as [s|]; [|inversion H; reflexivity].
  destruct (s_scope s); [|inversion H; reflexivity].
  destruct (assoc operator_eqb op fused_table); [|inversion H; reflexivity].
  destruct (operand 16 (Z.of_nat (s_index s))); inversion H; reflexivity.
Qed.

(* a function constant: no float is added *)
Lemma wfacts_kfun : forall ip n st st1 r, add_constant (KFun ip n) st = (st1, r) -> wfacts [] st st1.
Proof.
  intros ip n st st1 r H. unfold add_constant in H.
  destruct (const_position (KFun ip n) (c_constants st)); inversion H; subst; clear H.
  - apply wfacts_same. reflexivity.
  - split; [exists [KFun ip n]; reflexivity|]. split; [apply CompileCorrectH5.pres_nil|].
    intros f Hin. left. cbn [c_constants] in Hin. apply in_app_or in Hin. destruct Hin as [Hin|[Hin|[]]]; [exact Hin|discriminate Hin].
Qed.

Definition WE (e : expr) : Prop := forall lp fa fn st st', f4s lp fa fn (SExpr e) = true ->
  compile_expression e st = Ok st' -> wfacts (lits_e e) st st'.
Definition WS (s : stmt) : Prop := forall lp fa fn st st', f4s lp fa fn s = true ->
  compile_statement s st = Ok st' -> wfacts (lits_s s) st st'.

Lemma WE_e : forall e, WE e -> forall lp fa fn st st', f4e lp fa fn e = true ->
  compile_expression e st = Ok st' -> wfacts (lits_e e) st st'.
Proof. intros e H lp fa fn st st' HF Hc. exact (H lp fa fn st st' (f4e_f4s _ _ _ _ HF) Hc). Qed.

Lemma WL_of : forall l, Forall WS l -> forall lp fa fn st st', f4b lp fa fn l = true ->
  compile_statements l st = Ok st' -> wfacts (lits_b l) st st'.
Proof.
  intros l H. induction H as [|s r Hs Hr IH]; intros lp fa fn st st' HF Hc.
  - cbn [compile_statements] in Hc. inversion Hc; subst. apply wfacts_same. reflexivity.
  - rewrite f4b_cons in HF. apply andb_prop in HF. destruct HF as [A B].
    cbn [compile_statements] in Hc. bok Hc st1 H1. rewrite CompileCorrectH4.lits_b_cons.
    exact (wfacts_trans _ _ _ _ _ (Hs lp fa fn st st1 A H1) (IH lp fa fn st1 st' B Hc)).
Qed.

Lemma WA_of : forall l, Forall WE l -> forall fa fn st st', f4es fa fn l = true ->
  CompilerNames.compile_exprs l st = Ok st' -> wfacts (lits_l l) st st'.
Proof.
  intros l H. induction H as [|x r Hx Hr IH]; intros fa fn st st' HF Hc.
  - cbn [CompilerNames.compile_exprs] in Hc. inversion Hc; subst. apply wfacts_same. reflexivity.
  - rewrite f4es_cons in HF. apply andb_prop in HF. destruct HF as [A B].
    cbn [CompilerNames.compile_exprs] in Hc. bok Hc st1 H1. rewrite CompileCorrectH4.lits_l_cons.
    exact (wfacts_trans _ _ _ _ _ (WE_e x Hx false fa fn st st1 A H1) (IH fa fn st1 st' B Hc)).
Qed.

(* a block as a statement / in value position *)
Lemma WBS_of : forall b, Forall WS b -> forall lp fa fn st st', f4b lp fa fn b = true ->
  c_block_statement b st = Ok st' -> wfacts (lits_b b) st st'.
Proof.
  intros b H lp fa fn st st' HF Hc. unfold c_block_statement in Hc. destruct b as [|s r]; cbn [is_nil] in Hc.
  - inversion Hc; subst. apply wfacts_same. reflexivity.
  - bok Hc st1 H1. inversion Hc; subst st'.
    apply (wfacts_post _ _ st1); [|reflexivity].
    apply (wfacts_pre _ st (set_symbols st (enter_scope (c_symbols st)))); [reflexivity|].
    exact (WL_of _ H lp fa fn _ _ HF H1).
Qed.

Lemma WBV_of : forall b, Forall WS b -> forall lp fa fn st st', f4b lp fa fn b = true ->
  c_block_value b st = Ok st' -> wfacts (lits_b b) st st'.
Proof.
  intros b H lp fa fn st st' HF Hc.
  destruct (CompileCorrectH5.bv_inv_h b st st' Hc) as [[-> Hk]|[st1 [H1 Hk]]].
  - apply wfacts_same. exact Hk.
  - apply (wfacts_post _ _ st1); [|exact Hk].
    apply (wfacts_pre _ st (set_symbols st (enter_scope (c_symbols st)))); [reflexivity|].
    exact (WL_of _ H lp fa fn _ _ HF H1).
Qed.

Lemma w_all : (forall e, WE e) /\ (forall s, WS s).
Proof.
  apply expr_stmt_ind.
  - (* EInfix *)
    intros l o r IHl IHr lp fa fn st st' HF Hc. rewrite f4s_expr_other in HF by (intros; discriminate).
    rewrite f4e_infix in HF. apply andb_prop in HF. destruct HF as [HF Hr]. apply andb_prop in HF.
    destruct HF as [Hop Hl]. rewrite ce_infix in Hc. rewrite CompileCorrectH4.lits_infix.
    assert (forall st0, wfacts [] st st0 -> generic_infix l o r st0 = Ok st' -> wfacts (lits_e l ++ lits_e r) st st') as Hgen.
    { intros st0 W0 Hg. unfold generic_infix in Hg. bok Hg st1 H1. bok Hg st2 H2.
      destruct (assoc operator_eqb o compile_operator_table) as [opc|]; [|discriminate Hg]. inversion Hg; subst st'.
      apply (wfacts_post _ _ st2); [|reflexivity].
      exact (wfacts_trans [] _ _ _ _ W0 (wfacts_trans _ _ _ _ _ (WE_e l IHl false fa fn _ _ Hl H1) (WE_e r IHr false fa fn _ _ Hr H2))). }
    destruct (fused_candidate l r o) as [[[name v] op']|] eqn:Ef; [|apply (Hgen st); [apply wfacts_same; reflexivity|exact Hc]].
    destruct (compile_const_var_infix name v op' st) as [st1 done] eqn:Ec.
    destruct (cvi_consts _ _ _ _ _ _ Ec) as [kx [Hk Hf]].
    destruct done; [|exact (Hgen st1 (wfacts_kints _ _ _ Hk Hf) Hc)].
    inversion Hc; subst st'.
    destruct (PoolProofs.fused_selection_sound _ _ _ _ _ _ Ef) as [(-> & -> & _)|(-> & -> & _)];
      cbn [lits_e app]; exact (wfacts_kints _ _ _ Hk Hf).
  - (* EPrefix *)
    intros o r IHr lp fa fn st st' HF Hc. rewrite f4s_expr_other in HF by (intros; discriminate).
    rewrite f4e_prefix in HF. apply andb_prop in HF. destruct HF as [_ Hr].
    rewrite ce_prefix in Hc. bok Hc st1 H1. rewrite CompileCorrectH4.lits_prefix.
    apply (wfacts_post _ _ st1 _ (WE_e r IHr false fa fn _ _ Hr H1)). destruct o; inversion Hc; reflexivity.
  - (* EInt *)
    intros z lp fa fn st st' _ Hc. rewrite ce_int in Hc.
    destruct (emit_const_kint z st st' Hc) as [_ [idx [kx [_ [Hk [Hf _]]]]]]. exact (wfacts_kints _ _ _ Hk Hf).
  - (* EFloat *)
    intros x lp fa fn st st' HF Hc. rewrite f4s_expr_other in HF by (intros; discriminate).
    rewrite ce_float in Hc.
    exact (CompileCorrectH5.wfacts_emit_const (KFloat x) (count_alloc st) st st' eq_refl HF Hc).
  - (* EBool *)
    intros b lp fa fn st st' _ Hc. rewrite ce_bool in Hc. inversion Hc; subst. apply wfacts_same. reflexivity.
  - (* EIf *)
    intros c t alt IHc IHt IHa lp fa fn st st' HF Hc. rewrite f4s_expr_other in HF by (intros; discriminate).
    rewrite f4e_if in HF. apply andb_prop in HF. destruct HF as [HF Hfa]. apply andb_prop in HF. destruct HF as [Hfc Hft].
    rewrite ce_if in Hc. cbv zeta in Hc.
    bok Hc st1 H1. bok Hc st3 H3. bok Hc t1 Ht1. bok Hc st5 H5. bok Hc st6 H6. bok Hc t2 Ht2.
    rewrite CompileCorrectH4.lits_if.
    pose proof (WE_e c IHc false fa fn _ _ Hfc H1) as W1.
    pose proof (WBV_of t IHt lp fn fn _ _ Hft H3) as W3.
    apply (wfacts_post _ _ st6); [|exact (proj1 (CompileCorrectH5.change_jump_consts _ _ _ _ Hc))].
    apply (wfacts_trans _ _ _ st1 _ W1).
    apply (wfacts_trans _ _ _ st5 _).
    + apply (wfacts_post _ _ st3); [|rewrite (proj1 (CompileCorrectH5.change_jump_consts _ _ _ _ H5)); reflexivity].
      apply (wfacts_pre _ st1 (emit_u16 JUMP_PLACEHOLDER (emit_opcode OJumpIfFalse st1))); [reflexivity|exact W3].
    + destruct alt as [bl|].
      * exact (WBV_of bl IHa lp fn fn _ _ Hfa H6).
      * inversion H6; subst. apply wfacts_same. reflexivity.
  - (* EIdent *)
    intros x lp fa fn st st' _ Hc. rewrite ce_ident in Hc. destruct (resolve (c_symbols st) x); [|discriminate Hc].
    apply wfacts_same. exact (proj1 (proj2 (emit_sym_spec _ _ _ _ Hc))).
  - (* EFunction *)
    intros n ps body IHb lp fa fn st st' HF Hc.
    assert (f4b false true true body = true) as HFb.
    { destruct n as [|c0 nm].
      - rewrite f4s_expr_other in HF by (intros; discriminate). rewrite f4e_function in HF.
        apply andb_prop in HF. exact (proj2 HF).
      - rewrite f4s_expr_named in HF. apply andb_prop in HF. exact (proj2 HF). }
    rewrite ce_function3 in Hc. destruct (fun_st1 n st) as [st1 sym] eqn:E1.
    assert (c_constants st1 = c_constants st) as K1.
    { unfold fun_st1 in E1. destruct (is_nil n); [inversion E1; reflexivity|].
      destruct (define (c_symbols st) n) as [t s]. inversion E1; reflexivity. }
    unfold fun_tail in Hc. cbv zeta in Hc. bok Hc st4 H4.
    pose proof (WBS_of body IHb false true true _ _ HFb H4) as W4.
    bok Hc target Ht. bok Hc st7 H7.
    destruct (leave_context (c_symbols st7)) as [t8 num_locals].
    bok Hc ip Hip. bok Hc nl Hnl.
    destruct (add_constant (KFun ip nl) (set_symbols st7 t8)) as [st9 r] eqn:E9.
    pose proof (wfacts_kfun _ _ _ _ _ E9) as W9.
    bok Hc idx Hidx.
    assert (wfacts (lits_b body) st st9) as W.
    { apply (wfacts_pre _ st st1 _ K1).
      pose proof (wfacts_trans _ [] _ _ st9 (wfacts_post _ _ st4 (set_symbols st7 t8) W4 ltac:(
        cbn [set_symbols c_constants]; rewrite (proj1 (CompileCorrectH5.change_jump_consts _ _ _ _ H7));
        destruct (last_instruction_is OPop (set_loops st4 (c_loops (set_symbols (emit_u16 JUMP_PLACEHOLDER (emit_opcode OJump st1))
                   (fold_left (fun t p => fst (define t p)) ps (new_context (c_symbols (emit_u16 JUMP_PLACEHOLDER (emit_opcode OJump st1)))))))));
          [reflexivity|];
        destruct (last_instruction_is OReturnValue (set_loops st4 (c_loops (set_symbols (emit_u16 JUMP_PLACEHOLDER (emit_opcode OJump st1))
                   (fold_left (fun t p => fst (define t p)) ps (new_context (c_symbols (emit_u16 JUMP_PLACEHOLDER (emit_opcode OJump st1)))))))));
          reflexivity)) W9) as W'.
      rewrite app_nil_r in W'. exact W'. }
    change (lits_e (EFunction n ps body)) with (lits_b body).
    destruct sym as [s|].
    + bok Hc st11 H11. inversion Hc; subst st'.
      apply (wfacts_post _ _ st9 _ W). cbn [emit_u16 emit_opcode c_constants].
      exact (proj1 (proj2 (emit_sym_spec _ _ _ _ H11))).
    + inversion Hc; subst st'. apply (wfacts_post _ _ st9 _ W). reflexivity.
  - (* ECall *)
    intros h args IHh IHa lp fa fn st st' HF Hc. rewrite f4s_expr_other in HF by (intros; discriminate).
    rewrite f4e_call in HF. apply andb_prop in HF. destruct HF as [HFa HFf].
    rewrite CompilerNames.ce_call in Hc. bok Hc st1 H1. cbv zeta in Hc.
    change (match h with EIdent name => assoc_text name builtin_names | _ => None end) with (builtin_of h) in Hc.
    rewrite CompileCorrectH4.lits_call.
    pose proof (WA_of args IHa fa fn _ _ HFa H1) as W1.
    destruct (builtin_of h) as [b|] eqn:Eb.
    + bok Hc n Hn. inversion Hc; subst st'.
      assert (lits_e h = []) as -> by (destruct h; try discriminate Eb; reflexivity).
      rewrite app_nil_r. apply (wfacts_post _ _ st1 _ W1). reflexivity.
    + bok Hc st2 H2. bok Hc n Hn. inversion Hc; subst st'.
      assert (f4e false fa fn h = true) as HFf'.
      { apply orb_prop in HFf. destruct HFf as [Hb|Hf]; [|exact Hf].
        destruct h; try discriminate Hb. cbn [is_builtin_callee] in Hb. unfold is_builtin_name in Hb.
        cbn [builtin_of] in Eb. rewrite Eb in Hb. discriminate Hb. }
      apply (wfacts_post _ _ st2); [|reflexivity].
      exact (wfacts_trans _ _ _ _ _ W1 (WE_e h IHh false fa fn _ _ HFf' H2)).
  - (* EAssign *)
    intros l r IHl IHr lp fa fn st st' HF Hc. rewrite f4s_expr_other in HF by (intros; discriminate).
    destruct l as [| | | | | |x| | | | | |bs i|]; try discriminate HF.
    + rewrite f4e_assign in HF. rewrite ce_assign_ident in Hc.
      destruct (resolve (c_symbols st) x) as [sy|]; [|discriminate Hc]. bok Hc st1 H1. bok Hc st2 H2.
      rewrite CompileCorrectH4.lits_assign. cbn [lits_e app].
      apply (wfacts_post _ _ st1 _ (WE_e r IHr false fa fn _ _ HF H1)).
      rewrite (proj1 (proj2 (emit_sym_spec _ _ _ _ Hc))). exact (proj1 (proj2 (emit_sym_spec _ _ _ _ H2))).
    + rewrite f4e_assign_index in HF. apply andb_prop in HF. destruct HF as [HF H3f].
      apply andb_prop in HF. destruct HF as [H1f H2f].
      rewrite ce_assign_index in Hc. bok Hc st1 H1. bok Hc st2 H2. bok Hc st3 H3. inversion Hc; subst st'.
      (* the components of the index expression: the induction hypothesis for EIndex bs i gives them *)
      rewrite CompileCorrectH4.lits_assign, CompileCorrectH4.lits_index.
      assert (f4e false fa fn (EIndex bs i) = true) as HFi by (rewrite f4e_index, H1f, H2f; reflexivity).
      assert (compile_expression (EIndex bs i) st = Ok (emit_opcode OIndexGet st2)) as Hci.
      { rewrite CompilerNames.ce_index, H1. cbn [bind]. rewrite H2. reflexivity. }
      pose proof (WE_e _ IHl false fa fn _ _ HFi Hci) as Wi. rewrite CompileCorrectH4.lits_index in Wi.
      apply (wfacts_post _ _ st3); [|reflexivity].
      apply (wfacts_trans _ _ _ st2 _); [|exact (WE_e r IHr false fa fn _ _ H3f H3)].
      apply (wfacts_post _ _ _ st2 Wi). reflexivity.
  - (* EString *)
    intros x lp fa fn st st' _ Hc. rewrite ce_string in Hc.
    exact (CompileCorrectH5.wfacts_emit_const (KStr x) (count_alloc st) st st' eq_refl (const_eqb_str_refl x) Hc).
  - (* EArray *)
    intros vs IHvs lp fa fn st st' HF Hc. rewrite f4s_expr_other in HF by (intros; discriminate).
    rewrite f4e_array in HF. rewrite CompilerNames.ce_array in Hc. bok Hc st1 H1. cbv zeta in Hc. bok Hc n Hn.
    inversion Hc; subst st'. rewrite CompileCorrectH4.lits_array.
    apply (wfacts_post _ _ st1 _ (WA_of vs IHvs fa fn _ _ HF H1)). reflexivity.
  - (* EIndex *)
    intros b i IHb IHi lp fa fn st st' HF Hc. rewrite f4s_expr_other in HF by (intros; discriminate).
    rewrite f4e_index in HF. apply andb_prop in HF. destruct HF as [H1f H2f].
    rewrite CompilerNames.ce_index in Hc. bok Hc st1 H1. bok Hc st2 H2. inversion Hc; subst st'.
    rewrite CompileCorrectH4.lits_index. apply (wfacts_post _ _ st2); [|reflexivity].
    exact (wfacts_trans _ _ _ _ _ (WE_e b IHb false fa fn _ _ H1f H1) (WE_e i IHi false fa fn _ _ H2f H2)).
  - (* EWhile *)
    intros c body IHc IHb lp fa fn st st' HF Hc. rewrite f4s_expr_other in HF by (intros; discriminate).
    rewrite f4e_while in HF. apply andb_prop in HF. destruct HF as [Hfc Hfb].
    rewrite ce_while in Hc. cbv zeta in Hc.
    bok Hc st3 H3. bok Hc st5 H5. bok Hc back Hb. bok Hc target Ht. bok Hc st8 H8.
    rewrite CompileCorrectH4.lits_while.
    assert (c_constants st' = c_constants st5) as Hk'.
    { destruct (CompileCorrectH5.change_jump_consts _ _ _ _ H8) as [K8 _].
      destruct (rev (c_loops st8)) as [|ctx rest]; [discriminate Hc|].
      rewrite (CompileCorrectH5.patch_breaks_consts _ _ _ Hc). cbn [set_loops c_constants]. rewrite K8. reflexivity. }
    apply (wfacts_post _ _ st5); [|exact Hk'].
    apply (wfacts_trans _ _ _ st3 _).
    + eapply (CompileCorrectH5.wfacts_pre _ st); [|exact (WE_e c IHc false fa fn _ _ Hfc H3)]. reflexivity.
    + apply (wfacts_pre _ st3 (emit_opcode OPop (emit_u16 JUMP_PLACEHOLDER (emit_opcode OJumpIfFalse st3)))); [reflexivity|].
      exact (WBV_of body IHb true fn fn _ _ Hfb H5).
  - (* SLet *)
    intros x e IHe lp fa fn st st' HF Hc. rewrite f4s_let in HF. apply andb_prop in HF. destruct HF as [HF _].
    rewrite CompilerNames.cs_let in Hc. destruct (define (c_symbols st) x) as [t sym]. bok Hc st1 H1.
    change (lits_s (SLet x e)) with (lits_e e).
    apply (wfacts_post _ _ st1); [|exact (proj1 (proj2 (emit_sym_spec _ _ _ _ Hc)))].
    apply (wfacts_pre _ st (set_symbols st t)); [reflexivity|]. exact (WE_e e IHe false fa fn _ _ HF H1).
  - (* SReturn *)
    intros e IHe lp fa fn st st' HF Hc. rewrite f4s_return in HF. rewrite CompilerNames.cs_return in Hc.
    destruct (in_global_context (c_symbols st)); [discriminate Hc|]. bok Hc st1 H1. inversion Hc; subst st'.
    change (lits_s (SReturn e)) with (lits_e e).
    apply (wfacts_post _ _ st1 _ (WE_e e IHe false fa fn _ _ HF H1)). reflexivity.
  - (* SExpr *)
    intros e IHe lp fa fn st st' HF Hc. rewrite CompilerNames.cs_expr in Hc. bok Hc st1 H1. inversion Hc; subst st'.
    change (lits_s (SExpr e)) with (lits_e e).
    apply (wfacts_post _ _ st1 _ (IHe lp fa fn _ _ HF H1)). reflexivity.
  - (* SBlock *)
    intros b IHb lp fa fn st st' HF Hc. rewrite f4s_block in HF. rewrite CompileCorrectH4.lits_s_block.
    rewrite CompilerNames.cs_block in Hc. destruct b as [|s r]; cbn [is_nil] in Hc.
    + inversion Hc; subst. apply wfacts_same. reflexivity.
    + bok Hc st1 H1. inversion Hc; subst st'.
      apply (wfacts_post _ _ st1); [|reflexivity].
      apply (wfacts_pre _ st (set_symbols st (enter_scope (c_symbols st)))); [reflexivity|].
      exact (WL_of _ IHb lp fn fn _ _ HF H1).
  - (* SBreak *)
    intros lp fa fn st st' _ Hc. rewrite CompilerNames.cs_break in Hc. cbv zeta in Hc.
    destruct (rev (c_loops (emit_u16 JUMP_PLACEHOLDER (emit_opcode OJump (emit_opcode ONull st))))); [discriminate Hc|].
    inversion Hc; subst. apply wfacts_same. reflexivity.
  - (* SContinue *)
    intros lp fa fn st st' _ Hc. rewrite CompilerNames.cs_continue in Hc. cbv zeta in Hc.
    destruct (rev (c_loops (emit_opcode ONull st))); [discriminate Hc|]. bok Hc pos Hp.
    inversion Hc; subst. apply wfacts_same. reflexivity.
Qed.

(* the literals of the program are in the pool; the floats of the pool are literals of the program *)
Theorem compile_pool_facts4 : forall p bc, in_F4 p = true -> compile p = Ok bc ->
  CompileCorrectH5.pres (lits_b p) (b_constants bc) /\
  (forall f, In (KFloat f) (b_constants bc) -> In (KFloat f) (lits_b p)).
Proof.
  intros p bc HF Hc. destruct (compile_inv p bc Hc) as [st1 [H1 ->]]. cbn [b_constants].
  assert (Forall WS p) as HW by (apply Forall_forall; intros s _; apply (proj2 w_all)).
  destruct (WL_of p HW false true false compiler_new st1 HF H1) as [_ [P V]].
  split; [exact P|]. intros f Hin. destruct (V f Hin) as [[]|H]. exact H.
Qed.

(** * The literals of the program at run time *)

Lemma lits_good4 : forall p bc consts, in_F4 p = true -> compile p = Ok bc -> lits_exact (lits_b p) ->
  length consts = length (b_constants bc) ->
  Forall (CompileCorrectH4.lit_good (combine (b_constants bc) consts)) (lits_b p).
Proof.
  intros p bc consts HF Hc Hex Hlen. destruct (compile_pool_facts4 p bc HF Hc) as [P V].
  apply Forall_forall. intros c Hin. set (pl := combine (b_constants bc) consts).
  assert (map fst pl = b_constants bc) as Hfst by (apply CompileCorrectH5.map_fst_combine; symmetry; exact Hlen).
  assert (map snd pl = consts) as Hsnd by (apply CompileCorrectH5.map_snd_combine; symmetry; exact Hlen).
  destruct (const_position c (b_constants bc)) as [i|] eqn:Ep; [|exfalso; exact (P c Hin Ep)].
  pose proof (const_position_lt _ _ _ Ep) as Hlt.
  destruct (nth_error consts i) as [v|] eqn:En; [|apply nth_error_None in En; lia].
  assert (pool_find c pl = Some v) as Hfind by (rewrite pool_find_position, Hfst, Ep, Hsnd; exact En).
  exists v. split; [exact Hfind|].
  destruct (pool_find_in _ _ _ Hfind) as [c' [Hin' He]].
  assert (c' = c) as ->; [|exact Hin'].
  destruct c as [z|f|s|ip n].
  - apply PoolProofs.const_eqb_exact; [intros f; discriminate|exact He].
  - destruct c' as [z'|f'|s'|ip' n']; try discriminate He. cbn [const_eqb] in He.
    f_equal. apply Hex; [|exact Hin|exact He]. apply V. rewrite <- Hfst.
    apply (in_map fst pl (KFloat f', v)) in Hin'. exact Hin'.
  - apply PoolProofs.const_eqb_exact; [intros f; discriminate|exact He].
  - apply PoolProofs.const_eqb_exact; [intros f; discriminate|exact He].
Qed.

(** * The static pass accepts what the compiler accepts *)

Lemma size3_bsize : forall l, size3_b l = CompilerNames.bsize l.
Proof. induction l as [|s r IH]; [reflexivity|]. cbn [size3_b CompilerNames.bsize]. rewrite IH. reflexivity. Qed.

Lemma f4_fn_ok :
  (forall e lp fa fn, f4s lp fa fn (SExpr e) = true ->
     CompilerNames.fn_ok true e = true /\ (f4e lp fa fn e = true -> CompilerNames.fn_ok false e = true)) /\
  (forall s lp fa fn, f4s lp fa fn s = true -> CompilerNames.fn_ok_stmt s = true).
Proof.
  assert (forall (Q : stmt -> Prop) l, Forall Q l ->
            (forall s, Q s -> forall lp fa fn, f4s lp fa fn s = true -> CompilerNames.fn_ok_stmt s = true) ->
            forall lp fa fn, f4b lp fa fn l = true -> forallb CompilerNames.fn_ok_stmt l = true) as Hall.
  { intros Q l H HQ. induction H as [|s r Hs Hr IH]; intros lp fa fn HF; [reflexivity|].
    rewrite f4b_cons in HF. apply andb_prop in HF. destruct HF as [A B]. cbn [forallb].
    rewrite (HQ s Hs lp fa fn A), (IH lp fa fn B). reflexivity. }
  apply (expr_stmt_ind
    (fun e => forall lp fa fn, f4s lp fa fn (SExpr e) = true ->
       CompilerNames.fn_ok true e = true /\ (f4e lp fa fn e = true -> CompilerNames.fn_ok false e = true))
    (fun s => forall lp fa fn, f4s lp fa fn s = true -> CompilerNames.fn_ok_stmt s = true)).
  - intros l o r IHl IHr lp fa fn HF. rewrite f4s_expr_other in HF by (intros; discriminate).
    assert (CompilerNames.fn_ok false (EInfix l o r) = true) as R.
    { rewrite f4e_infix in HF. apply andb_prop in HF. destruct HF as [HF Hr]. apply andb_prop in HF. destruct HF as [_ Hl].
      cbn [CompilerNames.fn_ok]. rewrite (proj2 (IHl false fa fn (f4e_f4s _ _ _ _ Hl)) Hl), (proj2 (IHr false fa fn (f4e_f4s _ _ _ _ Hr)) Hr).
      reflexivity. }
    split; [exact R|intros _; exact R].
  - intros o r IHr lp fa fn HF. rewrite f4s_expr_other in HF by (intros; discriminate).
    assert (CompilerNames.fn_ok false (EPrefix o r) = true) as R.
    { rewrite f4e_prefix in HF. apply andb_prop in HF. destruct HF as [_ Hr].
      cbn [CompilerNames.fn_ok]. exact (proj2 (IHr false fa fn (f4e_f4s _ _ _ _ Hr)) Hr). }
    split; [exact R|intros _; exact R].
  - intros; split; reflexivity.
  - intros; split; reflexivity.
  - intros; split; reflexivity.
  - intros c t alt IHc IHt IHa lp fa fn HF. rewrite f4s_expr_other in HF by (intros; discriminate).
    assert (CompilerNames.fn_ok false (EIf c t alt) = true) as R.
    { rewrite f4e_if in HF. apply andb_prop in HF. destruct HF as [HF Hfa]. apply andb_prop in HF. destruct HF as [Hfc Hft].
      cbn [CompilerNames.fn_ok]. rewrite (proj2 (IHc false fa fn (f4e_f4s _ _ _ _ Hfc)) Hfc).
      rewrite (Hall _ t IHt (fun s H => H) lp fn fn Hft). cbn [andb].
      destruct alt as [bl|]; [|reflexivity]. exact (Hall _ bl IHa (fun s H => H) lp fn fn Hfa). }
    split; [exact R|intros _; exact R].
  - intros; split; reflexivity.
  - intros n ps body IHb lp fa fn HF.
    assert (f4b false true true body = true) as HFb.
    { destruct n as [|c0 nm].
      - rewrite f4s_expr_other in HF by (intros; discriminate). rewrite f4e_function in HF.
        apply andb_prop in HF. exact (proj2 HF).
      - rewrite f4s_expr_named in HF. apply andb_prop in HF. exact (proj2 HF). }
    pose proof (Hall _ body IHb (fun s H => H) false true true HFb) as Rb.
    split.
    + cbn [CompilerNames.fn_ok orb andb]. exact Rb.
    + intros HFe. rewrite f4e_function in HFe. apply andb_prop in HFe. destruct HFe as [HFe _].
      apply andb_prop in HFe. destruct HFe as [_ Hn]. cbn [CompilerNames.fn_ok]. rewrite Hn, Rb. reflexivity.
  - intros h args IHh IHa lp fa fn HF. rewrite f4s_expr_other in HF by (intros; discriminate).
    assert (CompilerNames.fn_ok false (ECall h args) = true) as R.
    { rewrite f4e_call in HF. apply andb_prop in HF. destruct HF as [HFa HFf].
      cbn [CompilerNames.fn_ok].
      assert (CompilerNames.fn_ok false h = true) as ->.
      { apply orb_prop in HFf. destruct HFf as [Hb|HFf].
        - destruct h; try discriminate Hb. reflexivity.
        - exact (proj2 (IHh false fa fn (f4e_f4s _ _ _ _ HFf)) HFf). }
      rewrite andb_true_r.
      clear IHh HFf. induction IHa as [|x r Hx Hr IH]; [reflexivity|].
      rewrite f4es_cons in HFa. apply andb_prop in HFa. destruct HFa as [A B]. cbn [forallb].
      rewrite (proj2 (Hx false fa fn (f4e_f4s _ _ _ _ A)) A), (IH B). reflexivity. }
    split; [exact R|intros _; exact R].
  - intros l r IHl IHr lp fa fn HF. rewrite f4s_expr_other in HF by (intros; discriminate).
    assert (CompilerNames.fn_ok false (EAssign l r) = true) as R.
    { destruct l as [| | | | | |x| | | | | |bs i|]; try discriminate HF.
      - rewrite f4e_assign in HF. cbn [CompilerNames.fn_ok].
        exact (proj2 (IHr false fa fn (f4e_f4s _ _ _ _ HF)) HF).
      - rewrite f4e_assign_index in HF. apply andb_prop in HF. destruct HF as [HF H3]. apply andb_prop in HF.
        destruct HF as [H1 H2].
        assert (f4e false fa fn (EIndex bs i) = true) as Hi by (rewrite f4e_index, H1, H2; reflexivity).
        change (CompilerNames.fn_ok false (EAssign (EIndex bs i) r))
          with (CompilerNames.fn_ok false (EIndex bs i) && CompilerNames.fn_ok false r).
        rewrite (proj2 (IHl false fa fn (f4e_f4s _ _ _ _ Hi)) Hi), (proj2 (IHr false fa fn (f4e_f4s _ _ _ _ H3)) H3).
        reflexivity. }
    split; [exact R|intros _; exact R].
  - intros s lp fa fn HF. split; reflexivity.
  - intros vs IHa lp fa fn HF. rewrite f4s_expr_other in HF by (intros; discriminate).
    assert (CompilerNames.fn_ok false (EArray vs) = true) as R.
    { rewrite f4e_array in HF. cbn [CompilerNames.fn_ok].
      induction IHa as [|x r Hx Hr IH]; [reflexivity|].
      rewrite f4es_cons in HF. apply andb_prop in HF. destruct HF as [A B]. cbn [forallb].
      rewrite (proj2 (Hx false fa fn (f4e_f4s _ _ _ _ A)) A), (IH B). reflexivity. }
    split; [exact R|intros _; exact R].
  - intros b i IHb IHi lp fa fn HF. rewrite f4s_expr_other in HF by (intros; discriminate).
    assert (CompilerNames.fn_ok false (EIndex b i) = true) as R.
    { rewrite f4e_index in HF. apply andb_prop in HF. destruct HF as [H1 H2]. cbn [CompilerNames.fn_ok].
      rewrite (proj2 (IHb false fa fn (f4e_f4s _ _ _ _ H1)) H1), (proj2 (IHi false fa fn (f4e_f4s _ _ _ _ H2)) H2).
      reflexivity. }
    split; [exact R|intros _; exact R].
  - intros c b IHc IHb lp fa fn HF. rewrite f4s_expr_other in HF by (intros; discriminate).
    assert (CompilerNames.fn_ok false (EWhile c b) = true) as R.
    { rewrite f4e_while in HF. apply andb_prop in HF. destruct HF as [Hfc Hfb].
      cbn [CompilerNames.fn_ok]. rewrite (proj2 (IHc false fa fn (f4e_f4s _ _ _ _ Hfc)) Hfc).
      exact (Hall _ b IHb (fun s H => H) true fn fn Hfb). }
    split; [exact R|intros _; exact R].
  - intros n e IHe lp fa fn HF. rewrite f4s_let in HF. apply andb_prop in HF. destruct HF as [HF _].
    cbn [CompilerNames.fn_ok_stmt]. exact (proj2 (IHe false fa fn (f4e_f4s _ _ _ _ HF)) HF).
  - intros e IHe lp fa fn HF. rewrite f4s_return in HF.
    cbn [CompilerNames.fn_ok_stmt]. exact (proj2 (IHe false fa fn (f4e_f4s _ _ _ _ HF)) HF).
  - intros e IHe lp fa fn HF. cbn [CompilerNames.fn_ok_stmt]. exact (proj1 (IHe lp fa fn HF)).
  - intros b IHb lp fa fn HF. rewrite f4s_block in HF. cbn [CompilerNames.fn_ok_stmt].
    exact (Hall _ b IHb (fun s H => H) lp fn fn HF).
  - reflexivity.
  - reflexivity.
Qed.

Lemma f4b_fn_ok : forall p lp fa fn, f4b lp fa fn p = true -> forallb CompilerNames.fn_ok_stmt p = true.
Proof.
  induction p as [|s r IH]; intros lp fa fn HF; [reflexivity|].
  rewrite f4b_cons in HF. apply andb_prop in HF. destruct HF as [A B]. cbn [forallb].
  rewrite (proj2 f4_fn_ok s lp fa fn A), (IH lp fa fn B). reflexivity.
Qed.

Lemma in_F4_fn_ok : forall p, in_F4 p = true -> CompilerNames.fn_ok_block p = true.
Proof. intros p H. exact (f4b_fn_ok p false true false H). Qed.

Theorem static_accepts_F4 : forall p bc fuel, in_F4 p = true -> compile p = Ok bc ->
  (size3_b p <= fuel)%nat -> static_check fuel p = None.
Proof.
  intros p bc fuel HF Hc Hsz. apply (CompilerNames.accepted_scoped p bc fuel (in_F4_fn_ok p HF)); [|exact Hc].
  rewrite <- size3_bsize. exact Hsz.
Qed.


Print Assumptions compile_pool_facts4.
Print Assumptions lits_good4.
Print Assumptions static_accepts_F4.
