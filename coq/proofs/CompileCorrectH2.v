(* CompileCorrectH2.v - compiler correctness for the fragment F2h (property C01), part H2:
   the machine running the compiled code simulates an intermediate evaluator.

   This is part C (CompileCorrectC.v) redone for the larger fragment: the intermediate evaluator
   `heval` / `hwhile` / `hstmts` has the control structure of `xeval` / `xwhile` / `xstmts` and in
   addition
     - threads the OUTPUT (results carry the text printed so far, errors the text printed before
       the error),
     - evaluates float / string literals through the constant pool of the running program (`pl`:
       the constants with their run-time values; a lookup by `const_eqb` like add_constant's),
     - evaluates array literals, indexing, index assignment and builtin calls with the value-level
       functions of part H1 (which are the machine's own, lifted).
   The constant pool may now grow by any constant (part C: integers only).
   The statements are those of part C with `f2he` for `f2e`; the proofs of the control-flow
   constructs are the proofs of part C transported to the new definitions. *)
From Coq Require Import ZArith Lia Bool List String.
From NL.Model Require Import VM.
From NL.Spec Require Import Sem Fragment Fragment2 Fragment2h ArithSpec.
From NL.Proofs Require Import WordProofs OpsProofs AstInduction ControlProofs PoolProofs
  CompileCorrectA CompileCorrectB CompileCorrectC CompileCorrectH1.
Open Scope Z_scope.

(** * The intermediate evaluator for F2h *)

Inductive hres (A : Type) : Type :=
| HOk (a : A) (m : hst)
| HBrk (m : hst)                     (* stop: leave the innermost loop *)
| HCnt (m : hst)                     (* volgende: next iteration of the innermost loop *)
| HErr (k : errkind) (out : text)    (* out: everything printed before the error *)
| HFault (f : fault) (out : text)
| HFuel.
Arguments HOk {A} a m.
Arguments HBrk {A} m.
Arguments HCnt {A} m.
Arguments HErr {A} k out.
Arguments HFault {A} f out.
Arguments HFuel {A}.

Definition hbind {A B} (x : hres A) (k : A -> hst -> hres B) : hres B :=
  match x with
  | HOk a m => k a m
  | HBrk m => HBrk m
  | HCnt m => HCnt m
  | HErr e o => HErr e o
  | HFault f o => HFault f o
  | HFuel => HFuel
  end.

Definition hlift_h (m : hst) (r : outcome (val * heap)) : hres val :=
  match r with
  | Ok x => HOk (fst x) (with_new_h m x)
  | Err k => HErr k (hs_out m)
  | Fault f => HFault f (hs_out m)
  | OutOfFuel => HFuel
  end.
Definition hlift_p (m : hst) (r : outcome val) : hres val :=
  match r with
  | Ok v => HOk v m
  | Err k => HErr k (hs_out m)
  | Fault f => HFault f (hs_out m)
  | OutOfFuel => HFuel
  end.
(* the value-level functions of part H1 *)
Definition hlift_o (m : hst) (r : outcome (val * hst)) : hres val :=
  match r with
  | Ok x => HOk (fst x) (snd x)
  | Err k => HErr k (hs_out m)
  | Fault f => HFault f (hs_out m)
  | OutOfFuel => HFuel
  end.

(* operands / elements / arguments, left to right *)
Definition hlist_of (ev : expr -> hst -> hres val) : list expr -> hst -> hres (list val) :=
  fix go (l : list expr) (m : hst) : hres (list val) :=
    match l with
    | [] => HOk [] m
    | x :: r => hbind (ev x m) (fun v m1 => hbind (go r m1) (fun vs m2 => HOk (v :: vs) m2))
    end.

Section HEval.
  Variable orc : oracle.
  Variable pl : list (const * val).       (* the constant pool with its run-time values *)

  (* OpCode::Const on the constant the compiler registered for k *)
  Definition h_lit (k : const) (m : hst) : hres val :=
    match pool_find k pl with
    | Some v => hlift_o m (h_const m v)
    | None => HFault FConstIndex (hs_out m)
    end.

  (* same fuel discipline as Sem.eval_expr / eval_while / exec_block *)
  Fixpoint heval (fuel : nat) (names : list text) (e : expr) (m : hst) {struct fuel} : hres val :=
    match fuel with
    | O => HFuel
    | S f =>
        match e with
        | EInt z => HOk (VInt z) m
        | EBool b => HOk (VBool b) m
        | EFloat x => h_lit (KFloat x) m
        | EString s => h_lit (KStr s) m
        | EIdent x =>
            match rposition x names with
            | Some i => HOk (nth i (hs_gl m) VNull) m
            | None => HErr EReferenceError (hs_out m)
            end
        | EAssign l r =>
            match l with
            | EIdent x =>
                match rposition x names with
                | Some i => hbind (heval f names r m) (fun v m1 => HOk v (set_global_h i v m1))
                | None => HErr EReferenceError (hs_out m)
                end
            | EIndex b i =>
                hbind (heval f names b m) (fun a m1 =>
                hbind (heval f names i m1) (fun ix m2 =>
                hbind (heval f names r m2) (fun v m3 =>
                  hlift_o m3 (h_index_set m3 a ix v))))
            | _ => HErr ETypeError (hs_out m)
            end
        | EPrefix op r =>
            hbind (heval f names r m) (fun v m1 =>
              match op with
              | OpNegate | OpSubtract => hlift_h m1 (negate (hs_heap m1) v)
              | OpNot => hlift_p m1 (lognot v)
              | _ => HErr ETypeError (hs_out m1)
              end)
        | EInfix l op r =>
            hbind (heval f names l m) (fun a m1 =>
            hbind (heval f names r m1) (fun b m2 =>
              match Sem.method_of op with
              | Some mth => hlift_h m2 (binop orc mth (hs_heap m2) a b)
              | None => HErr ETypeError (hs_out m2)
              end))
        | EIf c t alt =>
            hbind (heval f names c m) (fun b m1 =>
              match b with
              | VBool true => hstmts f names t VNull m1
              | VBool false =>
                  match alt with
                  | Some bl => hstmts f names bl VNull m1
                  | None => HOk VNull m1
                  end
              | _ => HErr ETypeError (hs_out m1)
              end)
        | EWhile c body => hwhile f names c body VNull m
        | EArray vs =>
            hbind (hlist_of (heval f names) vs m) (fun xs m1 => hlift_o m1 (Ok (h_array m1 xs)))
        | EIndex l i =>
            hbind (heval f names l m) (fun a m1 =>
            hbind (heval f names i m1) (fun ix m2 =>
              hlift_o m2 (h_index_get m2 a ix)))
        | ECall fn args =>
            hbind (hlist_of (heval f names) args m) (fun xs m1 =>
              match fn with
              | EIdent x =>
                  match assoc_text x builtin_names with
                  | Some b => hlift_o m1 (h_builtin orc m1 b xs)
                  | None => HErr ETypeError (hs_out m1)
                  end
              | _ => HErr ETypeError (hs_out m1)
              end)
        | EFunction _ _ _ => HErr ETypeError (hs_out m)
        end
    end

  with hwhile (fuel : nat) (names : list text) (c : expr) (body : list stmt) (last : val) (m : hst)
         {struct fuel} : hres val :=
    match fuel with
    | O => HFuel
    | S f =>
        hbind (heval f names c m) (fun b m1 =>
          match b with
          | VBool true =>
              match hstmts f names body VNull m1 with
              | HOk v m2 => hwhile f names c body v m2
              | HBrk m2 => HOk VNull m2
              | HCnt m2 => hwhile f names c body VNull m2
              | other => other
              end
          | VBool false => HOk last m1
          | _ => HErr ETypeError (hs_out m1)
          end)
    end

  (* the statements of a block; `names` is local to the call: declarations of the block are
     forgotten when it is left.  `last` as in Sem.exec_block. *)
  with hstmts (fuel : nat) (names : list text) (l : list stmt) (last : val) (m : hst)
         {struct fuel} : hres val :=
    match fuel with
    | O => HFuel
    | S f =>
        match l with
        | [] => HOk last m
        | s :: r =>
            match s with
            | SLet x e =>
                hbind (heval f (names ++ [x]) e m) (fun v m1 =>
                  hstmts f (names ++ [x]) r VNull (set_global_h (length names) v m1))
            | SExpr e => hbind (heval f names e m) (fun v m1 => hstmts f names r v m1)
            | SBlock b' => hbind (hstmts f names b' VNull m) (fun v m1 => hstmts f names r v m1)
            | SBreak => HBrk m
            | SContinue => HCnt m
            | SReturn _ => HErr ESyntaxError (hs_out m)
            end
        end
    end.

  Definition heval_list (fuel : nat) (names : list text) : list expr -> hst -> hres (list val) :=
    hlist_of (heval fuel names).
End HEval.

(** * Unfolding equations *)

Lemma f2he_if : forall lp c t alt,
  f2he lp (EIf c t alt) = f2he false c && f2hb lp t && match alt with Some b => f2hb lp b | None => true end.
Proof. reflexivity. Qed.
Lemma f2he_while : forall lp c b, f2he lp (EWhile c b) = f2he false c && f2hb true b.
Proof. reflexivity. Qed.
Lemma f2hs_block : forall lp b, f2hs lp (SBlock b) = f2hb lp b.
Proof. reflexivity. Qed.
Lemma f2hb_cons : forall lp s r, f2hb lp (s :: r) = f2hs lp s && f2hb lp r.
Proof. reflexivity. Qed.
Lemma f2he_array : forall lp vs, f2he lp (EArray vs) = f2hl vs.
Proof. reflexivity. Qed.
Lemma f2he_index : forall lp l i, f2he lp (EIndex l i) = f2he false l && f2he false i.
Proof. reflexivity. Qed.
Lemma f2he_assign_index : forall lp b i r,
  f2he lp (EAssign (EIndex b i) r) = f2he false b && f2he false i && f2he false r.
Proof. reflexivity. Qed.
Lemma f2he_call : forall lp fn args,
  f2he lp (ECall fn args) = match fn with EIdent x => is_builtin_name x | _ => false end && f2hl args.
Proof. reflexivity. Qed.
Lemma f2hl_cons : forall x r, f2hl (x :: r) = f2he false x && f2hl r.
Proof. reflexivity. Qed.

Section HEq.
  Variable orc : oracle.
  Variable pl : list (const * val).
  Lemma he_int : forall f names z m, heval orc pl (S f) names (EInt z) m = HOk (VInt z) m.
  Proof. reflexivity. Qed.
  Lemma he_bool : forall f names b m, heval orc pl (S f) names (EBool b) m = HOk (VBool b) m.
  Proof. reflexivity. Qed.
  Lemma he_float : forall f names x m, heval orc pl (S f) names (EFloat x) m = h_lit pl (KFloat x) m.
  Proof. reflexivity. Qed.
  Lemma he_string : forall f names s m, heval orc pl (S f) names (EString s) m = h_lit pl (KStr s) m.
  Proof. reflexivity. Qed.
  Lemma he_ident : forall f names x m,
    heval orc pl (S f) names (EIdent x) m =
    match rposition x names with
    | Some i => HOk (nth i (hs_gl m) VNull) m
    | None => HErr EReferenceError (hs_out m)
    end.
  Proof. reflexivity. Qed.
  Lemma he_assign : forall f names x r m,
    heval orc pl (S f) names (EAssign (EIdent x) r) m =
    match rposition x names with
    | Some i => hbind (heval orc pl f names r m) (fun v m1 => HOk v (set_global_h i v m1))
    | None => HErr EReferenceError (hs_out m)
    end.
  Proof. reflexivity. Qed.
  Lemma he_assign_index : forall f names b i r m,
    heval orc pl (S f) names (EAssign (EIndex b i) r) m =
    hbind (heval orc pl f names b m) (fun a m1 =>
    hbind (heval orc pl f names i m1) (fun ix m2 =>
    hbind (heval orc pl f names r m2) (fun v m3 =>
      hlift_o m3 (h_index_set m3 a ix v)))).
  Proof. reflexivity. Qed.
  Lemma he_prefix : forall f names op r m,
    heval orc pl (S f) names (EPrefix op r) m =
    hbind (heval orc pl f names r m) (fun v m1 =>
      match op with
      | OpNegate | OpSubtract => hlift_h m1 (negate (hs_heap m1) v)
      | OpNot => hlift_p m1 (lognot v)
      | _ => HErr ETypeError (hs_out m1)
      end).
  Proof. reflexivity. Qed.
  Lemma he_infix : forall f names l op r m,
    heval orc pl (S f) names (EInfix l op r) m =
    hbind (heval orc pl f names l m) (fun a m1 =>
    hbind (heval orc pl f names r m1) (fun b m2 =>
      match Sem.method_of op with
      | Some mth => hlift_h m2 (binop orc mth (hs_heap m2) a b)
      | None => HErr ETypeError (hs_out m2)
      end)).
  Proof. reflexivity. Qed.
  Lemma he_if : forall f names c t alt m,
    heval orc pl (S f) names (EIf c t alt) m =
    hbind (heval orc pl f names c m) (fun b m1 =>
      match b with
      | VBool true => hstmts orc pl f names t VNull m1
      | VBool false =>
          match alt with
          | Some bl => hstmts orc pl f names bl VNull m1
          | None => HOk VNull m1
          end
      | _ => HErr ETypeError (hs_out m1)
      end).
  Proof. reflexivity. Qed.
  Lemma he_while : forall f names c body m,
    heval orc pl (S f) names (EWhile c body) m = hwhile orc pl f names c body VNull m.
  Proof. reflexivity. Qed.
  Lemma he_array : forall f names vs m,
    heval orc pl (S f) names (EArray vs) m =
    hbind (heval_list orc pl f names vs m) (fun xs m1 => hlift_o m1 (Ok (h_array m1 xs))).
  Proof. reflexivity. Qed.
  Lemma he_index : forall f names l i m,
    heval orc pl (S f) names (EIndex l i) m =
    hbind (heval orc pl f names l m) (fun a m1 =>
    hbind (heval orc pl f names i m1) (fun ix m2 =>
      hlift_o m2 (h_index_get m2 a ix))).
  Proof. reflexivity. Qed.
  Lemma he_call : forall f names x b args m, assoc_text x builtin_names = Some b ->
    heval orc pl (S f) names (ECall (EIdent x) args) m =
    hbind (heval_list orc pl f names args m) (fun xs m1 => hlift_o m1 (h_builtin orc m1 b xs)).
  Proof.
    intros f names x b args m H.
    change (heval orc pl (S f) names (ECall (EIdent x) args) m)
      with (hbind (heval_list orc pl f names args m) (fun xs m1 =>
              match assoc_text x builtin_names with
              | Some b => hlift_o m1 (h_builtin orc m1 b xs)
              | None => HErr ETypeError (hs_out m1)
              end)).
    rewrite H. reflexivity.
  Qed.
  Lemma hl_nil : forall f names m, heval_list orc pl f names [] m = HOk [] m.
  Proof. reflexivity. Qed.
  Lemma hl_cons : forall f names x r m,
    heval_list orc pl f names (x :: r) m =
    hbind (heval orc pl f names x m) (fun v m1 =>
    hbind (heval_list orc pl f names r m1) (fun vs m2 => HOk (v :: vs) m2)).
  Proof. reflexivity. Qed.
  Lemma hw_step : forall f names c body last m,
    hwhile orc pl (S f) names c body last m =
    hbind (heval orc pl f names c m) (fun b m1 =>
      match b with
      | VBool true =>
          match hstmts orc pl f names body VNull m1 with
          | HOk v m2 => hwhile orc pl f names c body v m2
          | HBrk m2 => HOk VNull m2
          | HCnt m2 => hwhile orc pl f names c body VNull m2
          | other => other
          end
      | VBool false => HOk last m1
      | _ => HErr ETypeError (hs_out m1)
      end).
  Proof. reflexivity. Qed.
  Lemma hb_nil : forall f names last m, hstmts orc pl (S f) names [] last m = HOk last m.
  Proof. reflexivity. Qed.
  Lemma hb_let : forall f names x e r last m,
    hstmts orc pl (S f) names (SLet x e :: r) last m =
    hbind (heval orc pl f (names ++ [x]) e m) (fun v m1 =>
      hstmts orc pl f (names ++ [x]) r VNull (set_global_h (length names) v m1)).
  Proof. reflexivity. Qed.
  Lemma hb_expr : forall f names e r last m,
    hstmts orc pl (S f) names (SExpr e :: r) last m =
    hbind (heval orc pl f names e m) (fun v m1 => hstmts orc pl f names r v m1).
  Proof. reflexivity. Qed.
  Lemma hb_block : forall f names b r last m,
    hstmts orc pl (S f) names (SBlock b :: r) last m =
    hbind (hstmts orc pl f names b VNull m) (fun v m1 => hstmts orc pl f names r v m1).
  Proof. reflexivity. Qed.
  Lemma hb_break : forall f names r last m, hstmts orc pl (S f) names (SBreak :: r) last m = HBrk m.
  Proof. reflexivity. Qed.
  Lemma hb_continue : forall f names r last m, hstmts orc pl (S f) names (SContinue :: r) last m = HCnt m.
  Proof. reflexivity. Qed.
End HEq.

(** * Facts about the evaluator alone *)

Definition hnosig {A} (r : hres A) : Prop :=
  match r with HBrk _ | HCnt _ => False | _ => True end.

Lemma hnosig_hbind : forall A B (x : hres A) (k : A -> hst -> hres B),
  hnosig x -> (forall a m, hnosig (k a m)) -> hnosig (hbind x k).
Proof. intros A B x k Hx Hk. destruct x; cbn [hbind hnosig] in *; auto. Qed.

Lemma hnosig_hlift_h : forall m r, hnosig (hlift_h m r).
Proof. intros m r. destruct r; exact I. Qed.
Lemma hnosig_hlift_p : forall m r, hnosig (hlift_p m r).
Proof. intros m r. destruct r; exact I. Qed.
Lemma hnosig_hlift_o : forall m r, hnosig (hlift_o m r).
Proof. intros m r. destruct r; exact I. Qed.
Lemma hnosig_h_lit : forall pl k m, hnosig (h_lit pl k m).
Proof. intros pl k m. unfold h_lit. destruct (pool_find k pl); [apply hnosig_hlift_o|exact I]. Qed.

Lemma hnosig_list : forall (ev : expr -> hst -> hres val) l,
  (forall e m, In e l -> hnosig (ev e m)) -> forall m, hnosig (hlist_of ev l m).
Proof.
  intros ev l. induction l as [|x r IH]; intros H m; [exact I|].
  cbn [hlist_of]. apply hnosig_hbind; [apply H; left; reflexivity|]. intros v m1.
  apply hnosig_hbind; [apply IH; intros e m2 Hin; apply H; right; exact Hin|]. intros; exact I.
Qed.

Lemma f2hl_in : forall l e, f2hl l = true -> In e l -> f2he false e = true.
Proof.
  induction l as [|x r IH]; intros e H Hin; [destruct Hin|].
  rewrite f2hl_cons in H. apply andb_prop in H. destruct H as [H1 H2].
  destruct Hin as [<-|Hin]; [exact H1|exact (IH e H2 Hin)].
Qed.

(* where no stop / volgende of an enclosing loop may be written, none is reported *)
Lemma heval_nosig : forall orc pl fuel,
  (forall e names m, f2he false e = true -> hnosig (heval orc pl fuel names e m)) /\
  (forall c body last names m, f2he false c = true -> hnosig (hwhile orc pl fuel names c body last m)) /\
  (forall l names last m, f2hb false l = true -> hnosig (hstmts orc pl fuel names l last m)).
Proof.
  intros orc pl fuel. induction fuel as [|f [IHe [IHw IHs]]].
  - repeat split; intros; exact I.
  - split; [|split].
    + intros e names m HF.
      destruct e as [e1 o e2|o e|z|fl|bb|cnd t alt|s|n ps body|h args|e1 e2|str|vs|bs i|cnd body];
        try discriminate HF; try exact I.
      * (* EInfix *) rewrite he_infix. cbn [f2he] in HF.
        apply andb_prop in HF. destruct HF as [HF Hr]. apply andb_prop in HF. destruct HF as [_ Hl].
        apply hnosig_hbind; [apply IHe; exact Hl|]. intros a m1.
        apply hnosig_hbind; [apply IHe; exact Hr|]. intros b m2.
        destruct (Sem.method_of o); [apply hnosig_hlift_h|exact I].
      * (* EPrefix *) rewrite he_prefix. cbn [f2he] in HF. apply andb_prop in HF. destruct HF as [_ Hr].
        apply hnosig_hbind; [apply IHe; exact Hr|]. intros v m1.
        destruct o; try exact I; try apply hnosig_hlift_h; apply hnosig_hlift_p.
      * (* EFloat *) rewrite he_float. apply hnosig_h_lit.
      * (* EIf *) rewrite he_if. rewrite f2he_if in HF.
        apply andb_prop in HF. destruct HF as [HF Ha]. apply andb_prop in HF. destruct HF as [Hc Ht].
        apply hnosig_hbind; [apply IHe; exact Hc|]. intros b m1.
        destruct b as [|[|]| | | | |]; try exact I.
        -- apply IHs; exact Ht.
        -- destruct alt as [bl|]; [apply IHs; exact Ha|exact I].
      * (* EIdent *) rewrite he_ident. destruct (rposition s names); exact I.
      * (* ECall *) rewrite f2he_call in HF. apply andb_prop in HF. destruct HF as [Hfn Hargs].
        destruct h as [| | | | | |x| | | | | | |]; try discriminate Hfn. unfold is_builtin_name in Hfn.
        destruct (assoc_text x builtin_names) as [b|] eqn:Eb; [|discriminate Hfn].
        rewrite (he_call orc pl f names x b args m Eb).
        apply hnosig_hbind; [|intros; apply hnosig_hlift_o].
        apply hnosig_list. intros e m0 Hin. apply IHe. exact (f2hl_in _ _ Hargs Hin).
      * (* EAssign *) cbn [f2he] in HF.
        destruct e1 as [| | | | | |x| | | | | |bs i|]; try discriminate HF.
        -- rewrite he_assign. destruct (rposition x names); [|exact I].
           apply hnosig_hbind; [apply IHe; exact HF|]. intros; exact I.
        -- rewrite he_assign_index. apply andb_prop in HF. destruct HF as [HF H3].
           apply andb_prop in HF. destruct HF as [H1 H2].
           apply hnosig_hbind; [apply IHe; exact H1|]. intros a m1.
           apply hnosig_hbind; [apply IHe; exact H2|]. intros ix m2.
           apply hnosig_hbind; [apply IHe; exact H3|]. intros v m3. apply hnosig_hlift_o.
      * (* EString *) rewrite he_string. apply hnosig_h_lit.
      * (* EArray *) rewrite f2he_array in HF. rewrite he_array.
        apply hnosig_hbind; [|intros; apply hnosig_hlift_o].
        apply hnosig_list. intros e m0 Hin. apply IHe. exact (f2hl_in _ _ HF Hin).
      * (* EIndex *) rewrite f2he_index in HF. apply andb_prop in HF. destruct HF as [H1 H2].
        rewrite he_index.
        apply hnosig_hbind; [apply IHe; exact H1|]. intros a m1.
        apply hnosig_hbind; [apply IHe; exact H2|]. intros ix m2. apply hnosig_hlift_o.
      * (* EWhile *) rewrite he_while. rewrite f2he_while in HF. apply andb_prop in HF. destruct HF as [Hc _].
        apply IHw; exact Hc.
    + intros c body last names m Hc. rewrite hw_step.
      apply hnosig_hbind; [apply IHe; exact Hc|]. intros b m1.
      destruct b as [|[|]| | | | |]; try exact I.
      destruct (hstmts orc pl f names body VNull m1) eqn:E; try exact I; apply IHw; exact Hc.
    + intros l names last m HF. destruct l as [|s r]; [exact I|].
      rewrite f2hb_cons in HF. apply andb_prop in HF. destruct HF as [Hs Hr].
      destruct s as [x e|e|e|b| |]; try discriminate Hs.
      * rewrite hb_let. cbn [f2hs] in Hs. apply andb_prop in Hs. destruct Hs as [He _].
        apply hnosig_hbind; [apply IHe; exact He|]. intros; apply IHs; exact Hr.
      * rewrite hb_expr. apply hnosig_hbind; [apply IHe; exact Hs|]. intros; apply IHs; exact Hr.
      * rewrite hb_block. rewrite f2hs_block in Hs.
        apply hnosig_hbind; [apply IHs; exact Hs|]. intros; apply IHs; exact Hr.
Qed.

Lemma heval_list_nosig : forall orc pl fuel l names m, f2hl l = true ->
  hnosig (heval_list orc pl fuel names l m).
Proof.
  intros orc pl fuel l names m H. apply hnosig_list. intros e m0 Hin.
  apply (proj1 (heval_nosig orc pl fuel)). exact (f2hl_in _ _ H Hin).
Qed.

(* a block that does not end in a value-leaving statement has the value null *)
Lemma hstmts_no_pop_null : forall orc pl fuel l names last m v m',
  l <> [] -> ends_pop l = false -> hstmts orc pl fuel names l last m = HOk v m' -> v = VNull.
Proof.
  intros orc pl fuel. induction fuel as [|f IH]; intros l names last m v m' Hne Hp H; [discriminate H|].
  destruct l as [|s r]; [contradiction|].
  destruct r as [|s' r'].
  - (* last statement *)
    cbn [ends_pop] in Hp. destruct s as [x e|e|e|b| |]; try discriminate Hp.
    + rewrite hb_let in H. destruct (heval orc pl f (names ++ [x]) e m) as [a m1| | | | |]; try discriminate H.
      cbn [hbind] in H. destruct f; [discriminate H|]. rewrite hb_nil in H. inversion H; reflexivity.
    + cbn [hstmts] in H. destruct f; discriminate H.
    + rewrite hb_block in H. rewrite stmt_pop_block in Hp. destruct b as [|sb rb]; [discriminate Hp|].
      destruct (hstmts orc pl f names (sb :: rb) VNull m) as [a m1| | | | |] eqn:E; try discriminate H.
      cbn [hbind] in H. destruct f; [discriminate H|]. rewrite hb_nil in H. inversion H; subst.
      apply (IH (sb :: rb) names VNull m v m'); [discriminate|exact Hp|exact E].
    + rewrite hb_break in H. discriminate H.
    + rewrite hb_continue in H. discriminate H.
  - assert (ends_pop (s' :: r') = false) as Hp' by exact Hp.
    destruct s as [x e|e|e|b| |].
    + rewrite hb_let in H. destruct (heval orc pl f (names ++ [x]) e m) as [a m1| | | | |]; try discriminate H.
      cbn [hbind] in H. eapply (IH (s' :: r')); [discriminate|exact Hp'|exact H].
    + cbn [hstmts] in H. discriminate H.
    + rewrite hb_expr in H. destruct (heval orc pl f names e m) as [a m1| | | | |]; try discriminate H.
      cbn [hbind] in H. eapply (IH (s' :: r')); [discriminate|exact Hp'|exact H].
    + rewrite hb_block in H. destruct (hstmts orc pl f names b VNull m) as [a m1| | | | |]; try discriminate H.
      cbn [hbind] in H. eapply (IH (s' :: r')); [discriminate|exact Hp'|exact H].
    + rewrite hb_break in H. discriminate H.
    + rewrite hb_continue in H. discriminate H.
Qed.

(** * What a compilation step does to the compiler state *)

(* as part C's `cfacts`, but the pool may grow by any constants *)
Record cfactsh (st st' : cstate) (outer : list (list text)) (cur' : list text) (ce : list Z) (nb : list Z)
  : Prop := mkCFh {
  cfh_syms : exists k', c_symbols st' = stab k' outer cur';
  cfh_code : c_code st' = c_code st ++ ce;
  cfh_consts : exists kx, c_constants st' = c_constants st ++ kx;
  cfh_loops : c_loops st' = add_breaks nb (c_loops st);
  cfh_nbnil : c_loops st = [] -> nb = [];
  cfh_brk : brk_ok (code_len st) nb (code_len st')
}.

Lemma cfactsh_len : forall st st' outer cur ce nb, cfactsh st st' outer cur ce nb ->
  code_len st' = code_len st + zlength ce.
Proof. intros st st' outer cur ce nb H. apply code_len_app. exact (cfh_code _ _ _ _ _ _ H). Qed.

Lemma cfactsh_trans : forall st st1 st2 outer cur1 cur2 ce1 ce2 nb1 nb2,
  cfactsh st st1 outer cur1 ce1 nb1 -> cfactsh st1 st2 outer cur2 ce2 nb2 ->
  cfactsh st st2 outer cur2 (ce1 ++ ce2) (nb1 ++ nb2).
Proof.
  intros st st1 st2 outer cur1 cur2 ce1 ce2 nb1 nb2 [S1 C1 [kx1 K1] L1 N1 B1] [S2 C2 [kx2 K2] L2 N2 B2].
  constructor.
  - exact S2.
  - rewrite C2, C1, app_assoc. reflexivity.
  - exists (kx1 ++ kx2). rewrite K2, K1, app_assoc; reflexivity.
  - rewrite L2, L1. apply add_breaks_add.
  - intros H. rewrite (N1 H). rewrite N2; [reflexivity|]. rewrite L1, H. reflexivity.
  - apply (brk_ok_app nb1 nb2 _ (code_len st1)); assumption.
Qed.

(* a step that only appends bytes *)
Lemma cfactsh_emit : forall st st' outer cur k ce,
  c_symbols st = stab k outer cur -> c_symbols st' = c_symbols st -> c_constants st' = c_constants st ->
  c_loops st' = c_loops st -> c_code st' = c_code st ++ ce -> cfactsh st st' outer cur ce [].
Proof.
  intros st st' outer cur k ce Hs Hs' Hk Hl Hc. constructor.
  - exists k. congruence.
  - exact Hc.
  - exists []. rewrite app_nil_r. exact Hk.
  - rewrite add_breaks_nil. exact Hl.
  - reflexivity.
  - cbn [brk_ok]. rewrite (code_len_app _ _ _ Hc). pose proof (zlength_nonneg _ ce). lia.
Qed.

(** * Simulation statements *)

Section SimH.
  Variable orc : oracle.
  Variable pl : list (const * val).      (* the pool of the final program, with its run-time values *)

  (* the pool of the running program extends the compiler's pool ks *)
  Definition poolok (prog : program) (ks : list const) : Prop := pool_at prog pl ks /\ pool_wf pl.

  Lemma poolok_ext : forall prog c c', (exists kx, c' = c ++ kx) -> poolok prog c' -> poolok prog c.
  Proof. intros prog c c' [kx ->] [H1 H2]. split; [exact (pool_at_ext _ _ _ _ H1)|exact H2]. Qed.

  (* the environment of a piece of code inside the final program *)
  Record envh (prog : program) (st st' : cstate) (ce : list Z) (nb : list Z) (lexit : Z) : Prop := mkEnvh {
    envh_code : code_x prog (code_len st) ce (brk_holes nb);
    envh_pool : poolok prog (c_constants st');
    envh_brk : brk_target prog nb lexit
  }.

  (* the environment of the first of two consecutive pieces *)
  Lemma envh_left : forall prog st st1 st2 outer cur1 cur2 ce1 ce2 nb1 nb2 lexit,
    cfactsh st st1 outer cur1 ce1 nb1 -> cfactsh st1 st2 outer cur2 ce2 nb2 ->
    envh prog st st2 (ce1 ++ ce2) (nb1 ++ nb2) lexit -> envh prog st st1 ce1 nb1 lexit.
  Proof.
    intros prog st st1 st2 outer cur1 cur2 ce1 ce2 nb1 nb2 lexit F1 F2 [E1 E2 E3]. constructor.
    - apply code_x_app in E1. destruct E1 as [E1 _].
      apply (code_x_restrict prog _ ce1 _ _ E1). intros p Hp Hin.
      rewrite brk_holes_app in Hin. apply in_app_or in Hin. destruct Hin as [Hin|Hin]; [exact Hin|].
      pose proof (brk_holes_range _ _ _ _ (cfh_brk _ _ _ _ _ _ F2) Hin) as R.
      rewrite (cfactsh_len _ _ _ _ _ _ F1) in R. lia.
    - apply (poolok_ext prog _ _ (cfh_consts _ _ _ _ _ _ F2)). exact E2.
    - apply (proj1 (brk_target_app _ _ _ _ E3)).
  Qed.

  Lemma envh_right : forall prog st st1 st2 outer cur1 cur2 ce1 ce2 nb1 nb2 lexit,
    cfactsh st st1 outer cur1 ce1 nb1 -> cfactsh st1 st2 outer cur2 ce2 nb2 ->
    envh prog st st2 (ce1 ++ ce2) (nb1 ++ nb2) lexit -> envh prog st1 st2 ce2 nb2 lexit.
  Proof.
    intros prog st st1 st2 outer cur1 cur2 ce1 ce2 nb1 nb2 lexit F1 F2 [E1 E2 E3]. constructor.
    - apply code_x_app in E1. destruct E1 as [_ E1]. rewrite <- (cfactsh_len _ _ _ _ _ _ F1) in E1.
      apply (code_x_restrict prog _ ce2 _ _ E1). intros p Hp Hin.
      rewrite brk_holes_app in Hin. apply in_app_or in Hin. destruct Hin as [Hin|Hin]; [|exact Hin].
      pose proof (brk_holes_range _ _ _ _ (cfh_brk _ _ _ _ _ _ F1) Hin) as R. lia.
    - exact E2.
    - apply (proj2 (brk_target_app _ _ _ _ E3)).
  Qed.

  Definition simh (prog : program) (s : vm) (ip' lstart lexit : Z) (r : hres val) : Prop :=
    match r with
    | HOk v m' => exists fin', reaches orc prog s (seth s (v :: v_stack s) (v_slen s + 1) ip' m' fin')
    | HBrk m' => exists fin', reaches orc prog s (seth s (VNull :: v_stack s) (v_slen s + 1) lexit m' fin')
    | HCnt m' => exists fin', reaches orc prog s (seth s (VNull :: v_stack s) (v_slen s + 1) lstart m' fin')
    | HErr k out => stops orc prog s (Err k) out
    | HFault f out => stops orc prog s (Fault f) out
    | HFuel => True
    end.

  (* statement lists, canonical form: if the list ends in a value-leaving statement, the machine is
     followed up to (not including) the trailing Pop, with the value on the stack *)
  Definition simh_l (prog : program) (s : vm) (pop : bool) (ipend lstart lexit : Z) (r : hres val) : Prop :=
    match r with
    | HOk v m' =>
        if pop then exists fin', reaches orc prog s (seth s (v :: v_stack s) (v_slen s + 1) (ipend - 1) m' fin')
        else exists fin', reaches orc prog s (seth s (v_stack s) (v_slen s) ipend m' fin')
    | HBrk m' => exists fin', reaches orc prog s (seth s (VNull :: v_stack s) (v_slen s + 1) lexit m' fin')
    | HCnt m' => exists fin', reaches orc prog s (seth s (VNull :: v_stack s) (v_slen s + 1) lstart m' fin')
    | HErr k out => stops orc prog s (Err k) out
    | HFault f out => stops orc prog s (Fault f) out
    | HFuel => True
    end.

  (* operands / elements / arguments: the values end up on the stack, last on top *)
  Definition simh_list (prog : program) (s : vm) (ip' : Z) (r : hres (list val)) : Prop :=
    match r with
    | HOk vs m' => exists fin', reaches orc prog s (seth s (rev vs ++ v_stack s) (v_slen s + zlength vs) ip' m' fin')
    | HBrk _ | HCnt _ => False
    | HErr k out => stops orc prog s (Err k) out
    | HFault f out => stops orc prog s (Fault f) out
    | HFuel => True
    end.

  Definition hesim (e : expr) : Prop :=
    forall lp st st' k outer cur, f2he lp e = true -> c_symbols st = stab k outer cur ->
    compile_expression e st = Ok st' ->
    exists ce nb, cfactsh st st' outer cur ce nb /\
      forall prog lexit, envh prog st st' ce nb lexit -> 0 <= lexit < 65536 ->
      0 <= cur_start (c_loops st) ->
      forall fuel s, v_ip s = code_len st ->
      simh prog s (code_len st') (cur_start (c_loops st)) lexit
           (heval orc pl fuel (flat outer cur) e (hst_of s)).

  Definition helsim (l : list expr) : Prop :=
    forall st st' k outer cur, f2hl l = true -> c_symbols st = stab k outer cur ->
    c_exprs l st = Ok st' ->
    exists ce nb, cfactsh st st' outer cur ce nb /\
      forall prog lexit, envh prog st st' ce nb lexit -> 0 <= lexit < 65536 ->
      0 <= cur_start (c_loops st) ->
      forall fuel s, v_ip s = code_len st ->
      simh_list prog s (code_len st') (heval_list orc pl fuel (flat outer cur) l (hst_of s)).

  Definition hlconcl (l : list stmt) (st st' : cstate) (outer : list (list text)) (cur : list text)
             (ce : list Z) (nb : list Z) : Prop :=
    cfactsh st st' outer (cur ++ decl_names l) ce nb /\
    (l <> [] -> last_instruction_is OPop st' = ends_pop l) /\
    (ends_pop l = true -> (exists ce', ce = ce' ++ [byte_of_opcode OPop]) /\
                          brk_ok (code_len st) nb (code_len st' - 1)) /\
    forall prog lexit, envh prog st st' (canon (ends_pop l) ce) nb lexit -> 0 <= lexit < 65536 ->
    0 <= cur_start (c_loops st) ->
    forall fuel s last, v_ip s = code_len st ->
    simh_l prog s (ends_pop l) (code_len st') (cur_start (c_loops st)) lexit
          (hstmts orc pl fuel (flat outer cur) l last (hst_of s)).

  Definition hlsim (l : list stmt) : Prop :=
    forall lp st st' k outer cur, f2hb lp l = true -> c_symbols st = stab k outer cur ->
    compile_statements l st = Ok st' ->
    exists ce nb, hlconcl l st st' outer cur ce nb.

  (* the step property of one statement in front of a list *)
  Definition hssim (s0 : stmt) : Prop := forall r, hlsim r -> hlsim (s0 :: r).

  (** ** Small helpers *)

  Lemma f2he_infix : forall lp l o r, f2he lp (EInfix l o r) = is_binop o && f2he false l && f2he false r.
  Proof. reflexivity. Qed.
  Lemma f2he_prefix : forall lp o r, f2he lp (EPrefix o r) = is_prefix_op o && f2he false r.
  Proof. reflexivity. Qed.
  Lemma f2he_assign : forall lp x r, f2he lp (EAssign (EIdent x) r) = f2he false r.
  Proof. reflexivity. Qed.

  Lemma cfactsh_emit_sym : forall op sy st st' outer cur k, c_symbols st = stab k outer cur ->
    emit_sym op sy st = Ok st' ->
    0 <= Z.of_nat (s_index sy) < 65536 /\
    cfactsh st st' outer cur [byte_of_opcode op; Z.of_nat (s_index sy) mod 256; (Z.of_nat (s_index sy) / 256) mod 256] [].
  Proof.
    intros op sy st st' outer cur k Hs H. pose proof (emit_sym_loops _ _ _ _ H) as Hl.
    destruct (emit_sym_spec _ _ _ _ H) as [Hsy [Hk [Hr Hcode]]]. split; [exact Hr|].
    apply (cfactsh_emit _ _ outer cur k); auto.
  Qed.

  Lemma cfactsh_emit_opcode : forall op st outer cur k, c_symbols st = stab k outer cur ->
    cfactsh st (emit_opcode op st) outer cur [byte_of_opcode op] [].
  Proof. intros. apply (cfactsh_emit _ _ outer cur k); auto. Qed.

  (* a literal: three bytes and possibly one new constant *)
  Lemma cfactsh_emit_const : forall c st0 st st' outer cur k,
    c_symbols st = stab k outer cur -> c_symbols st0 = c_symbols st -> c_code st0 = c_code st ->
    c_constants st0 = c_constants st -> c_loops st0 = c_loops st ->
    emit_const c st0 = Ok st' ->
    exists idx kx,
      cfactsh st st' outer cur [byte_of_opcode OConst; idx mod 256; (idx / 256) mod 256] [] /\
      c_constants st' = c_constants st ++ kx /\ 0 <= idx < 65536 /\
      (const_position c (c_constants st) = Some (Z.to_nat idx) \/
       (const_position c (c_constants st) = None /\ kx = [c] /\ Z.to_nat idx = length (c_constants st))).
  Proof.
    intros c st0 st st' outer cur k Hs Hs0 Hc0 Hk0 Hl0 H.
    destruct (emit_const_spec c st0 st' H) as [Hsy [Hl [idx [kx [Hcode [Hk [_ [Hr Hpos]]]]]]]].
    exists idx, kx. rewrite Hk0 in Hk, Hpos. split; [|split; [exact Hk|split; [exact Hr|exact Hpos]]].
    constructor.
    - exists k. congruence.
    - rewrite Hcode, Hc0. reflexivity.
    - exists kx. exact Hk.
    - rewrite add_breaks_nil. congruence.
    - reflexivity.
    - cbn [brk_ok]. unfold code_len. rewrite Hcode, Hc0, zlength_app. rewrite zlength3. lia.
  Qed.
  (** ** Literals and variables *)

  Lemma hesim_int : forall z, hesim (EInt z).
  Proof.
    intros z lp st st' k outer cur HF Hs Hc. rewrite ce_int in Hc.
    destruct (cfactsh_emit_const (KInt z) st st st' outer cur k Hs eq_refl eq_refl eq_refl eq_refl Hc)
      as [idx [kx [CF [Hk [Hr Hpos]]]]].
    eexists; exists []. split; [exact CF|].
    intros prog lexit [E1 [E2 E2w] _] _ _ fuel s Hip. destruct fuel as [|f]; [exact I|].
    rewrite he_int. cbn [simh]. exists (v_final s). apply reaches_step.
    rewrite <- Hip in E1. pose proof (code_x_at3 _ _ _ _ _ _ _ E1 (holes_free_nil _ _)) as Hat.
    rewrite Hk in E2.
    destruct (pool_find_emitted prog pl (KInt z) st idx kx E2 (const_eqb_int_refl z) Hpos) as [Hfind Hlt].
    destruct (nth_error (p_consts prog) (Z.to_nat idx)) as [v|] eqn:En; [|apply nth_error_None in En; lia].
    rewrite (pool_find_int pl z v E2w Hfind) in En.
    rewrite (hstep_const_int orc prog s idx z [] Hat Hr En). rewrite sethm_seth.
    f_equal. f_equal. apply seth_eq; [reflexivity|]. rewrite (cfactsh_len _ _ _ _ _ _ CF), zlength3, Hip. reflexivity.
  Qed.

  (* float and string literals: the constant the compiler registered, found again by lookup *)
  Lemma hesim_lit : forall e c, (forall st, compile_expression e st = emit_const c (count_alloc st)) ->
    const_eqb c c = true ->
    (forall f names m, heval orc pl (S f) names e m = h_lit pl c m) -> hesim e.
  Proof.
    intros e c Hce Hrefl Hev lp st st' k outer cur HF Hs Hc. rewrite Hce in Hc.
    destruct (cfactsh_emit_const c (count_alloc st) st st' outer cur k Hs eq_refl eq_refl eq_refl eq_refl Hc)
      as [idx [kx [CF [Hk [Hr Hpos]]]]].
    eexists; exists []. split; [exact CF|].
    intros prog lexit [E1 [E2 E2w] _] _ _ fuel s Hip. destruct fuel as [|f]; [exact I|].
    rewrite Hev. unfold h_lit.
    rewrite <- Hip in E1. pose proof (code_x_at3 _ _ _ _ _ _ _ E1 (holes_free_nil _ _)) as Hat.
    rewrite Hk in E2.
    destruct (pool_find_emitted prog pl c st idx kx E2 Hrefl Hpos) as [Hfind Hlt].
    destruct (nth_error (p_consts prog) (Z.to_nat idx)) as [v|] eqn:En; [|apply nth_error_None in En; lia].
    rewrite Hfind.
    pose proof (hstep_const orc prog s idx v [] Hat Hr En) as Hstep.
    assert (code_len st' = v_ip s + 3) as L by (rewrite (cfactsh_len _ _ _ _ _ _ CF), zlength3, Hip; reflexivity).
    destruct (h_const (hst_of s) v) as [[x m']| | |]; cbn [stepped hlift_o simh fst snd] in *.
    - exists (v_final s). apply reaches_step. rewrite Hstep, sethm_seth, L. reflexivity.
    - apply (stops_now orc prog s _ Hstep).
    - apply (stops_now orc prog s _ Hstep).
    - exact I.
  Qed.

  Lemma hesim_float : forall x, hesim (EFloat x).
  Proof.
    intros x lp st st' k outer cur HF. revert lp st st' k outer cur HF.
    intros lp st st' k outer cur HF.
    apply (hesim_lit (EFloat x) (KFloat x) (ce_float x) HF (fun f names m => he_float orc pl f names x m) lp st st' k outer cur HF).
  Qed.

  Lemma hesim_string : forall t, hesim (EString t).
  Proof.
    exact (fun t => hesim_lit (EString t) (KStr t) (ce_string t) (const_eqb_str_refl t)
                              (fun f names m => he_string orc pl f names t m)).
  Qed.

  Lemma hesim_bool : forall b, hesim (EBool b).
  Proof.
    intros b lp st st' k outer cur HF Hs Hc. rewrite ce_bool in Hc. inversion Hc; subst st'; clear Hc.
    exists [byte_of_opcode (if b then OTrue else OFalse)], [].
    split; [apply (cfactsh_emit _ _ outer cur k); auto|].
    intros prog lexit [E1 _ _] _ _ fuel s Hip. destruct fuel as [|f]; [exact I|].
    rewrite he_bool. cbn [simh]. exists (v_final s). apply reaches_step.
    rewrite <- Hip in E1. pose proof (code_x_at1 _ _ _ _ _ E1 (fun x => x)) as Hat.
    rewrite (hstep_bool orc prog s b [] Hat). rewrite sethm_seth.
    f_equal. f_equal. apply seth_eq; [reflexivity|]. rewrite code_len_emit_opcode, Hip. reflexivity.
  Qed.

  Lemma hesim_ident : forall x, hesim (EIdent x).
  Proof.
    intros x lp st st' k outer cur HF Hs Hc. rewrite ce_ident, Hs, resolve_stab in Hc.
    destruct (rposition x (flat outer cur)) as [i|] eqn:Er; cbn [option_map] in Hc; [|discriminate Hc].
    unfold scoped in Hc. cbn [s_scope] in Hc.
    pose proof (emit_sym_loops _ _ _ _ Hc) as Hl.
    destruct (emit_sym_spec _ _ _ _ Hc) as [Hsy [Hk [Hr Hcode]]]. cbn [s_index] in Hr, Hcode.
    eexists; exists []. split; [apply (cfactsh_emit _ _ outer cur k); eauto|].
    intros prog lexit [E1 _ _] _ _ fuel s Hip. destruct fuel as [|f]; [exact I|].
    rewrite he_ident, Er. cbn [simh]. exists (v_final s). apply reaches_step.
    rewrite <- Hip in E1. pose proof (code_x_at3 _ _ _ _ _ _ _ E1 (holes_free_nil _ _)) as Hat.
    rewrite (hstep_get_global orc prog s _ [] Hat Hr). rewrite Nat2Z.id, sethm_seth.
    f_equal. f_equal. apply seth_eq; [reflexivity|]. rewrite (code_len_app _ _ _ Hcode), zlength3, Hip. reflexivity.
  Qed.
  (** ** Assignment, prefix and infix operators *)

  Ltac hnosig_contra f e names m HF E :=
    let N := fresh "N" in
    pose proof (proj1 (heval_nosig orc pl f) e names m HF) as N; rewrite E in N; destruct N.

  Lemma hesim_assign : forall x r, hesim r -> hesim (EAssign (EIdent x) r).
  Proof.
    intros x r IHr lp st st' k outer cur HF Hs Hc. rewrite f2he_assign in HF.
    rewrite ce_assign_ident, Hs, resolve_stab in Hc.
    destruct (rposition x (flat outer cur)) as [i|] eqn:Er; cbn [option_map] in Hc; [|discriminate Hc].
    apply bind_ok in Hc. destruct Hc as [st1 [H1 Hc]]. apply bind_ok in Hc. destruct Hc as [st2 [H2 H3]].
    unfold scoped in H2, H3. cbn [s_scope] in H2, H3.
    destruct (IHr false st st1 k outer cur HF Hs H1) as [ce1 [nb1 [CF1 Hsim1]]].
    destruct (cfh_syms _ _ _ _ _ _ CF1) as [k1 Hs1].
    destruct (cfactsh_emit_sym _ _ _ _ outer cur k1 Hs1 H2) as [Hr CF2]. cbn [s_index] in Hr, CF2.
    destruct (cfh_syms _ _ _ _ _ _ CF2) as [k2 Hs2].
    destruct (cfactsh_emit_sym _ _ _ _ outer cur k2 Hs2 H3) as [_ CF3]. cbn [s_index] in CF3.
    pose proof (cfactsh_trans _ _ _ _ _ _ _ _ _ _ CF2 CF3) as CF23.
    pose proof (cfactsh_trans _ _ _ _ _ _ _ _ _ _ CF1 CF23) as CF.
    eexists; eexists. split; [exact CF|].
    intros prog lexit E Hle Hst fuel s Hip. destruct fuel as [|f]; [exact I|].
    rewrite he_assign, Er.
    pose proof (envh_left _ _ _ _ _ _ _ _ _ _ _ _ CF1 CF23 E) as EL.
    pose proof (envh_right _ _ _ _ _ _ _ _ _ _ _ _ CF1 CF23 E) as ER.
    specialize (Hsim1 prog lexit EL Hle Hst f s Hip).
    destruct (heval orc pl f (flat outer cur) r (hst_of s)) as [a m1|m1|m1|e eo|y yo|] eqn:E1; cbn [hbind];
      try exact Hsim1; try (hnosig_contra f r (flat outer cur) (hst_of s) HF E1).
    cbn [simh] in *. destruct Hsim1 as [fin1 Hsim1].
    set (sa := seth s (a :: v_stack s) (v_slen s + 1) (code_len st1) m1 fin1) in *.
    exists fin1. apply (reaches_trans orc prog s sa _ Hsim1).
    destruct ER as [ERc _ _]. cbn [app brk_holes flat_map] in ERc.
    pose proof (cfactsh_len _ _ _ _ _ _ CF2) as L2. pose proof (cfactsh_len _ _ _ _ _ _ CF3) as L3.
    rewrite zlength3 in L2, L3.
    set (idx := Z.of_nat i) in *.
    pose proof (code_x_at3 _ _ _ _ _ _ _ ERc (holes_free_nil _ _)) as Hat1.
    pose proof (hstep_set_global orc prog sa idx a (v_stack s) [] Hat1 Hr eq_refl) as Hstep1.
    apply (reaches_trans orc prog sa _ _ (reaches_step orc prog _ _ Hstep1)).
    set (sb := sethm sa (v_stack s) (v_slen sa - 1) (v_ip sa + 3) (set_global_h (Z.to_nat idx) a (hst_of sa))) in *.
    change ([byte_of_opcode OSetGlobal; idx mod 256; (idx / 256) mod 256; byte_of_opcode OGetGlobal;
             idx mod 256; (idx / 256) mod 256])
      with ([byte_of_opcode OSetGlobal; idx mod 256; (idx / 256) mod 256] ++
            [byte_of_opcode OGetGlobal; idx mod 256; (idx / 256) mod 256]) in ERc.
    apply code_x_app in ERc. destruct ERc as [_ ERc]. rewrite zlength3 in ERc.
    pose proof (code_x_at3 _ _ _ _ _ _ _ ERc (holes_free_nil _ _)) as Hat2.
    assert (v_ip sb = code_len st1 + 3) as Hipb by reflexivity. rewrite <- Hipb in Hat2.
    pose proof (hstep_get_global orc prog sb idx [] Hat2 Hr) as Hstep2.
    apply reaches_step. rewrite Hstep2. f_equal. f_equal.
    subst sb sa idx. unfold sethm, seth, hst_of, set_global_h. vmcbnh. rewrite Nat2Z.id, nth_set_global_same.
    f_equal; lia.
  Qed.


  Lemma hconst_var_infix_global : forall name v op st st1 done k outer cur,
    c_symbols st = stab k outer cur ->
    compile_const_var_infix name v op st = (st1, done) ->
    done = false /\ cfactsh st st1 outer cur [] [].
  Proof.
    intros name v op st st1 done k outer cur Hs H.
    assert (gtab (c_symbols st)) as Hg by (rewrite Hs; apply gtab_stab).
    destruct (const_var_infix_global _ _ _ _ _ _ Hg H) as [-> [Hs1 [Hc1 [kx [Hk Hf]]]]].
    split; [reflexivity|].
    assert (c_loops st1 = c_loops st) as Hl.
    { unfold compile_const_var_infix in H. destruct (add_constant (KInt v) st) as [st0 r] eqn:E.
      pose proof (add_constant_loops _ _ _ _ E) as L0.
      destruct r as [idx| | |]; try (inversion H; subst; exact L0).
      destruct (resolve (c_symbols st0) name) as [sy|]; [|inversion H; subst; exact L0].
      destruct (s_scope sy); [|inversion H; subst; exact L0].
      destruct (assoc operator_eqb op fused_table); [|inversion H; subst; exact L0].
      destruct (operand 16 (Z.of_nat (s_index sy))); inversion H; subst; exact L0. }
    constructor.
    - exists k. congruence.
    - rewrite app_nil_r. exact Hc1.
    - exists kx. auto.
    - rewrite add_breaks_nil. exact Hl.
    - reflexivity.
    - cbn [brk_ok]. unfold code_len. rewrite Hc1. lia.
  Qed.

  Lemma hesim_prefix : forall op r, hesim r -> hesim (EPrefix op r).
  Proof.
    intros op r IHr lp st st' k outer cur HF Hs Hc. rewrite f2he_prefix in HF.
    apply andb_prop in HF. destruct HF as [Hop HF].
    rewrite ce_prefix in Hc. apply bind_ok in Hc. destruct Hc as [st1 [H1 Hc]].
    destruct (IHr false st st1 k outer cur HF Hs H1) as [ce1 [nb1 [CF1 Hsim1]]].
    destruct (cfh_syms _ _ _ _ _ _ CF1) as [k1 Hs1].
    assert (exists opc, st' = emit_opcode opc st1 /\
              ((opc = ONot /\ op = OpNot) \/ (opc = ONegate /\ (op = OpSubtract \/ op = OpNegate)))) as [opc [-> Hopc]].
    { destruct op; try discriminate Hop; inversion Hc; eexists; split; try reflexivity; tauto. }
    clear Hc. pose proof (cfactsh_emit_opcode opc st1 outer cur k1 Hs1) as CF2.
    pose proof (cfactsh_trans _ _ _ _ _ _ _ _ _ _ CF1 CF2) as CF.
    eexists; eexists. split; [exact CF|].
    intros prog lexit E Hle Hst fuel s Hip. destruct fuel as [|f]; [exact I|].
    rewrite he_prefix.
    pose proof (envh_left _ _ _ _ _ _ _ _ _ _ _ _ CF1 CF2 E) as EL.
    pose proof (envh_right _ _ _ _ _ _ _ _ _ _ _ _ CF1 CF2 E) as ER.
    specialize (Hsim1 prog lexit EL Hle Hst f s Hip).
    destruct (heval orc pl f (flat outer cur) r (hst_of s)) as [a m1|m1|m1|e eo|y yo|] eqn:E1; cbn [hbind];
      try exact Hsim1; try (hnosig_contra f r (flat outer cur) (hst_of s) HF E1).
    cbn [simh] in Hsim1. destruct Hsim1 as [fin1 Hsim1].
    set (sa := seth s (a :: v_stack s) (v_slen s + 1) (code_len st1) m1 fin1) in *.
    destruct ER as [ERc _ _]. cbn [brk_holes flat_map] in ERc.
    pose proof (code_x_at1 _ _ _ _ _ ERc (fun x => x)) as Hat.
    pose proof (code_len_emit_opcode opc st1) as L3.
    destruct Hopc as [[-> ->]|[-> Hop2]].
    - pose proof (hstep_not orc prog sa a (v_stack s) [] Hat eq_refl) as Hstep.
      destruct (lognot a) as [x| | |]; cbn [stepped lift_p bind] in Hstep; cbn [hlift_p simh].
      + exists fin1. apply (reaches_trans orc prog s sa _ Hsim1). apply reaches_step. rewrite Hstep.
        f_equal. f_equal. subst sa. unfold sethm, seth, hst_of. vmcbnh. rewrite L3. f_equal; lia.
      + apply (reaches_stops orc prog s sa _ _ Hsim1). apply (stops_now orc prog sa _ Hstep).
      + apply (reaches_stops orc prog s sa _ _ Hsim1). apply (stops_now orc prog sa _ Hstep).
      + exact I.
    - pose proof (hstep_negate orc prog sa a (v_stack s) [] Hat eq_refl) as Hstep.
      change (v_heap sa) with (hs_heap m1) in Hstep.
      assert (match op with
              | OpNegate | OpSubtract => hlift_h m1 (negate (hs_heap m1) a)
              | OpNot => hlift_p m1 (lognot a)
              | _ => HErr ETypeError (hs_out m1)
              end = hlift_h m1 (negate (hs_heap m1) a)) as ->.
      { destruct Hop2 as [-> | ->]; reflexivity. }
      destruct (negate (hs_heap m1) a) as [x| | |]; cbn [stepped lift_h bind] in Hstep; cbn [hlift_h simh].
      + exists fin1. apply (reaches_trans orc prog s sa _ Hsim1). apply reaches_step. rewrite Hstep.
        f_equal. f_equal. subst sa. unfold sethm, seth, hst_of. vmcbnh. rewrite ?hst_eta, L3. f_equal; lia.
      + apply (reaches_stops orc prog s sa _ _ Hsim1). apply (stops_now orc prog sa _ Hstep).
      + apply (reaches_stops orc prog s sa _ _ Hsim1). apply (stops_now orc prog sa _ Hstep).
      + exact I.
  Qed.

  Lemma hgeneric_infix_sim : forall l op r, hesim l -> hesim r -> is_binop op = true ->
    f2he false l = true -> f2he false r = true ->
    forall st st' k outer cur, c_symbols st = stab k outer cur ->
    generic_infix l op r st = Ok st' ->
    exists ce nb, cfactsh st st' outer cur ce nb /\
      forall prog lexit, envh prog st st' ce nb lexit -> 0 <= lexit < 65536 ->
      0 <= cur_start (c_loops st) ->
      forall fuel s, v_ip s = code_len st ->
      simh prog s (code_len st') (cur_start (c_loops st)) lexit
           (heval orc pl fuel (flat outer cur) (EInfix l op r) (hst_of s)).
  Proof.
    intros l op r IHl IHr Hop Hl Hr st st' k outer cur Hs Hc. unfold generic_infix in Hc.
    apply bind_ok in Hc. destruct Hc as [st1 [H1 Hc]]. apply bind_ok in Hc. destruct Hc as [st2 [H2 Hc]].
    destruct (assoc operator_eqb op compile_operator_table) as [opc|] eqn:Eopc; [|discriminate Hc].
    inversion Hc; subst st'; clear Hc.
    destruct (binop_chain op opc Hop Eopc) as [mth [Hmth Hmeth]].
    destruct (IHl false st st1 k outer cur Hl Hs H1) as [ce1 [nb1 [CF1 Hsim1]]].
    destruct (cfh_syms _ _ _ _ _ _ CF1) as [k1 Hs1].
    destruct (IHr false st1 st2 k1 outer cur Hr Hs1 H2) as [ce2 [nb2 [CF2 Hsim2]]].
    destruct (cfh_syms _ _ _ _ _ _ CF2) as [k2 Hs2].
    pose proof (cfactsh_emit_opcode opc st2 outer cur k2 Hs2) as CF3.
    pose proof (cfactsh_trans _ _ _ _ _ _ _ _ _ _ CF2 CF3) as CF23.
    pose proof (cfactsh_trans _ _ _ _ _ _ _ _ _ _ CF1 CF23) as CF.
    eexists; eexists. split; [exact CF|].
    intros prog lexit E Hle Hst fuel s Hip. destruct fuel as [|f]; [exact I|].
    rewrite he_infix, Hmeth.
    pose proof (envh_left _ _ _ _ _ _ _ _ _ _ _ _ CF1 CF23 E) as EL.
    pose proof (envh_right _ _ _ _ _ _ _ _ _ _ _ _ CF1 CF23 E) as ER.
    pose proof (envh_left _ _ _ _ _ _ _ _ _ _ _ _ CF2 CF3 ER) as ERL.
    pose proof (envh_right _ _ _ _ _ _ _ _ _ _ _ _ CF2 CF3 ER) as ERR.
    specialize (Hsim1 prog lexit EL Hle Hst f s Hip).
    destruct (heval orc pl f (flat outer cur) l (hst_of s)) as [a m1|m1|m1|e eo|y yo|] eqn:E1; cbn [hbind];
      try exact Hsim1; try (hnosig_contra f l (flat outer cur) (hst_of s) Hl E1).
    cbn [simh] in Hsim1. destruct Hsim1 as [fin1 Hsim1].
    set (sa := seth s (a :: v_stack s) (v_slen s + 1) (code_len st1) m1 fin1) in *.
    assert (0 <= cur_start (c_loops st1)) as Hst1.
    { rewrite (cfh_loops _ _ _ _ _ _ CF1), cur_start_add. exact Hst. }
    specialize (Hsim2 prog lexit ERL Hle Hst1 f sa eq_refl).
    rewrite (cfh_loops _ _ _ _ _ _ CF1), cur_start_add in Hsim2.
    unfold sa in Hsim2 at 2. rewrite hst_of_seth in Hsim2.
    destruct (heval orc pl f (flat outer cur) r m1) as [b m2|m2|m2|e eo|y yo|] eqn:E2; cbn [hbind];
      try (hnosig_contra f r (flat outer cur) m1 Hr E2);
      try (cbn [simh] in *; apply (reaches_stops orc prog s sa _ _ Hsim1); exact Hsim2); try exact I.
    cbn [simh] in Hsim2. destruct Hsim2 as [fin2 Hsim2].
    set (sb := seth sa (b :: v_stack sa) (v_slen sa + 1) (code_len st2) m2 fin2) in *.
    destruct ERR as [ERc _ _]. cbn [brk_holes flat_map] in ERc.
    pose proof (code_x_at1 _ _ _ _ _ ERc (fun x => x)) as Hat.
    pose proof (code_len_emit_opcode opc st2) as L3.
    pose proof (hstep_binary orc prog sb opc mth a b (v_stack s) [] Hat Hmth eq_refl) as Hstep.
    change (v_heap sb) with (hs_heap m2) in Hstep.
    destruct (binop orc mth (hs_heap m2) a b) as [x| | |]; cbn [stepped lift_h bind] in Hstep; cbn [hlift_h simh].
    - exists fin2. apply (reaches_trans orc prog s sa _ Hsim1). apply (reaches_trans orc prog sa sb _ Hsim2).
      apply reaches_step. rewrite Hstep. f_equal. f_equal. subst sb sa. unfold sethm, seth, hst_of. vmcbnh.
      rewrite ?hst_eta, L3. f_equal; lia.
    - apply (reaches_stops orc prog s sa _ _ Hsim1). apply (reaches_stops orc prog sa sb _ _ Hsim2).
      apply (stops_now orc prog sb _ Hstep).
    - apply (reaches_stops orc prog s sa _ _ Hsim1). apply (reaches_stops orc prog sa sb _ _ Hsim2).
      apply (stops_now orc prog sb _ Hstep).
    - exact I.
  Qed.

  Lemma cfactsh_pre_nil : forall st st0 st' outer cur ce nb,
    cfactsh st st0 outer cur [] [] -> cfactsh st0 st' outer cur ce nb -> cfactsh st st' outer cur ce nb.
  Proof. intros st st0 st' outer cur ce nb F0 F. exact (cfactsh_trans _ _ _ _ _ _ _ _ _ _ F0 F). Qed.

  Lemma hesim_infix : forall l op r, hesim l -> hesim r -> hesim (EInfix l op r).
  Proof.
    intros l op r IHl IHr lp st st' k outer cur HF Hs Hc. rewrite f2he_infix in HF.
    apply andb_prop in HF. destruct HF as [HF Hr]. apply andb_prop in HF. destruct HF as [Hop Hl].
    rewrite ce_infix in Hc.
    destruct (fused_candidate l r op) as [[[name v] op']|] eqn:Ef.
    - destruct (compile_const_var_infix name v op' st) as [st0 done] eqn:Ec.
      destruct (hconst_var_infix_global _ _ _ _ _ _ k outer cur Hs Ec) as [-> CF0].
      destruct (cfh_syms _ _ _ _ _ _ CF0) as [k0 Hs0].
      destruct (hgeneric_infix_sim l op r IHl IHr Hop Hl Hr st0 st' k0 outer cur Hs0 Hc) as [ce [nb [CF Hsim]]].
      exists ce, nb. split; [exact (cfactsh_pre_nil _ _ _ _ _ _ _ CF0 CF)|].
      pose proof (cfactsh_len _ _ _ _ _ _ CF0) as L0. change (zlength []) with 0 in L0. rewrite Z.add_0_r in L0.
      pose proof (cfh_loops _ _ _ _ _ _ CF0) as Ll0. rewrite add_breaks_nil in Ll0.
      intros prog lexit [E1 E2 E3] Hle Hst fuel s Hip.
      rewrite <- Ll0, <- L0 in *. apply Hsim; try assumption. constructor; assumption.
    - exact (hgeneric_infix_sim l op r IHl IHr Hop Hl Hr st st' k outer cur Hs Hc).
  Qed.


  (** ** compile_block_value *)

  Lemma code_len_remove_last : forall st ce', c_code st = ce' ++ [byte_of_opcode OPop] ->
    c_code (remove_last_instruction st) = ce' /\ code_len (remove_last_instruction st) = code_len st - 1.
  Proof.
    intros st ce' H. unfold remove_last_instruction, code_len. cbn [c_code]. rewrite H, removelast_last.
    split; [reflexivity|]. rewrite zlength_app. change (zlength [byte_of_opcode OPop]) with 1. lia.
  Qed.

  Lemma hbv_sim : forall b, hlsim b ->
    forall lp st st' k outer cur, f2hb lp b = true -> c_symbols st = stab k outer cur ->
    c_block_value b st = Ok st' ->
    exists ce nb, cfactsh st st' outer cur ce nb /\
      forall prog lexit, envh prog st st' ce nb lexit -> 0 <= lexit < 65536 ->
      0 <= cur_start (c_loops st) ->
      forall fuel s, v_ip s = code_len st ->
      simh prog s (code_len st') (cur_start (c_loops st)) lexit
           (hstmts orc pl fuel (flat outer cur) b VNull (hst_of s)).
  Proof.
    intros b IHb lp st st' k outer cur HF Hs Hc. unfold c_block_value, c_block_statement in Hc.
    destruct b as [|s0 r].
    - (* the empty block: Null *)
      cbn [is_nil bind] in Hc. inversion Hc; subst st'; clear Hc.
      exists [byte_of_opcode ONull], []. split; [apply (cfactsh_emit_opcode ONull st outer cur k Hs)|].
      intros prog lexit [E1 _ _] _ _ fuel s Hip. destruct fuel as [|f]; [exact I|].
      rewrite hb_nil. cbn [simh]. exists (v_final s). apply reaches_step.
      rewrite <- Hip in E1. pose proof (code_x_at1 _ _ _ _ _ E1 (fun x => x)) as Hat.
      rewrite (hstep_null orc prog s [] Hat), sethm_seth. f_equal. f_equal.
      apply seth_eq; [reflexivity|]. rewrite code_len_emit_opcode, Hip. reflexivity.
    - cbn [is_nil] in Hc. apply bind_ok in Hc. destruct Hc as [st1' [Hc1 Hc]].
      apply bind_ok in Hc1. destruct Hc1 as [st1 [Hc1 Hc1']]. inversion Hc1'; subst st1'; clear Hc1'.
      set (st0 := set_symbols st (enter_scope (c_symbols st))) in *.
      assert (c_symbols st0 = stab k (outer ++ [cur]) []) as Hs0 by (unfold st0; cbn [set_symbols c_symbols]; rewrite Hs; reflexivity).
      destruct (IHb lp st0 st1 k (outer ++ [cur]) [] HF Hs0 Hc1) as [ce [nb [CFb [Hlast [Hpop Hsim]]]]].
      destruct CFb as [[k1 S1] C1 K1 L1 N1 B1].
      cbn [app] in S1.
      set (st1' := set_symbols st1 (leave_scope (c_symbols st1))) in *.
      assert (c_symbols st1' = stab k1 outer cur) as Hs1'.
      { unfold st1'. cbn [set_symbols c_symbols]. rewrite S1. apply leave_stab. }
      assert (last_instruction_is OPop st1' = ends_pop (s0 :: r)) as Hlast'.
      { rewrite <- Hlast by discriminate. reflexivity. }
      rewrite Hlast' in Hc.
      change (c_code st0) with (c_code st) in C1. change (c_constants st0) with (c_constants st) in K1.
      change (c_loops st0) with (c_loops st) in L1, N1. change (code_len st0) with (code_len st) in B1.
      destruct (ends_pop (s0 :: r)) eqn:Ep.
      + (* the trailing Pop is removed *)
        inversion Hc; subst st'; clear Hc.
        destruct (Hpop eq_refl) as [[ce' Hce'] Bp].
        assert (c_code st1' = (c_code st ++ ce') ++ [byte_of_opcode OPop]) as Hcode1.
        { unfold st1'. cbn [set_symbols c_code]. rewrite C1, Hce', app_assoc. reflexivity. }
        destruct (code_len_remove_last st1' _ Hcode1) as [Hcode' Hlen'].
        change (code_len st1') with (code_len st1) in Hlen'.
        change (code_len st0) with (code_len st) in Bp.
        exists ce', nb. split.
        * constructor.
          -- exists k1. exact Hs1'.
          -- exact Hcode'.
          -- exact K1.
          -- exact L1.
          -- exact N1.
          -- rewrite Hlen'. exact Bp.
        * intros prog lexit [E1 E2 E3] Hle Hst fuel s Hip.
          assert (envh prog st0 st1 (canon true ce) nb lexit) as E0.
          { constructor; [|exact E2|exact E3]. unfold canon. rewrite Hce', removelast_last. exact E1. }
          specialize (Hsim prog lexit E0 Hle Hst fuel s VNull Hip).
          rewrite flat_enter in Hsim. rewrite Hlen'.
          destruct (hstmts orc pl fuel (flat outer cur) (s0 :: r) VNull (hst_of s)); exact Hsim.
      + (* no value on the stack: Null *)
        inversion Hc; subst st'; clear Hc.
        assert (cfactsh st st1' outer cur ce nb) as CF1.
        { constructor; try assumption. exists k1. exact Hs1'. }
        pose proof (cfactsh_emit_opcode ONull st1' outer cur k1 Hs1') as CF2.
        pose proof (cfactsh_trans _ _ _ _ _ _ _ _ _ _ CF1 CF2) as CF.
        eexists; eexists. split; [exact CF|].
        intros prog lexit E Hle Hst fuel s Hip.
        pose proof (envh_left _ _ _ _ _ _ _ _ _ _ _ _ CF1 CF2 E) as [EL1 EL2 EL3].
        pose proof (envh_right _ _ _ _ _ _ _ _ _ _ _ _ CF1 CF2 E) as [ERc _ _].
        assert (envh prog st0 st1 (canon false ce) nb lexit) as E0 by (constructor; assumption).
        specialize (Hsim prog lexit E0 Hle Hst fuel s VNull Hip).
        rewrite flat_enter in Hsim.
        destruct (hstmts orc pl fuel (flat outer cur) (s0 :: r) VNull (hst_of s)) as [v m'|m'|m'|e eo|y yo|] eqn:Ex;
          try exact Hsim.
        cbn [simh_l simh] in *. destruct Hsim as [fin1 Hsim].
        assert (v = VNull) as -> by (apply (hstmts_no_pop_null orc pl fuel (s0 :: r) _ _ _ _ _ ltac:(discriminate) Ep Ex)).
        set (sa := seth s (v_stack s) (v_slen s) (code_len st1) m' fin1) in *.
        exists fin1. apply (reaches_trans orc prog s sa _ Hsim). apply reaches_step.
        cbn [brk_holes flat_map] in ERc.
        pose proof (code_x_at1 _ _ _ _ _ ERc (fun x => x)) as Hat.
        change (code_len st1') with (v_ip sa) in Hat.
        rewrite (hstep_null orc prog sa [] Hat). f_equal. f_equal.
        subst sa. unfold sethm, seth, hst_of. vmcbnh. rewrite code_len_emit_opcode. reflexivity.
  Qed.


  (** ** Patches and splitting the environment *)

  Lemma replace_nth_app2 : forall A (a b : list A) j v,
    replace_nth (length a + j) v (a ++ b) = a ++ replace_nth j v b.
  Proof. intros A a b j v. induction a as [|x a IH]; cbn [length app replace_nth Nat.add]; [reflexivity|]. rewrite IH. reflexivity. Qed.

  Lemma patch_operand : forall (a : list Z) x y z b v1 v2,
    replace_nth (length a + 2) v2 (replace_nth (length a + 1) v1 (a ++ x :: y :: z :: b))
    = a ++ x :: v1 :: v2 :: b.
  Proof. intros. rewrite !replace_nth_app2. reflexivity. Qed.

  Lemma cfactsh_patch_at : forall stA stB stC outer cur pre x y z rest nb v,
    cfactsh stA stB outer cur (pre ++ x :: y :: z :: rest) nb ->
    change_jump_operand_at (code_len stA + zlength pre) v stB = Ok stC ->
    cfactsh stA stC outer cur (pre ++ x :: v mod 256 :: (v / 256) mod 256 :: rest) nb /\
    code_len stC = code_len stB /\ c_last stC = c_last stB.
  Proof.
    intros stA stB stC outer cur pre x y z rest nb v [S C K L N B] H.
    assert (0 <= code_len stA + zlength pre) as Hpos.
    { pose proof (code_len_nonneg stA). pose proof (zlength_nonneg _ pre). lia. }
    destruct (change_jump_spec _ _ _ _ Hpos H) as [A1 [A2 [A3 [A4 [_ [A6 [_ A8]]]]]]].
    pose proof (code_len_length _ _ A6) as Hlen. split; [|split; [exact Hlen|exact A4]].
    constructor.
    - destruct S as [k' S]. exists k'. congruence.
    - rewrite A8, C. unfold code_len, zlength.
      replace (Z.to_nat (Z.of_nat (length (c_code stA)) + Z.of_nat (length pre))) with (length (c_code stA ++ pre))
        by (rewrite app_length; lia).
      rewrite app_assoc, patch_operand, <- app_assoc. reflexivity.
    - destruct K as [kx K1]. exists kx. congruence.
    - congruence.
    - exact N.
    - rewrite Hlen. exact B.
  Qed.

  Lemma envh_split : forall prog st st1 st2 c1 X nb1 nb2 lexit hi,
    code_len st1 = code_len st + zlength c1 ->
    brk_ok (code_len st) nb1 (code_len st1) -> brk_ok (code_len st1) nb2 hi ->
    (exists kx, c_constants st2 = c_constants st1 ++ kx) ->
    envh prog st st2 (c1 ++ X) (nb1 ++ nb2) lexit ->
    envh prog st st1 c1 nb1 lexit /\ envh prog st1 st2 X nb2 lexit.
  Proof.
    intros prog st st1 st2 c1 X nb1 nb2 lexit hi Hlen B1 B2 HK [E1 E2 E3].
    apply code_x_app in E1. destruct E1 as [E1a E1b]. rewrite <- Hlen in E1b.
    destruct (brk_target_app _ _ _ _ E3) as [T1 T2].
    split; constructor.
    - apply (code_x_restrict prog _ c1 _ _ E1a). intros p Hp Hin.
      rewrite brk_holes_app in Hin. apply in_app_or in Hin. destruct Hin as [Hin|Hin]; [exact Hin|].
      pose proof (brk_holes_range _ _ _ _ B2 Hin) as R. lia.
    - apply (poolok_ext prog _ _ HK). exact E2.
    - exact T1.
    - apply (code_x_restrict prog _ X _ _ E1b). intros p Hp Hin.
      rewrite brk_holes_app in Hin. apply in_app_or in Hin. destruct Hin as [Hin|Hin]; [|exact Hin].
      pose proof (brk_holes_range _ _ _ _ B1 Hin) as R. lia.
    - exact E2.
    - exact T2.
  Qed.

  Lemma operand16_code_len : forall st t, operand 16 (code_len st) = Ok t -> t = code_len st /\ 0 <= t < 65536.
  Proof.
    intros st t H. destruct (operand16_ok _ _ (code_len_nonneg st) H) as [-> R]. split; [reflexivity|exact R].
  Qed.

  Lemma cfactsh_emit_u16op : forall op v st outer cur k, c_symbols st = stab k outer cur ->
    cfactsh st (emit_u16 v (emit_opcode op st)) outer cur [byte_of_opcode op; v mod 256; (v / 256) mod 256] [].
  Proof.
    intros. apply (cfactsh_emit _ _ outer cur k); auto.
    cbn [emit_u16 emit_opcode c_code]. rewrite <- app_assoc. reflexivity.
  Qed.

  Lemma constsh_refl : forall st : cstate, exists kx, c_constants st = c_constants st ++ kx.
  Proof. intros. exists []. rewrite app_nil_r. reflexivity. Qed.


  (** ** als *)

  Definition cexth (st st' : cstate) : Prop :=
    exists kx, c_constants st' = c_constants st ++ kx.

  Lemma cexth_refl : forall st, cexth st st.
  Proof. intros. apply constsh_refl. Qed.
  Lemma cexth_trans : forall a b c, cexth a b -> cexth b c -> cexth a c.
  Proof.
    intros a b c [k1 H1] [k2 H2]. exists (k1 ++ k2). rewrite H2, H1, app_assoc; reflexivity.
  Qed.
  Lemma cexth_eq : forall a b, c_constants b = c_constants a -> cexth a b.
  Proof. intros a b H. exists []. rewrite app_nil_r. exact H. Qed.
  Lemma cexth_cfactsh : forall st st' outer cur ce nb, cfactsh st st' outer cur ce nb -> cexth st st'.
  Proof. intros st st' outer cur ce nb H. exact (cfh_consts _ _ _ _ _ _ H). Qed.

  Lemma envh_consts_eq : forall prog st st1 st2 ce nb lexit, c_constants st2 = c_constants st1 ->
    envh prog st st1 ce nb lexit -> envh prog st st2 ce nb lexit.
  Proof. intros prog st st1 st2 ce nb lexit H [E1 E2 E3]. constructor; try assumption. rewrite H. exact E2. Qed.

  Lemma cfactsh_eq : forall st st' outer cur ce nb ce' nb', cfactsh st st' outer cur ce nb ->
    ce = ce' -> nb = nb' -> cfactsh st st' outer cur ce' nb'.
  Proof. intros; subst; assumption. Qed.

  Lemma hesim_if : forall c t alt, hesim c -> hlsim t ->
    match alt with Some b => hlsim b | None => True end -> hesim (EIf c t alt).
  Proof.
    intros c t alt IHc IHt IHa lp st st' k outer cur HF Hs Hc.
    rewrite f2he_if in HF. apply andb_prop in HF. destruct HF as [HF Hfa].
    apply andb_prop in HF. destruct HF as [Hfc Hft].
    rewrite ce_if in Hc. cbv zeta in Hc.
    apply bind_ok in Hc. destruct Hc as [st1 [H1 Hc]].
    apply bind_ok in Hc. destruct Hc as [st3 [H3 Hc]].
    apply bind_ok in Hc. destruct Hc as [t1 [Ht1 Hc]].
    apply bind_ok in Hc. destruct Hc as [st5 [H5 Hc]].
    apply bind_ok in Hc. destruct Hc as [st6 [H6 Hc]].
    apply bind_ok in Hc. destruct Hc as [t2 [Ht2 Hc]].
    (* the pieces *)
    destruct (IHc false st st1 k outer cur Hfc Hs H1) as [ce_c [nb_c [CF1 Hsimc]]].
    destruct (cfh_syms _ _ _ _ _ _ CF1) as [k1 Hs1].
    set (st2 := emit_u16 JUMP_PLACEHOLDER (emit_opcode OJumpIfFalse st1)) in *.
    pose proof (cfactsh_emit_u16op OJumpIfFalse JUMP_PLACEHOLDER st1 outer cur k1 Hs1) as CF2. fold st2 in CF2.
    assert (c_symbols st2 = stab k1 outer cur) as Hs2 by exact Hs1.
    destruct (hbv_sim t IHt lp st2 st3 k1 outer cur Hft Hs2 H3) as [ce_t [nb_t [CF3 Hsimt]]].
    destruct (cfh_syms _ _ _ _ _ _ CF3) as [k3 Hs3].
    set (st4 := emit_u16 JUMP_PLACEHOLDER (emit_opcode OJump st3)) in *.
    pose proof (cfactsh_emit_u16op OJump JUMP_PLACEHOLDER st3 outer cur k3 Hs3) as CF4. fold st4 in CF4.
    destruct (operand16_code_len _ _ Ht1) as [-> Rt1].
    pose proof (cfactsh_len _ _ _ _ _ _ CF1) as L1. pose proof (cfactsh_len _ _ _ _ _ _ CF2) as L2.
    pose proof (cfactsh_len _ _ _ _ _ _ CF3) as L3. pose proof (cfactsh_len _ _ _ _ _ _ CF4) as L4.
    rewrite zlength3 in L2, L4.
    pose proof (cfactsh_trans _ _ _ _ _ _ _ _ _ _ CF1 (cfactsh_trans _ _ _ _ _ _ _ _ _ _ CF2
                 (cfactsh_trans _ _ _ _ _ _ _ _ _ _ CF3 CF4))) as CF14.
    cbn [app] in CF14. rewrite L1 in H5.
    destruct (cfactsh_patch_at _ _ _ _ _ _ _ _ _ _ _ (code_len st4) CF14 H5) as [CF15 [L5 _]].
    destruct (cfh_syms _ _ _ _ _ _ CF15) as [k5 Hs5].
    set (names := flat outer cur) in *.
    (* the alternative *)
    assert (exists ce_a nb_a, cfactsh st5 st6 outer cur ce_a nb_a /\
              forall prog lexit, envh prog st5 st6 ce_a nb_a lexit -> 0 <= lexit < 65536 ->
              0 <= cur_start (c_loops st5) ->
              forall f s, v_ip s = code_len st5 ->
              simh prog s (code_len st6) (cur_start (c_loops st5)) lexit
                   (match alt with
                    | Some bl => hstmts orc pl f names bl VNull (hst_of s)
                    | None => HOk VNull (hst_of s)
                    end)) as [ce_a [nb_a [CF6 Hsima]]].
    { destruct alt as [bl|].
      - exact (hbv_sim bl IHa lp st5 st6 k5 outer cur Hfa Hs5 H6).
      - inversion H6; subst st6. exists [byte_of_opcode ONull], [].
        split; [exact (cfactsh_emit_opcode ONull st5 outer cur k5 Hs5)|].
        intros prog lexit [E1 _ _] _ _ f s Hip. cbn [simh]. exists (v_final s). apply reaches_step.
        rewrite <- Hip in E1. pose proof (code_x_at1 _ _ _ _ _ E1 (fun x => x)) as Hat.
        rewrite (hstep_null orc prog s [] Hat), sethm_seth. f_equal. f_equal.
        apply seth_eq; [reflexivity|]. rewrite code_len_emit_opcode, Hip. reflexivity. }
    clear H6.
    destruct (operand16_code_len _ _ Ht2) as [-> Rt2].
    pose proof (cfactsh_len _ _ _ _ _ _ CF6) as L6.
    pose proof (cfactsh_trans _ _ _ _ _ _ _ _ _ _ CF15 CF6) as CF16.
    set (T1 := code_len st4) in *. set (T2 := code_len st6) in *.
    set (jif3 := [byte_of_opcode OJumpIfFalse; T1 mod 256; (T1 / 256) mod 256]).
    set (PHlo := JUMP_PLACEHOLDER mod 256) in *. set (PHhi := (JUMP_PLACEHOLDER / 256) mod 256) in *.
    assert ((ce_c ++ byte_of_opcode OJumpIfFalse :: T1 mod 256 :: (T1 / 256) mod 256
                   :: ce_t ++ [byte_of_opcode OJump; PHlo; PHhi]) ++ ce_a
            = (ce_c ++ jif3 ++ ce_t) ++ byte_of_opcode OJump :: PHlo :: PHhi :: ce_a) as Ereassoc.
    { unfold jif3. rewrite <- !app_assoc. cbn [app]. rewrite <- !app_assoc. reflexivity. }
    rewrite Ereassoc in CF16.
    assert (code_len st3 = code_len st + zlength (ce_c ++ jif3 ++ ce_t)) as Lpre.
    { rewrite !zlength_app. unfold jif3. rewrite zlength3. lia. }
    rewrite Lpre in Hc.
    destruct (cfactsh_patch_at _ _ _ _ _ _ _ _ _ _ _ T2 CF16 Hc) as [CF [L' _]].
    set (jmp3 := [byte_of_opcode OJump; T2 mod 256; (T2 / 256) mod 256]).
    assert ((ce_c ++ jif3 ++ ce_t) ++ byte_of_opcode OJump :: T2 mod 256 :: (T2 / 256) mod 256 :: ce_a
            = ce_c ++ jif3 ++ ce_t ++ jmp3 ++ ce_a) as Efinal.
    { unfold jmp3. rewrite <- !app_assoc. reflexivity. }
    exists (ce_c ++ jif3 ++ ce_t ++ jmp3 ++ ce_a), (nb_c ++ nb_t ++ nb_a).
    assert (cfactsh st st' outer cur (ce_c ++ jif3 ++ ce_t ++ jmp3 ++ ce_a) (nb_c ++ nb_t ++ nb_a)) as CF'.
    { rewrite Efinal in CF. apply (cfactsh_eq _ _ _ _ _ _ _ _ CF); [reflexivity|].
      rewrite <- ?app_assoc; cbn [app]; rewrite <- ?app_assoc, ?app_nil_r; reflexivity. }
    clear CF. rename CF' into CF.
    split; [exact CF|].
    (* the run *)
    intros prog lexit E Hle Hst fuel s Hip. destruct fuel as [|f]; [exact I|].
    rewrite he_if. fold names.
    (* loop contexts along the way *)
    pose proof (cfh_loops _ _ _ _ _ _ CF1) as Lp1.
    assert (c_loops st2 = c_loops st1) as Lp2 by reflexivity.
    pose proof (cfh_loops _ _ _ _ _ _ CF3) as Lp3.
    pose proof (cfh_loops _ _ _ _ _ _ CF15) as Lp5.
    assert (cur_start (c_loops st2) = cur_start (c_loops st)) as Cs2 by (rewrite Lp2, Lp1; apply cur_start_add).
    assert (cur_start (c_loops st5) = cur_start (c_loops st)) as Cs5 by (rewrite Lp5; apply cur_start_add).
    (* constants *)
    assert (c_constants st' = c_constants st6) as K'.
    { assert (0 <= code_len st + zlength (ce_c ++ jif3 ++ ce_t)) as Hp by (rewrite <- Lpre; apply code_len_nonneg).
      exact (proj1 (proj2 (change_jump_spec _ _ _ _ Hp Hc))). }
    assert (c_constants st5 = c_constants st4) as K5.
    { assert (0 <= code_len st + zlength ce_c) as Hp by (rewrite <- L1; apply code_len_nonneg).
      exact (proj1 (proj2 (change_jump_spec _ _ _ _ Hp H5))). }
    assert (cexth st6 st') as X6 by (apply cexth_eq; exact K').
    assert (cexth st5 st') as X5 by (exact (cexth_trans _ _ _ (cexth_cfactsh _ _ _ _ _ _ CF6) X6)).
    assert (cexth st3 st') as X3.
    { apply (cexth_trans _ st4); [exact (cexth_cfactsh _ _ _ _ _ _ CF4)|].
      apply (cexth_trans _ st5); [apply cexth_eq; exact K5|exact X5]. }
    assert (cexth st2 st') as X2 by (exact (cexth_trans _ _ _ (cexth_cfactsh _ _ _ _ _ _ CF3) X3)).
    assert (cexth st1 st') as X1 by (exact (cexth_trans _ _ _ (cexth_cfactsh _ _ _ _ _ _ CF2) X2)).
    (* pending stops *)
    pose proof (cfh_brk _ _ _ _ _ _ CF1) as B1. pose proof (cfh_brk _ _ _ _ _ _ CF3) as B3.
    pose proof (cfh_brk _ _ _ _ _ _ CF6) as B6.
    assert (brk_ok (code_len st3) nb_a (code_len st6)) as B36 by (apply (brk_ok_widen _ _ _ _ _ B6); lia).
    assert (brk_ok (code_len st2) (nb_t ++ nb_a) (code_len st6)) as B26 by (exact (brk_ok_app _ _ _ _ _ B3 B36)).
    assert (brk_ok (code_len st1) (nb_t ++ nb_a) (code_len st6)) as B16 by (apply (brk_ok_widen _ _ _ _ _ B26); lia).
    (* the environments of the pieces *)
    cbn [app] in E.
    destruct (envh_split prog st st1 st' ce_c _ nb_c (nb_t ++ nb_a) lexit _ L1 B1 B16 X1 E) as [Ec E1].
    assert (code_len st2 = code_len st1 + zlength jif3) as L2' by (unfold jif3; rewrite zlength3; exact L2).
    destruct (envh_split prog st1 st2 st' jif3 _ [] (nb_t ++ nb_a) lexit _ L2'
                ltac:(cbn [brk_ok]; lia) B26 X2 E1) as [Ej E2].
    destruct (envh_split prog st2 st3 st' ce_t _ nb_t nb_a lexit _ L3 B3 B36 X3 E2) as [Et E3].
    assert (code_len st5 = code_len st3 + zlength jmp3) as L5' by (unfold jmp3; rewrite zlength3; lia).
    destruct (envh_split prog st3 st5 st' jmp3 _ [] nb_a lexit _ L5'
                ltac:(cbn [brk_ok]; lia) B6 X5 E3) as [Em E4].
    assert (envh prog st5 st6 ce_a nb_a lexit) as Ea.
    { destruct E4 as [A1 A2 A3]. constructor; try assumption. rewrite <- K'. exact A2. }
    (* condition *)
    specialize (Hsimc prog lexit Ec Hle Hst f s Hip).
    destruct (heval orc pl f names c (hst_of s)) as [b m1|m1|m1|e eo|y yo|] eqn:E1c; cbn [hbind];
      try exact Hsimc; try (hnosig_contra f c names (hst_of s) Hfc E1c).
    cbn [simh] in Hsimc. destruct Hsimc as [fin1 Hsimc].
    set (sa := seth s (b :: v_stack s) (v_slen s + 1) (code_len st1) m1 fin1) in *.
    destruct Ej as [Ejc _ _]. cbn [brk_holes flat_map] in Ejc.
    pose proof (code_x_at3 _ _ _ _ _ _ _ Ejc (holes_free_nil _ _)) as Hjif.
    pose proof (hstep_jif orc prog sa T1 b (v_stack s) [] Hjif Rt1 eq_refl) as Hstepj.
    destruct b as [|bb| | | | |];
      try (cbn [simh]; apply (reaches_stops orc prog s sa _ _ Hsimc); apply (stops_now orc prog sa _ Hstepj)).
    destruct bb.
    - (* the consequence *)
      set (sb := seth s (v_stack s) (v_slen s) (code_len st2) m1 fin1).
      assert (sethm sa (v_stack s) (v_slen sa - 1) (v_ip sa + 3) (hst_of sa) = sb) as Esb.
      { subst sa sb. unfold sethm, seth, hst_of. vmcbnh. f_equal; lia. }
      cbn [negb] in Hstepj. rewrite Esb in Hstepj.
      assert (reaches orc prog s sb) as Hsb.
      { apply (reaches_trans orc prog s sa _ Hsimc). apply reaches_step. exact Hstepj. }
      assert (0 <= cur_start (c_loops st2)) as Hst2 by (rewrite Cs2; exact Hst).
      specialize (Hsimt prog lexit Et Hle Hst2 f sb eq_refl). rewrite Cs2 in Hsimt.
      unfold sb in Hsimt at 2. rewrite hst_of_seth in Hsimt. fold names in Hsimt.
      destruct (hstmts orc pl f names t VNull m1) as [v m2|m2|m2|e eo|y yo|]; cbn [simh] in *;
        try (destruct Hsimt as [fin2 Hsimt]; exists fin2; apply (reaches_trans orc prog s sb _ Hsb); exact Hsimt);
        try (apply (reaches_stops orc prog s sb _ _ Hsb); exact Hsimt); try exact I.
      destruct Hsimt as [fin2 Hsimt].
      set (sc := seth sb (v :: v_stack sb) (v_slen sb + 1) (code_len st3) m2 fin2) in *.
      exists fin2. apply (reaches_trans orc prog s sb _ Hsb). apply (reaches_trans orc prog sb sc _ Hsimt).
      destruct Em as [Emc _ _]. cbn [brk_holes flat_map] in Emc.
      pose proof (code_x_at3 _ _ _ _ _ _ _ Emc (holes_free_nil _ _)) as Hjmp.
      apply reaches_step. rewrite (hstep_jump orc prog sc T2 [] Hjmp Rt2). f_equal. f_equal.
      subst sc sb. unfold sethm, seth, hst_of. vmcbnh. rewrite L'. reflexivity.
    - (* the alternative *)
      set (sb := seth s (v_stack s) (v_slen s) (code_len st5) m1 fin1).
      assert (sethm sa (v_stack s) (v_slen sa - 1) T1 (hst_of sa) = sb) as Esb.
      { subst sa sb. unfold sethm, seth, hst_of. vmcbnh. rewrite L5. f_equal; lia. }
      cbn [negb] in Hstepj. rewrite Esb in Hstepj.
      assert (reaches orc prog s sb) as Hsb.
      { apply (reaches_trans orc prog s sa _ Hsimc). apply reaches_step. exact Hstepj. }
      assert (0 <= cur_start (c_loops st5)) as Hst5 by (rewrite Cs5; exact Hst).
      specialize (Hsima prog lexit Ea Hle Hst5 f sb eq_refl). rewrite Cs5 in Hsima.
      unfold sb in Hsima at 2 3. rewrite !hst_of_seth in Hsima. rewrite L'.
      destruct (match alt with
                | Some bl => hstmts orc pl f names bl VNull m1
                | None => HOk VNull m1
                end) as [v m2|m2|m2|e eo|y yo|]; cbn [simh] in *;
        try (destruct Hsima as [fin2 Hsima]; exists fin2; apply (reaches_trans orc prog s sb _ Hsb); exact Hsima);
        try (apply (reaches_stops orc prog s sb _ _ Hsb); exact Hsima); exact I.
  Qed.


  (** ** From the canonical form to statement mode: the trailing Pop is executed *)

  Definition simh_full (prog : program) (s : vm) (pop : bool) (ipend lstart lexit : Z) (r : hres val) : Prop :=
    match r with
    | HOk v m' => exists fin', reaches orc prog s (seth s (v_stack s) (v_slen s) ipend m' fin')
                               /\ (pop = true -> fin' = v)
    | HBrk m' => exists fin', reaches orc prog s (seth s (VNull :: v_stack s) (v_slen s + 1) lexit m' fin')
    | HCnt m' => exists fin', reaches orc prog s (seth s (VNull :: v_stack s) (v_slen s + 1) lstart m' fin')
    | HErr k out => stops orc prog s (Err k) out
    | HFault f out => stops orc prog s (Fault f) out
    | HFuel => True
    end.

  Lemma hstmt_mode : forall l st st' outer cur ce nb, hlconcl l st st' outer cur ce nb ->
    forall prog lexit, envh prog st st' ce nb lexit -> 0 <= lexit < 65536 ->
    0 <= cur_start (c_loops st) ->
    forall fuel s last, v_ip s = code_len st ->
    simh_full prog s (ends_pop l) (code_len st') (cur_start (c_loops st)) lexit
             (hstmts orc pl fuel (flat outer cur) l last (hst_of s)).
  Proof.
    intros l st st' outer cur ce nb [CF [Hlast [Hpop Hsim]]] prog lexit E Hle Hst fuel s last Hip.
    destruct (ends_pop l) eqn:Ep.
    - destruct (Hpop eq_refl) as [[ce' Hce'] Bp].
      pose proof (cfh_code _ _ _ _ _ _ CF) as Hcode. rewrite Hce', app_assoc in Hcode.
      destruct (code_len_remove_last st' _ Hcode) as [Hcm Hlm].
      set (stm := remove_last_instruction st') in *.
      assert (code_len stm = code_len st + zlength ce') as Hlen.
      { unfold code_len at 1. rewrite Hcm, zlength_app. reflexivity. }
      rewrite <- Hlm in Bp. rewrite <- (app_nil_r nb), Hce' in E.
      destruct (envh_split prog st stm st' ce' _ nb [] lexit (code_len st') Hlen Bp
                  ltac:(cbn [brk_ok]; lia) (cexth_eq stm st' eq_refl) E) as [Ec Ep'].
      assert (envh prog st st' (canon true ce) nb lexit) as E0.
      { unfold canon. rewrite Hce', removelast_last. exact (envh_consts_eq _ _ stm st' _ _ _ eq_refl Ec). }
      specialize (Hsim prog lexit E0 Hle Hst fuel s last Hip).
      destruct (hstmts orc pl fuel (flat outer cur) l last (hst_of s)) as [v m'|m'|m'|e eo|y yo|]; try exact Hsim.
      cbn [simh_l simh_full] in *. destruct Hsim as [fin1 Hsim].
      set (sa := seth s (v :: v_stack s) (v_slen s + 1) (code_len st' - 1) m' fin1) in *.
      exists v. split; [|reflexivity]. apply (reaches_trans orc prog s sa _ Hsim). apply reaches_step.
      destruct Ep' as [Epc _ _]. cbn [brk_holes flat_map] in Epc. rewrite Hlm in Epc.
      pose proof (code_x_at1 _ _ _ _ _ Epc (fun x => x)) as Hat.
      rewrite (hstep_pop orc prog sa v (v_stack s) [] Hat eq_refl). f_equal. f_equal.
      subst sa. unfold seth. vmcbnh. f_equal; lia.
    - specialize (Hsim prog lexit E Hle Hst fuel s last Hip).
      destruct (hstmts orc pl fuel (flat outer cur) l last (hst_of s)) as [v m'|m'|m'|e eo|y yo|]; try exact Hsim.
      cbn [simh_l simh_full] in *. destruct Hsim as [fin1 Hsim]. exists fin1. split; [exact Hsim|discriminate].
  Qed.

  (** ** Statement lists *)

  Lemma hlsim_nil : hlsim [].
  Proof.
    intros lp st st' k outer cur HF Hs Hc. cbn [compile_statements] in Hc. inversion Hc; subst st'; clear Hc.
    exists [], []. split; [|split; [intros N; contradiction|split; [intros N; discriminate N|]]].
    - cbn [decl_names]. rewrite app_nil_r. apply (cfactsh_emit _ _ outer cur k); auto. rewrite app_nil_r. reflexivity.
    - intros prog lexit _ _ _ fuel s last Hip. destruct fuel as [|f]; [exact I|]. rewrite hb_nil.
      cbn [ends_pop simh_l]. exists (v_final s). exists O. cbn [steps]. f_equal.
      destruct s; unfold seth, hst_of; cbn in *. subst. reflexivity.
  Qed.


  (** ** One statement in front of a list: the generic step *)

  (* the canonical simulation of something that evaluates as R *)
  Definition hgconcl (pop : bool) (R : nat -> hst -> hres val) (st st' : cstate) (ce nb : list Z) : Prop :=
    (pop = true -> (exists ce', ce = ce' ++ [byte_of_opcode OPop]) /\
                   brk_ok (code_len st) nb (code_len st' - 1)) /\
    forall prog lexit, envh prog st st' (canon pop ce) nb lexit -> 0 <= lexit < 65536 ->
    0 <= cur_start (c_loops st) ->
    forall fuel s, v_ip s = code_len st ->
    simh_l prog s pop (code_len st') (cur_start (c_loops st)) lexit (R fuel (hst_of s)).

  Lemma hstmt_mode_g : forall pop R st st' outer cur ce nb, cfactsh st st' outer cur ce nb ->
    hgconcl pop R st st' ce nb ->
    forall prog lexit, envh prog st st' ce nb lexit -> 0 <= lexit < 65536 ->
    0 <= cur_start (c_loops st) ->
    forall fuel s, v_ip s = code_len st ->
    simh_full prog s pop (code_len st') (cur_start (c_loops st)) lexit (R fuel (hst_of s)).
  Proof.
    intros pop R st st' outer cur ce nb CF [Hpop Hsim] prog lexit E Hle Hst fuel s Hip.
    destruct pop.
    - destruct (Hpop eq_refl) as [[ce' Hce'] Bp].
      pose proof (cfh_code _ _ _ _ _ _ CF) as Hcode. rewrite Hce', app_assoc in Hcode.
      destruct (code_len_remove_last st' _ Hcode) as [Hcm Hlm].
      set (stm := remove_last_instruction st') in *.
      assert (code_len stm = code_len st + zlength ce') as Hlen.
      { unfold code_len at 1. rewrite Hcm, zlength_app. reflexivity. }
      rewrite <- Hlm in Bp. rewrite <- (app_nil_r nb), Hce' in E.
      destruct (envh_split prog st stm st' ce' _ nb [] lexit (code_len st') Hlen Bp
                  ltac:(cbn [brk_ok]; lia) (cexth_eq stm st' eq_refl) E) as [Ec Ep'].
      assert (envh prog st st' (canon true ce) nb lexit) as E0.
      { unfold canon. rewrite Hce', removelast_last. exact (envh_consts_eq _ _ stm st' _ _ _ eq_refl Ec). }
      specialize (Hsim prog lexit E0 Hle Hst fuel s Hip).
      destruct (R fuel (hst_of s)) as [v m'|m'|m'|e eo|y yo|]; try exact Hsim.
      cbn [simh_l simh_full] in *. destruct Hsim as [fin1 Hsim].
      set (sa := seth s (v :: v_stack s) (v_slen s + 1) (code_len st' - 1) m' fin1) in *.
      exists v. split; [|reflexivity]. apply (reaches_trans orc prog s sa _ Hsim). apply reaches_step.
      destruct Ep' as [Epc _ _]. cbn [brk_holes flat_map] in Epc. rewrite Hlm in Epc.
      pose proof (code_x_at1 _ _ _ _ _ Epc (fun x => x)) as Hat.
      rewrite (hstep_pop orc prog sa v (v_stack s) [] Hat eq_refl). f_equal. f_equal.
      subst sa. unfold seth. vmcbnh. f_equal; lia.
    - specialize (Hsim prog lexit E Hle Hst fuel s Hip).
      destruct (R fuel (hst_of s)) as [v m'|m'|m'|e eo|y yo|]; try exact Hsim.
      cbn [simh_l simh_full] in *. destruct Hsim as [fin1 Hsim]. exists fin1. split; [exact Hsim|discriminate].
  Qed.

  Lemma decl_names_cons : forall s0 r, decl_names (s0 :: r) = decl_names [s0] ++ decl_names r.
  Proof. intros s0 r. destruct s0; reflexivity. Qed.

  Lemma ends_pop_cons2 : forall s0 s1 r, ends_pop (s0 :: s1 :: r) = ends_pop (s1 :: r).
  Proof. reflexivity. Qed.

  Lemma hcons_sim : forall s0 r ph Hd st st1 st' outer cur ce_h nb_h lp,
    cfactsh st st1 outer (cur ++ decl_names [s0]) ce_h nb_h ->
    last_instruction_is OPop st1 = ph -> ph = stmt_pop s0 ->
    hgconcl ph Hd st st1 ce_h nb_h ->
    (forall f last m, hstmts orc pl (S f) (flat outer cur) (s0 :: r) last m =
                      hbind (Hd f m) (fun v m1 => hstmts orc pl f (flat outer (cur ++ decl_names [s0])) r v m1)) ->
    hlsim r -> f2hb lp r = true -> compile_statements r st1 = Ok st' ->
    exists ce nb, hlconcl (s0 :: r) st st' outer cur ce nb.
  Proof.
    intros s0 r ph Hd st st1 st' outer cur ce_h nb_h lp CFh Hlast Hph Gh Heq IHr HFr Hc.
    destruct (cfh_syms _ _ _ _ _ _ CFh) as [k1 Hs1].
    destruct r as [|s1 r'].
    - (* the last statement: its canonical form is the list's *)
      cbn [compile_statements] in Hc. inversion Hc; subst st'; clear Hc.
      exists ce_h, nb_h. destruct Gh as [Gpop Gsim].
      split; [|split; [|split]].
      + rewrite decl_names_cons. cbn [decl_names]. rewrite app_nil_r. exact CFh.
      + intros _. cbn [ends_pop]. rewrite Hlast. exact Hph.
      + cbn [ends_pop]. rewrite <- Hph. exact Gpop.
      + intros prog lexit E Hle Hst fuel s last Hip. cbn [ends_pop] in *. rewrite <- Hph in *.
        destruct fuel as [|f]; [exact I|]. rewrite Heq.
        specialize (Gsim prog lexit E Hle Hst f s Hip).
        destruct (Hd f (hst_of s)) as [v m1|m1|m1|e eo|y yo|]; cbn [hbind]; try exact Gsim.
        destruct f as [|f']; [exact I|]. rewrite hb_nil. exact Gsim.
    - (* more statements follow: the head in statement mode, then the rest *)
      destruct (IHr lp st1 st' k1 outer (cur ++ decl_names [s0]) HFr Hs1 Hc) as [ce_r [nb_r Lr]].
      pose proof Lr as [CFr [Hlastr [Hpopr Hsimr]]].
      exists (ce_h ++ ce_r), (nb_h ++ nb_r).
      pose proof (cfactsh_trans _ _ _ _ _ _ _ _ _ _ CFh CFr) as CF.
      split; [|split; [|split]].
      + rewrite decl_names_cons, app_assoc. exact CF.
      + intros _. rewrite ends_pop_cons2. apply Hlastr. discriminate.
      + rewrite ends_pop_cons2. intros Ep. destruct (Hpopr Ep) as [[ce' Hce'] Bp]. split.
        * exists (ce_h ++ ce'). rewrite Hce', app_assoc. reflexivity.
        * apply (brk_ok_app _ _ _ (code_len st1)); [exact (cfh_brk _ _ _ _ _ _ CFh)|exact Bp].
      + intros prog lexit E Hle Hst fuel s last Hip. rewrite ends_pop_cons2 in *.
        assert (canon (ends_pop (s1 :: r')) (ce_h ++ ce_r) = ce_h ++ canon (ends_pop (s1 :: r')) ce_r) as Ecanon.
        { unfold canon. destruct (ends_pop (s1 :: r')) eqn:Ep; [|reflexivity].
          destruct (Hpopr eq_refl) as [[ce' Hce'] _]. apply removelast_app. rewrite Hce'.
          destruct ce'; discriminate. }
        rewrite Ecanon in E.
        destruct (envh_split prog st st1 st' ce_h _ nb_h nb_r lexit _ (cfactsh_len _ _ _ _ _ _ CFh)
                    (cfh_brk _ _ _ _ _ _ CFh) (cfh_brk _ _ _ _ _ _ CFr) (cexth_cfactsh _ _ _ _ _ _ CFr) E) as [Eh Er].
        destruct fuel as [|f]; [exact I|]. rewrite Heq.
        pose proof (hstmt_mode_g ph Hd st st1 outer _ ce_h nb_h CFh Gh prog lexit Eh Hle Hst f s Hip) as Hh.
        destruct (Hd f (hst_of s)) as [v m1|m1|m1|e eo|y yo|]; cbn [hbind]; try exact Hh.
        cbn [simh_full] in Hh. destruct Hh as [fin1 [Hh _]].
        set (sb := seth s (v_stack s) (v_slen s) (code_len st1) m1 fin1) in *.
        assert (0 <= cur_start (c_loops st1)) as Hst1.
        { rewrite (cfh_loops _ _ _ _ _ _ CFh), cur_start_add. exact Hst. }
        specialize (Hsimr prog lexit Er Hle Hst1 f sb v eq_refl).
        rewrite (cfh_loops _ _ _ _ _ _ CFh), cur_start_add in Hsimr.
        unfold sb in Hsimr at 2. rewrite hst_of_seth in Hsimr.
        destruct (hstmts orc pl f (flat outer (cur ++ decl_names [s0])) (s1 :: r') v m1) as [v2 m2|m2|m2|e eo|y yo|];
          cbn [simh_l] in *;
          try (destruct Hsimr as [fin2 Hsimr]; exists fin2; apply (reaches_trans orc prog s sb _ Hh); exact Hsimr);
          try (apply (reaches_stops orc prog s sb _ _ Hh); exact Hsimr); try exact I.
        destruct (ends_pop (s1 :: r')); destruct Hsimr as [fin2 Hsimr]; exists fin2;
          apply (reaches_trans orc prog s sb _ Hh); exact Hsimr.
  Qed.


  (** ** The five kinds of statement *)

  Lemma cfactsh_in : forall st t st1 outer cur ce nb,
    cfactsh (set_symbols st t) st1 outer cur ce nb -> cfactsh st st1 outer cur ce nb.
  Proof. intros st t st1 outer cur ce nb [S C K L N B]. constructor; assumption. Qed.

  Lemma cfactsh_out : forall st st1 t outer0 cur0 outer cur k' ce nb,
    cfactsh st st1 outer0 cur0 ce nb -> t = stab k' outer cur ->
    cfactsh st (set_symbols st1 t) outer cur ce nb.
  Proof.
    intros st st1 t outer0 cur0 outer cur k' ce nb [S C K L N B] Ht. constructor; try assumption.
    exists k'. exact Ht.
  Qed.

  Lemma envh_in : forall prog st t st1 ce nb lexit,
    envh prog st st1 ce nb lexit -> envh prog (set_symbols st t) st1 ce nb lexit.
  Proof. intros prog st t st1 ce nb lexit [E1 E2 E3]. constructor; assumption. Qed.

  Lemma envh_out : forall prog st st1 t ce nb lexit,
    envh prog st (set_symbols st1 t) ce nb lexit -> envh prog st st1 ce nb lexit.
  Proof. intros prog st st1 t ce nb lexit [E1 E2 E3]. constructor; assumption. Qed.

  Lemma emit_sym_last : forall op sy st st', emit_sym op sy st = Ok st' -> c_last st' = Some op.
  Proof.
    intros op sy st st' H. unfold emit_sym in H. apply bind_ok in H. destruct H as [idx [_ H]].
    inversion H; subst. reflexivity.
  Qed.

  Lemma hssim_expr : forall e, hesim e -> hssim (SExpr e).
  Proof.
    intros e IHe r IHr lp st st' k outer cur HF Hs Hc.
    rewrite f2hb_cons in HF. apply andb_prop in HF. destruct HF as [HFe HFr]. cbn [f2hs] in HFe.
    cbn [compile_statements] in Hc. apply bind_ok in Hc. destruct Hc as [st2 [H2 Hc]].
    rewrite cs_expr in H2. apply bind_ok in H2. destruct H2 as [st1 [H1 H2]]. inversion H2; subst st2; clear H2.
    destruct (IHe lp st st1 k outer cur HFe Hs H1) as [ce_e [nb_e [CFe Hsime]]].
    destruct (cfh_syms _ _ _ _ _ _ CFe) as [k1 Hs1].
    pose proof (cfactsh_emit_opcode OPop st1 outer cur k1 Hs1) as CFp.
    pose proof (cfactsh_trans _ _ _ _ _ _ _ _ _ _ CFe CFp) as CFh. rewrite app_nil_r in CFh.
    apply (hcons_sim (SExpr e) r true (fun f m => heval orc pl f (flat outer cur) e m)
                    st (emit_opcode OPop st1) st' outer cur (ce_e ++ [byte_of_opcode OPop]) nb_e lp);
      try assumption; try reflexivity.
    - cbn [decl_names]. rewrite app_nil_r. exact CFh.
    - split.
      + intros _. split; [exists ce_e; reflexivity|]. rewrite code_len_emit_opcode.
        replace (code_len st1 + 1 - 1) with (code_len st1) by lia. exact (cfh_brk _ _ _ _ _ _ CFe).
      + intros prog lexit E Hle Hst fuel s Hip. unfold canon in E. rewrite removelast_last in E.
        assert (envh prog st st1 ce_e nb_e lexit) as Ee.
        { destruct E as [A1 A2 A3]. constructor; assumption. }
        specialize (Hsime prog lexit Ee Hle Hst fuel s Hip). rewrite code_len_emit_opcode.
        destruct (heval orc pl fuel (flat outer cur) e (hst_of s)); try exact Hsime.
        cbn [simh_l simh] in *. replace (code_len st1 + 1 - 1) with (code_len st1) by lia. exact Hsime.
    - intros f last m. rewrite hb_expr. cbn [decl_names]. rewrite app_nil_r. reflexivity.
  Qed.

  Lemma hssim_let : forall x e, hesim e -> hssim (SLet x e).
  Proof.
    intros x e IHe r IHr lp st st' k outer cur HF Hs Hc.
    rewrite f2hb_cons in HF. apply andb_prop in HF. destruct HF as [HFe HFr]. cbn [f2hs] in HFe.
    apply andb_prop in HFe. destruct HFe as [HFe _].
    cbn [compile_statements] in Hc. apply bind_ok in Hc. destruct Hc as [st2 [H2 Hc]].
    rewrite cs_let, Hs, define_stab in H2.
    set (st0 := set_symbols st (stab (S k) outer (cur ++ [x]))) in *.
    apply bind_ok in H2. destruct H2 as [st1 [H1 H2]]. unfold scoped in H2. cbn [s_scope] in H2.
    destruct (IHe false st0 st1 (S k) outer (cur ++ [x]) HFe eq_refl H1) as [ce_e [nb_e [CFe0 Hsime]]].
    pose proof (cfactsh_in _ _ _ _ _ _ _ CFe0) as CFe.
    destruct (cfh_syms _ _ _ _ _ _ CFe) as [k1 Hs1].
    destruct (cfactsh_emit_sym _ _ _ _ outer (cur ++ [x]) k1 Hs1 H2) as [Hr CFs]. cbn [s_index] in Hr, CFs.
    set (n := length (flat outer cur)) in *. set (idx := Z.of_nat n) in *.
    pose proof (cfactsh_trans _ _ _ _ _ _ _ _ _ _ CFe CFs) as CFh. rewrite app_nil_r in CFh.
    set (names := flat outer cur) in *.
    apply (hcons_sim (SLet x e) r false
             (fun f m => hbind (heval orc pl f (names ++ [x]) e m) (fun v m1 => HOk VNull (set_global_h n v m1)))
             st st2 st' outer cur
             (ce_e ++ [byte_of_opcode OSetGlobal; idx mod 256; (idx / 256) mod 256]) nb_e lp);
      try assumption; try reflexivity.
    - unfold last_instruction_is. rewrite (emit_sym_last _ _ _ _ H2). reflexivity.
    - split; [intros N; discriminate N|].
      intros prog lexit E Hle Hst fuel s Hip. unfold canon in E.
      rewrite <- (app_nil_r nb_e) in E.
      destruct (envh_split prog st st1 st2 ce_e _ nb_e [] lexit (code_len st2) (cfactsh_len _ _ _ _ _ _ CFe)
                  (cfh_brk _ _ _ _ _ _ CFe) (cfh_brk _ _ _ _ _ _ CFs) (cexth_cfactsh _ _ _ _ _ _ CFs) E) as [Ee Es].
      specialize (Hsime prog lexit (envh_in _ _ _ _ _ _ _ Ee) Hle Hst fuel s Hip).
      change (cur_start (c_loops st0)) with (cur_start (c_loops st)) in Hsime.
      rewrite flat_snoc in Hsime. fold names in Hsime.
      destruct (heval orc pl fuel (names ++ [x]) e (hst_of s)) as [v m1|m1|m1|e1 eo|y yo|] eqn:E1; cbn [hbind];
        try exact Hsime; try (hnosig_contra fuel e (names ++ [x]) (hst_of s) HFe E1).
      cbn [simh simh_l] in *. destruct Hsime as [fin1 Hsime].
      set (sa := seth s (v :: v_stack s) (v_slen s + 1) (code_len st1) m1 fin1) in *.
      exists fin1. apply (reaches_trans orc prog s sa _ Hsime). apply reaches_step.
      destruct Es as [Esc _ _]. cbn [brk_holes flat_map] in Esc.
      pose proof (code_x_at3 _ _ _ _ _ _ _ Esc (holes_free_nil _ _)) as Hat.
      rewrite (hstep_set_global orc prog sa idx v (v_stack s) [] Hat Hr eq_refl). f_equal. f_equal.
      pose proof (cfactsh_len _ _ _ _ _ _ CFs) as Ls. rewrite zlength3 in Ls.
      subst sa idx. unfold sethm, seth, hst_of, set_global_h. vmcbnh. rewrite Nat2Z.id, Ls. f_equal; lia.
    - intros f last m. rewrite hb_let. cbn [decl_names]. rewrite flat_snoc. fold names. fold n.
      destruct (heval orc pl f (names ++ [x]) e m); reflexivity.
  Qed.


  Lemma break_last : forall st st', compile_statement SBreak st = Ok st' -> c_last st' = Some OJump.
  Proof.
    intros st st' H. cbn [compile_statement] in H. cbn [emit_u16 emit_opcode c_loops] in H.
    destruct (rev (c_loops st)); [discriminate H|]. inversion H; subst. reflexivity.
  Qed.

  Lemma continue_last : forall st st', compile_statement SContinue st = Ok st' -> c_last st' = Some OJump.
  Proof.
    intros st st' H. cbn [compile_statement] in H. cbn [emit_opcode c_loops] in H.
    destruct (rev (c_loops st)); [discriminate H|]. apply bind_ok in H. destruct H as [pos [_ H]].
    inversion H; subst. reflexivity.
  Qed.

  Lemma hssim_break : hssim SBreak.
  Proof.
    intros r IHr lp st st' k outer cur HF Hs Hc.
    rewrite f2hb_cons in HF. apply andb_prop in HF. destruct HF as [_ HFr].
    cbn [compile_statements] in Hc. apply bind_ok in Hc. destruct Hc as [st2 [H2 Hc]].
    pose proof (break_last _ _ H2) as Hlast.
    destruct (break_innermost _ _ H2) as [outer_l [ctx [Hl [Hl2 [Hcode [Hsy Hk]]]]]].
    set (ip := code_len st + 1) in *.
    assert (code_len st2 = code_len st + 4) as L2.
    { rewrite (code_len_app _ _ _ Hcode). reflexivity. }
    assert (cfactsh st st2 outer cur break_code [ip]) as CFh.
    { constructor.
      - exists k. congruence.
      - exact Hcode.
      - apply cexth_eq. exact Hk.
      - rewrite Hl2, Hl, add_breaks_snoc. reflexivity.
      - intros N. rewrite N in Hl. destruct outer_l; discriminate Hl.
      - cbn [brk_ok]. unfold ip. lia. }
    apply (hcons_sim SBreak r false (fun f m => HBrk m) st st2 st' outer cur break_code [ip] lp);
      try assumption; try reflexivity.
    - cbn [decl_names]. rewrite app_nil_r. exact CFh.
    - unfold last_instruction_is. rewrite Hlast. reflexivity.
    - split; [intros N; discriminate N|].
      intros prog lexit [E1 _ E3] Hle _ fuel s Hip. cbn [simh_l]. unfold canon in E1.
      destruct E1 as [E0 E1]. rewrite <- Hip in E1.
      assert (~ In (v_ip s) (brk_holes [ip])) as Hn0.
      { cbn [brk_holes flat_map app In]. unfold ip. rewrite Hip. lia. }
      assert (~ In (v_ip s + 1) (brk_holes [ip])) as Hn1.
      { cbn [brk_holes flat_map app In]. unfold ip. rewrite Hip. lia. }
      pose proof (E1 0%nat _ eq_refl) as B0. rewrite Z.add_0_r in B0. specialize (B0 Hn0).
      pose proof (E1 1%nat _ eq_refl Hn1) as B1. change (Z.of_nat 1) with 1 in B1.
      destruct (E3 ip (or_introl eq_refl)) as [B2 B3].
      exists (v_final s).
      pose proof (hstep_null orc prog s [] (code_at_bytes1 _ _ _ B0)) as Hstep1.
      apply (reaches_trans orc prog s _ _ (reaches_step orc prog _ _ Hstep1)).
      set (sa := sethm s (VNull :: v_stack s) (v_slen s + 1) (v_ip s + 1) (hst_of s)) in *.
      assert (ip = v_ip sa) as Hipa by (unfold ip; rewrite <- Hip; reflexivity).
      rewrite Hipa in B2, B3. change (v_ip s + 1) with (v_ip sa) in B1.
      apply reaches_step. rewrite (hstep_jump orc prog sa lexit [] (code_at_bytes3 _ _ _ _ _ B1 B2 B3) Hle).
      reflexivity.
  Qed.

  Lemma hssim_continue : hssim SContinue.
  Proof.
    intros r IHr lp st st' k outer cur HF Hs Hc.
    rewrite f2hb_cons in HF. apply andb_prop in HF. destruct HF as [_ HFr].
    cbn [compile_statements] in Hc. apply bind_ok in Hc. destruct Hc as [st2 [H2 Hc]].
    pose proof (continue_last _ _ H2) as Hlast.
    destruct (continue_innermost _ _ H2) as [outer_l [ctx [Hl [Hl2 [Hlt [Hcode [Hsy Hk]]]]]]].
    assert (cur_start (c_loops st) = l_start ctx) as Hcs by (rewrite Hl; apply cur_start_snoc).
    set (T := l_start ctx) in *.
    pose proof (cfactsh_emit st st2 outer cur k _ Hs Hsy Hk Hl2 Hcode) as CFh.
    apply (hcons_sim SContinue r false (fun f m => HCnt m) st st2 st' outer cur
             [byte_of_opcode ONull; byte_of_opcode OJump; T mod 256; (T / 256) mod 256] [] lp);
      try assumption; try reflexivity.
    - cbn [decl_names]. rewrite app_nil_r. exact CFh.
    - unfold last_instruction_is. rewrite Hlast. reflexivity.
    - split; [intros N; discriminate N|].
      intros prog lexit [E1 _ _] _ Hst fuel s Hip. cbn [simh_l]. unfold canon in E1.
      cbn [brk_holes flat_map] in E1. rewrite <- Hip in E1.
      change [byte_of_opcode ONull; byte_of_opcode OJump; T mod 256; (T / 256) mod 256]
        with ([byte_of_opcode ONull] ++ [byte_of_opcode OJump; T mod 256; (T / 256) mod 256]) in E1.
      apply code_x_app in E1. destruct E1 as [Ea Eb].
      exists (v_final s).
      pose proof (hstep_null orc prog s [] (code_x_at1 _ _ _ _ _ Ea (fun x => x))) as Hstep1.
      apply (reaches_trans orc prog s _ _ (reaches_step orc prog _ _ Hstep1)).
      set (sa := sethm s (VNull :: v_stack s) (v_slen s + 1) (v_ip s + 1) (hst_of s)) in *.
      change (v_ip s + zlength [byte_of_opcode ONull]) with (v_ip sa) in Eb.
      assert (0 <= T < 65536) as RT by (rewrite <- Hcs; change (2 ^ 16) with 65536 in Hlt; rewrite Hcs; lia).
      apply reaches_step.
      rewrite (hstep_jump orc prog sa T [] (code_x_at3 _ _ _ _ _ _ _ Eb (holes_free_nil _ _)) RT).
      rewrite Hcs. reflexivity.
  Qed.

  Lemma hssim_block : forall b, hlsim b -> hssim (SBlock b).
  Proof.
    intros b IHb r IHr lp st st' k outer cur HF Hs Hc.
    rewrite f2hb_cons in HF. apply andb_prop in HF. destruct HF as [HFb HFr]. rewrite f2hs_block in HFb.
    cbn [compile_statements] in Hc. apply bind_ok in Hc. destruct Hc as [st2 [H2 Hc]].
    rewrite cs_block in H2. set (names := flat outer cur) in *.
    destruct b as [|s0 b'].
    - (* the empty block: Null; Pop *)
      cbn [is_nil] in H2. inversion H2; subst st2; clear H2.
      pose proof (cfactsh_emit_opcode ONull st outer cur k Hs) as CF1.
      pose proof (cfactsh_emit_opcode OPop (emit_opcode ONull st) outer cur k Hs) as CF2.
      pose proof (cfactsh_trans _ _ _ _ _ _ _ _ _ _ CF1 CF2) as CFh. cbn [app] in CFh.
      apply (hcons_sim (SBlock []) r true (fun f m => hstmts orc pl f names [] VNull m)
               st (emit_opcode OPop (emit_opcode ONull st)) st' outer cur
               [byte_of_opcode ONull; byte_of_opcode OPop] [] lp);
        try assumption; try reflexivity.
      + cbn [decl_names]. rewrite app_nil_r. exact CFh.
      + split.
        * intros _. split; [exists [byte_of_opcode ONull]; reflexivity|]. cbn [brk_ok].
          rewrite !code_len_emit_opcode. lia.
        * intros prog lexit [E1 _ _] _ _ fuel s Hip. destruct fuel as [|f]; [exact I|]. rewrite hb_nil.
          cbn [simh_l]. unfold canon in E1. cbn [removelast brk_holes flat_map] in E1. rewrite <- Hip in E1.
          exists (v_final s). apply reaches_step.
          rewrite (hstep_null orc prog s [] (code_x_at1 _ _ _ _ _ E1 (fun x => x))), sethm_seth.
          f_equal. f_equal. apply seth_eq; [reflexivity|]. rewrite !code_len_emit_opcode, Hip. lia.
      + intros f last m. rewrite hb_block. cbn [decl_names]. rewrite app_nil_r. reflexivity.
    - cbn [is_nil] in H2. apply bind_ok in H2. destruct H2 as [st1 [H1 H2]]. inversion H2; subst st2; clear H2.
      set (st0 := set_symbols st (enter_scope (c_symbols st))) in *.
      assert (c_symbols st0 = stab k (outer ++ [cur]) []) as Hs0
        by (unfold st0; cbn [set_symbols c_symbols]; rewrite Hs; reflexivity).
      destruct (IHb lp st0 st1 k (outer ++ [cur]) [] HFb Hs0 H1) as [ce [nb [CFb [Hlastb [Hpopb Hsimb]]]]].
      destruct (cfh_syms _ _ _ _ _ _ CFb) as [k1 S1]. cbn [app] in S1.
      set (st1' := set_symbols st1 (leave_scope (c_symbols st1))) in *.
      assert (leave_scope (c_symbols st1) = stab k1 outer cur) as Hleave by (rewrite S1; apply leave_stab).
      pose proof (cfactsh_out _ _ _ _ _ outer cur k1 _ _ (cfactsh_in _ _ _ _ _ _ _ CFb) Hleave) as CFh.
      fold st1' in CFh.
      apply (hcons_sim (SBlock (s0 :: b')) r (ends_pop (s0 :: b'))
               (fun f m => hstmts orc pl f names (s0 :: b') VNull m) st st1' st' outer cur ce nb lp);
        try assumption.
      + cbn [decl_names]. rewrite app_nil_r. exact CFh.
      + rewrite <- Hlastb by discriminate. reflexivity.
      + rewrite stmt_pop_block. reflexivity.
      + split.
        * intros Ep. exact (Hpopb Ep).
        * intros prog lexit E Hle Hst fuel s Hip.
          specialize (Hsimb prog lexit (envh_in _ _ _ _ _ _ _ (envh_out _ _ _ _ _ _ _ E)) Hle Hst fuel s VNull Hip).
          rewrite flat_enter in Hsimb. exact Hsimb.
      + intros f last m. rewrite hb_block. cbn [decl_names]. rewrite app_nil_r. reflexivity.
  Qed.


  (** ** The patches at the end of a loop *)

  Definition put2 (T ip : Z) (code : list Z) : list Z :=
    replace_nth (Z.to_nat ip + 2) ((T / 256) mod 256) (replace_nth (Z.to_nat ip + 1) (T mod 256) code).

  Lemma wt_cons : forall T ip r code, write_targets T (ip :: r) code = write_targets T r (put2 T ip code).
  Proof. reflexivity. Qed.

  Lemma put2_length : forall T ip code, length (put2 T ip code) = length code.
  Proof. intros. unfold put2. rewrite !length_replace_nth'. reflexivity. Qed.

  Lemma wt_length : forall T nb code, length (write_targets T nb code) = length code.
  Proof.
    intros T nb. induction nb as [|ip r IH]; intros code; [reflexivity|].
    rewrite wt_cons, IH. apply put2_length.
  Qed.

  Lemma put2_other : forall T ip code q, q <> (Z.to_nat ip + 1)%nat -> q <> (Z.to_nat ip + 2)%nat ->
    nth_error (put2 T ip code) q = nth_error code q.
  Proof.
    intros T ip code q H1 H2. unfold put2.
    rewrite !nth_error_replace_nth_other by (intros N; lia). reflexivity.
  Qed.

  Lemma wt_other : forall T nb code q,
    (forall ip, In ip nb -> q <> (Z.to_nat ip + 1)%nat /\ q <> (Z.to_nat ip + 2)%nat) ->
    nth_error (write_targets T nb code) q = nth_error code q.
  Proof.
    intros T nb. induction nb as [|ip r IH]; intros code q H; [reflexivity|].
    rewrite wt_cons, IH.
    - destruct (H ip (or_introl eq_refl)) as [H1 H2]. apply put2_other; assumption.
    - intros ip' Hin. apply H. right. exact Hin.
  Qed.

  Lemma wt_at : forall T nb lo hi code ip, brk_ok lo nb hi -> 0 <= lo -> hi <= Z.of_nat (length code) ->
    In ip nb ->
    nth_error (write_targets T nb code) (Z.to_nat ip + 1) = Some (T mod 256) /\
    nth_error (write_targets T nb code) (Z.to_nat ip + 2) = Some ((T / 256) mod 256).
  Proof.
    intros T nb. induction nb as [|ip0 r IH]; intros lo hi code ip B Hlo Hhi Hin; [destruct Hin|].
    cbn [brk_ok] in B. destruct B as [B0 Br]. rewrite wt_cons. destruct Hin as [->|Hin].
    - pose proof (brk_ok_le _ _ _ Br) as Hle.
      assert (forall ip', In ip' r -> ip + 3 <= ip') as Hafter.
      { intros ip' Hi. exact (proj1 (brk_ok_in _ _ _ _ Br Hi)). }
      rewrite !wt_other.
      + unfold put2. split.
        * rewrite nth_error_replace_nth_other by lia. apply nth_error_replace_nth_same. lia.
        * apply nth_error_replace_nth_same. rewrite length_replace_nth'. lia.
      + intros ip' Hi. specialize (Hafter ip' Hi). lia.
      + intros ip' Hi. specialize (Hafter ip' Hi). lia.
    - apply (IH (ip0 + 3) hi); [exact Br|lia|rewrite put2_length; exact Hhi|exact Hin].
  Qed.

  Lemma wt_prefix : forall T nb a b, (forall ip, In ip nb -> (length a <= Z.to_nat ip)%nat) ->
    exists b', write_targets T nb (a ++ b) = a ++ b' /\ length b' = length b.
  Proof.
    intros T nb. induction nb as [|ip r IH]; intros a b H.
    - exists b. split; reflexivity.
    - rewrite wt_cons. pose proof (H ip (or_introl eq_refl)) as Hip.
      assert (put2 T ip (a ++ b) = a ++ put2 T (ip - Z.of_nat (length a)) b) as ->.
      { unfold put2.
        replace (Z.to_nat ip + 1)%nat with (length a + (Z.to_nat (ip - Z.of_nat (length a)) + 1))%nat by lia.
        replace (Z.to_nat ip + 2)%nat with (length a + (Z.to_nat (ip - Z.of_nat (length a)) + 2))%nat by lia.
        rewrite !replace_nth_app2. reflexivity. }
      destruct (IH a (put2 T (ip - Z.of_nat (length a)) b) (fun ip' Hi => H ip' (or_intror Hi))) as [b' [E L]].
      exists b'. split; [exact E|]. rewrite L. apply put2_length.
  Qed.


  (** ** zolang *)

  (* what the machine does from the loop head with `lastv` on top of the stack of state s *)
  Definition hloop_post (prog : program) (s sh : vm) (lexit : Z) (r : hres val) : Prop :=
    match r with
    | HOk v m' => exists fin', reaches orc prog sh (seth s (v :: v_stack s) (v_slen s + 1) lexit m' fin')
    | HBrk _ | HCnt _ => False
    | HErr k out => stops orc prog sh (Err k) out
    | HFault f out => stops orc prog sh (Fault f) out
    | HFuel => True
    end.

  Lemma hesim_while : forall c body, hesim c -> hlsim body -> hesim (EWhile c body).
  Proof.
    intros c body IHc IHb lp st st' k outer cur HF Hs Hc.
    rewrite f2he_while in HF. apply andb_prop in HF. destruct HF as [Hfc Hfb].
    rewrite ce_while in Hc. cbv zeta in Hc.
    set (st1 := emit_opcode ONull st) in *.
    pose proof (code_len_emit_opcode ONull st) as L1. fold st1 in L1.
    set (start := code_len st1) in *.
    set (st2 := set_loops st1 (c_loops st1 ++ [mkLoop start []])) in *.
    apply bind_ok in Hc. destruct Hc as [st3 [H3 Hc]].
    apply bind_ok in Hc. destruct Hc as [st5 [H5 Hc]].
    apply bind_ok in Hc. destruct Hc as [back [Hb Hc]].
    apply bind_ok in Hc. destruct Hc as [target [Ht Hc]].
    apply bind_ok in Hc. destruct Hc as [st8 [H8 Hc]].
    assert (c_symbols st2 = stab k outer cur) as Hs2 by exact Hs.
    destruct (IHc false st2 st3 k outer cur Hfc Hs2 H3) as [ce_c [nb_c [CF3 Hsimc]]].
    destruct (cfh_syms _ _ _ _ _ _ CF3) as [k3 Hs3].
    set (PHlo := JUMP_PLACEHOLDER mod 256) in *. set (PHhi := (JUMP_PLACEHOLDER / 256) mod 256) in *.
    set (st4 := emit_opcode OPop (emit_u16 JUMP_PLACEHOLDER (emit_opcode OJumpIfFalse st3))) in *.
    assert (cfactsh st3 st4 outer cur [byte_of_opcode OJumpIfFalse; PHlo; PHhi; byte_of_opcode OPop] []) as CF34.
    { apply (cfactsh_emit _ _ outer cur k3); auto. unfold st4. cbn [emit_opcode emit_u16 c_code].
      rewrite <- !app_assoc. reflexivity. }
    assert (c_symbols st4 = stab k3 outer cur) as Hs4 by exact Hs3.
    destruct (hbv_sim body IHb true st4 st5 k3 outer cur Hfb Hs4 H5) as [ce_b [nb_b [CF5 Hsimb]]].
    destruct (cfh_syms _ _ _ _ _ _ CF5) as [k5 Hs5].
    destruct (operand16_code_len _ _ Hb) as [-> Rs]. clear Hb.
    set (st7 := emit_u16 start (emit_opcode OJump st5)) in *.
    pose proof (cfactsh_emit_u16op OJump start st5 outer cur k5 Hs5) as CF57. fold st7 in CF57.
    destruct (operand16_code_len _ _ Ht) as [-> Re]. clear Ht.
    set (lexit_in := code_len st7) in *.
    pose proof (cfactsh_trans _ _ _ _ _ _ _ _ _ _ CF3 (cfactsh_trans _ _ _ _ _ _ _ _ _ _ CF34
                 (cfactsh_trans _ _ _ _ _ _ _ _ _ _ CF5 CF57))) as CF27.
    set (jmp3 := [byte_of_opcode OJump; start mod 256; (start / 256) mod 256]) in *.
    set (nbi := nb_c ++ nb_b).
    assert (cfactsh st2 st7 outer cur
              (ce_c ++ byte_of_opcode OJumpIfFalse :: PHlo :: PHhi :: (byte_of_opcode OPop :: ce_b ++ jmp3)) nbi) as CF27'.
    { apply (cfactsh_eq _ _ _ _ _ _ _ _ CF27); unfold nbi; cbn [app]; rewrite ?app_nil_r; reflexivity. }
    clear CF27.
    pose proof (cfactsh_len _ _ _ _ _ _ CF3) as L3. rewrite L3 in H8.
    destruct (cfactsh_patch_at _ _ _ _ _ _ _ _ _ _ _ lexit_in CF27' H8) as [CF28 [L8 _]].
    set (jif4 := [byte_of_opcode OJumpIfFalse; lexit_in mod 256; (lexit_in / 256) mod 256; byte_of_opcode OPop]) in *.
    set (W8 := ce_c ++ jif4 ++ ce_b ++ jmp3).
    assert (cfactsh st2 st8 outer cur W8 nbi) as CF28' by exact CF28. clear CF28.
    (* the innermost context is popped *)
    pose proof (cfh_loops _ _ _ _ _ _ CF28') as Lp8.
    assert (c_loops st2 = c_loops st ++ [mkLoop start []]) as Lp2 by reflexivity.
    rewrite Lp2, add_breaks_snoc in Lp8. cbn [l_start l_breaks app] in Lp8.
    rewrite Lp8, rev_unit in Hc. cbn [l_breaks] in Hc. rewrite rev_involutive in Hc.
    pose proof (cfh_brk _ _ _ _ _ _ CF28') as B28.
    assert (0 <= code_len st2) as Hpos2 by apply code_len_nonneg.
    assert (Forall (fun ip => 0 <= ip) nbi) as Hposn.
    { apply Forall_forall. intros ip Hin. destruct (brk_ok_in _ _ _ _ B28 Hin). lia. }
    destruct (patch_breaks_spec _ _ _ Hposn Hc) as [P1 [P2 [P3 [P4 [P5 [_ P7]]]]]].
    cbn [set_loops c_symbols c_constants c_loops c_last c_code] in P1, P2, P3, P5, P7.
    assert (code_len (set_loops st8 (c_loops st)) = lexit_in) as Lx by (unfold lexit_in; rewrite <- L8; reflexivity).
    rewrite Lx in P7.
    pose proof (cfh_code _ _ _ _ _ _ CF28') as C8.
    assert (c_code st2 = c_code st ++ [byte_of_opcode ONull]) as C2 by reflexivity.
    rewrite C2, <- app_assoc in C8. set (W8f := [byte_of_opcode ONull] ++ W8) in *.
    assert (code_len st2 = code_len st + 1) as L2 by exact L1.
    assert (forall ip, In ip nbi -> (length (c_code st) <= Z.to_nat ip)%nat) as Hpre.
    { intros ip Hin. destruct (brk_ok_in _ _ _ _ B28 Hin) as [Q _]. unfold code_len, zlength in L2, Q. lia. }
    rewrite C8 in P7. destruct (wt_prefix lexit_in nbi (c_code st) W8f Hpre) as [W' [EW' LW']].
    rewrite EW' in P7.
    assert (code_len st' = lexit_in) as L'.
    { rewrite <- Lx. apply code_len_length. exact P5. }
    (* constants *)
    assert (cexth st2 st8) as X28 by exact (cexth_cfactsh _ _ _ _ _ _ CF28').
    assert (cexth st8 st') as X8' by (apply cexth_eq; exact P2).
    assert (cexth st2 st') as X2' by exact (cexth_trans _ _ _ X28 X8').
    exists W', []. split.
    { constructor.
      - destruct (cfh_syms _ _ _ _ _ _ CF28') as [k8 Hs8]. exists k8. congruence.
      - exact P7.
      - exact (cexth_trans st st2 st' (cexth_eq st st2 eq_refl) X2').
      - rewrite add_breaks_nil. exact P3.
      - reflexivity.
      - cbn [brk_ok]. rewrite L'. unfold lexit_in. rewrite (cfactsh_len _ _ _ _ _ _ CF57).
        pose proof (brk_ok_le _ _ _ (cfh_brk _ _ _ _ _ _ CF5)). pose proof (brk_ok_le _ _ _ (cfh_brk _ _ _ _ _ _ CF34)).
        pose proof (brk_ok_le _ _ _ (cfh_brk _ _ _ _ _ _ CF3)). unfold jmp3. rewrite zlength3. lia. }
    (* the run *)
    intros prog lexit E Hle Hst fuel s Hip. destruct fuel as [|f]; [exact I|].
    rewrite he_while. set (names := flat outer cur) in *.
    destruct E as [[E0 Ecode] Econsts _].
    (* the final program, seen as the unpatched loop code with the stop jumps pending *)
    assert (forall i b, nth_error W8f i = Some b -> ~ In (code_len st + Z.of_nat i) (brk_holes nbi) ->
                        byte_at prog (code_len st + Z.of_nat i) = Some b) as Hbytes.
    { intros i b Hi Hn. apply Ecode; [|intros []].
      assert (nth_error (c_code st') (length (c_code st) + i) = Some b) as Hc'.
      { rewrite P7, <- EW'. rewrite wt_other.
        - rewrite nth_error_app2 by lia. replace (length (c_code st) + i - length (c_code st))%nat with i by lia.
          exact Hi.
        - intros ip Hin. pose proof (Hpre ip Hin) as Q. destruct (brk_ok_in _ _ _ _ B28 Hin) as [Q1 _].
          assert (~ (code_len st + Z.of_nat i = ip + 1 \/ code_len st + Z.of_nat i = ip + 2)) as Hn'.
          { intros Hor. apply Hn. apply in_brk_holes. exists ip. split; [exact Hin|exact Hor]. }
          unfold code_len, zlength in Hn'. lia. }
      rewrite P7, nth_error_app2 in Hc' by lia.
      replace (length (c_code st) + i - length (c_code st))%nat with i in Hc' by lia. exact Hc'. }
    assert (brk_target prog nbi lexit_in) as Htarget.
    { intros ip Hin. destruct (brk_ok_in _ _ _ _ B28 Hin) as [Q1 Q2]. pose proof (Hpre ip Hin) as Q.
      assert (lexit_in <= Z.of_nat (length (c_code st ++ W8f))) as Hhi.
      { rewrite <- C8. unfold lexit_in. rewrite <- L8. unfold code_len, zlength. lia. }
      rewrite L8 in B28. fold lexit_in in B28.
      destruct (wt_at lexit_in nbi _ _ (c_code st ++ W8f) ip B28 Hpos2 Hhi Hin) as [A1 A2].
      rewrite EW' in A1, A2.
      rewrite nth_error_app2 in A1, A2 by lia.
      pose proof (Ecode _ _ A1 (fun x => match x with end)) as B1.
      pose proof (Ecode _ _ A2 (fun x => match x with end)) as B2.
      unfold code_len, zlength in B1, B2, L2, Q1.
      replace (Z.of_nat (length (c_code st)) + Z.of_nat (Z.to_nat ip + 1 - length (c_code st))) with (ip + 1) in B1 by lia.
      replace (Z.of_nat (length (c_code st)) + Z.of_nat (Z.to_nat ip + 2 - length (c_code st))) with (ip + 2) in B2 by lia.
      split; assumption. }
    assert (envh prog st st' W8f ([] ++ nbi) lexit_in) as E8.
    { constructor; [split; [exact E0|exact Hbytes]|exact Econsts|exact Htarget]. }
    (* the pieces *)
    pose proof (cfh_brk _ _ _ _ _ _ CF3) as B3. pose proof (cfh_brk _ _ _ _ _ _ CF5) as B5.
    pose proof (cfactsh_len _ _ _ _ _ _ CF34) as L4. pose proof (cfactsh_len _ _ _ _ _ _ CF5) as L5.
    pose proof (cfactsh_len _ _ _ _ _ _ CF57) as L7. unfold jmp3 in L7. rewrite zlength3 in L7.
    change (zlength [byte_of_opcode OJumpIfFalse; PHlo; PHhi; byte_of_opcode OPop]) with 4 in L4.
    assert (brk_ok (code_len st2) nbi (code_len st5)) as B25.
    { apply (brk_ok_app _ _ _ (code_len st3) _ B3). apply (brk_ok_widen _ _ _ _ _ B5); lia. }
    assert (code_len st2 = code_len st + zlength [byte_of_opcode ONull]) as L2' by exact L2.
    destruct (envh_split prog st st2 st' [byte_of_opcode ONull] W8 [] nbi lexit_in _ L2'
                ltac:(cbn [brk_ok]; lia) B25 X2' E8) as [Enull E2].
    assert (0 <= code_len st2 + zlength ce_c) as Hp8 by (rewrite <- L3; apply code_len_nonneg).
    assert (cexth st3 st') as X3'.
    { apply (cexth_trans _ st4); [exact (cexth_cfactsh _ _ _ _ _ _ CF34)|].
      apply (cexth_trans _ st5); [exact (cexth_cfactsh _ _ _ _ _ _ CF5)|].
      apply (cexth_trans _ st7); [exact (cexth_cfactsh _ _ _ _ _ _ CF57)|].
      apply (cexth_trans _ st8); [apply cexth_eq|exact X8'].
      exact (proj1 (proj2 (change_jump_spec _ _ _ _ Hp8 H8))). }
    assert (cexth st4 st') as X4'.
    { destruct X3' as [kx A]. exists kx. exact A. }
    assert (cexth st5 st') as X5'.
    { apply (cexth_trans _ st7); [exact (cexth_cfactsh _ _ _ _ _ _ CF57)|].
      apply (cexth_trans _ st8); [apply cexth_eq|exact X8'].
      exact (proj1 (proj2 (change_jump_spec _ _ _ _ Hp8 H8))). }
    assert (brk_ok (code_len st3) nb_b (code_len st5)) as B35 by (apply (brk_ok_widen _ _ _ _ _ B5); lia).
    destruct (envh_split prog st2 st3 st' ce_c _ nb_c nb_b lexit_in _ L3 B3 B35 X3' E2) as [Ec E3].
    assert (code_len st4 = code_len st3 + zlength jif4) as L4' by exact L4.
    destruct (envh_split prog st3 st4 st' jif4 _ [] nb_b lexit_in _ L4'
                ltac:(cbn [brk_ok]; lia) B5 X4' E3) as [Ejif E4].
    rewrite <- (app_nil_r nb_b) in E4.
    destruct (envh_split prog st4 st5 st' ce_b jmp3 nb_b [] lexit_in (code_len st') L5 B5
                ltac:(cbn [brk_ok]; lia) X5' E4) as [Eb Ejmp].
    (* instructions of the loop skeleton *)
    destruct Enull as [Enullc _ _]. cbn [brk_holes flat_map] in Enullc.
    pose proof (code_x_at1 _ _ _ _ _ Enullc (fun x => x)) as Hnull.
    destruct Ejif as [Ejifc _ _]. cbn [brk_holes flat_map] in Ejifc.
    change jif4 with ([byte_of_opcode OJumpIfFalse; lexit_in mod 256; (lexit_in / 256) mod 256] ++ [byte_of_opcode OPop]) in Ejifc.
    apply code_x_app in Ejifc. destruct Ejifc as [Ejc Epc]. rewrite zlength3 in Epc.
    pose proof (code_x_at3 _ _ _ _ _ _ _ Ejc (holes_free_nil _ _)) as Hjif.
    pose proof (code_x_at1 _ _ _ _ _ Epc (fun x => x)) as Hpop.
    destruct Ejmp as [Ejmpc _ _]. cbn [brk_holes flat_map] in Ejmpc.
    pose proof (code_x_at3 _ _ _ _ _ _ _ Ejmpc (holes_free_nil _ _)) as Hjmp.
    (* loop contexts of the pieces *)
    assert (cur_start (c_loops st2) = start) as Cs2 by (rewrite Lp2; apply cur_start_snoc).
    assert (cur_start (c_loops st4) = start) as Cs4.
    { change (c_loops st4) with (c_loops st3). rewrite (cfh_loops _ _ _ _ _ _ CF3), cur_start_add. exact Cs2. }
    assert (0 <= start) as Hstart by lia.
    (* the loop invariant *)
    set (stk := v_stack s). set (n := v_slen s).
    assert (forall fuel lastv m fin,
              hloop_post prog s (seth s (lastv :: stk) (n + 1) start m fin) lexit_in
                        (hwhile orc pl fuel names c body lastv m)) as Hloop.
    { induction fuel as [|f' IHf]; intros lastv m fin; [exact I|].
      rewrite hw_step. set (sh := seth s (lastv :: stk) (n + 1) start m fin).
      pose proof (Hsimc prog lexit_in Ec Re ltac:(rewrite Cs2; exact Hstart) f' sh eq_refl) as Hc1.
      rewrite Cs2 in Hc1. unfold sh in Hc1 at 2. rewrite hst_of_seth in Hc1. fold names in Hc1.
      destruct (heval orc pl f' names c m) as [b m1|m1|m1|e eo|y yo|] eqn:E1; cbn [hbind hloop_post];
        try exact Hc1; try (hnosig_contra f' c names m Hfc E1).
      cbn [simh] in Hc1. destruct Hc1 as [fin1 Hc1].
      set (sa := seth sh (b :: v_stack sh) (v_slen sh + 1) (code_len st3) m1 fin1) in *.
      pose proof (hstep_jif orc prog sa lexit_in b (lastv :: stk) [] Hjif Re eq_refl) as Hstepj.
      destruct b as [|bb| | | | |];
        try (cbn [hloop_post]; apply (reaches_stops orc prog sh sa _ _ Hc1); apply (stops_now orc prog sa _ Hstepj)).
      destruct bb.
      - (* another iteration: Pop the previous value, run the body *)
        set (sp := sethm sa (lastv :: stk) (v_slen sa - 1) (v_ip sa + 3) (hst_of sa)) in *.
        assert (code_at prog (v_ip sp) [byte_of_opcode OPop]) as Hpop' by exact Hpop.
        pose proof (hstep_pop orc prog sp lastv stk [] Hpop' eq_refl) as Hstepp.
        set (sb := seth s stk n (code_len st4) m1 lastv).
        assert (seth sp stk (v_slen sp - 1) (v_ip sp + 1) (hst_of sp) lastv = sb) as Esb.
        { subst sp sa sh sb. unfold sethm, seth, hst_of. vmcbnh. f_equal; lia. }
        rewrite Esb in Hstepp.
        assert (reaches orc prog sh sb) as Hsb.
        { apply (reaches_trans orc prog sh sa _ Hc1).
          apply (reaches_trans orc prog sa sp _ (reaches_step orc prog _ _ Hstepj)).
          apply reaches_step. exact Hstepp. }
        pose proof (Hsimb prog lexit_in Eb Re ltac:(rewrite Cs4; exact Hstart) f' sb eq_refl) as Hb1.
        rewrite Cs4 in Hb1. unfold sb in Hb1 at 2. rewrite hst_of_seth in Hb1. fold names in Hb1.
        destruct (hstmts orc pl f' names body VNull m1) as [v m2|m2|m2|e eo|y yo|]; cbn [simh hloop_post] in *.
        + destruct Hb1 as [fin2 Hb1].
          set (sc := seth sb (v :: v_stack sb) (v_slen sb + 1) (code_len st5) m2 fin2) in *.
          pose proof (hstep_jump orc prog sc start [] Hjmp Rs) as Hstepm.
          assert (sethm sc (v_stack sc) (v_slen sc) start (hst_of sc) = seth s (v :: stk) (n + 1) start m2 fin2) as Esc.
          { subst sc sb. unfold sethm, seth, hst_of. vmcbnh. reflexivity. }
          rewrite Esc in Hstepm.
          specialize (IHf v m2 fin2).
          assert (reaches orc prog sh (seth s (v :: stk) (n + 1) start m2 fin2)) as Hback.
          { apply (reaches_trans orc prog sh sb _ Hsb). apply (reaches_trans orc prog sb sc _ Hb1).
            apply reaches_step. exact Hstepm. }
          destruct (hwhile orc pl f' names c body v m2) as [v3 m3|m3|m3|e eo|y yo|]; cbn [hloop_post] in *;
            try contradiction; try exact I.
          * destruct IHf as [fin3 IHf]. exists fin3. exact (reaches_trans orc prog _ _ _ Hback IHf).
          * exact (reaches_stops orc prog _ _ _ _ Hback IHf).
          * exact (reaches_stops orc prog _ _ _ _ Hback IHf).
        + (* stop *)
          destruct Hb1 as [fin2 Hb1]. exists fin2. exact (reaches_trans orc prog sh sb _ Hsb Hb1).
        + (* volgende *)
          destruct Hb1 as [fin2 Hb1].
          specialize (IHf VNull m2 fin2).
          assert (reaches orc prog sh (seth s (VNull :: stk) (n + 1) start m2 fin2)) as Hback
            by exact (reaches_trans orc prog sh sb _ Hsb Hb1).
          destruct (hwhile orc pl f' names c body VNull m2) as [v3 m3|m3|m3|e eo|y yo|]; cbn [hloop_post] in *;
            try contradiction; try exact I.
          * destruct IHf as [fin3 IHf]. exists fin3. exact (reaches_trans orc prog _ _ _ Hback IHf).
          * exact (reaches_stops orc prog _ _ _ _ Hback IHf).
          * exact (reaches_stops orc prog _ _ _ _ Hback IHf).
        + exact (reaches_stops orc prog sh sb _ _ Hsb Hb1).
        + exact (reaches_stops orc prog sh sb _ _ Hsb Hb1).
        + exact I.
      - (* the condition is false: the loop's value is the value of the last iteration *)
        exists fin1. apply (reaches_trans orc prog sh sa _ Hc1). apply reaches_step. rewrite Hstepj.
        f_equal. f_equal. subst sa sh. unfold sethm, seth, hst_of. vmcbnh. f_equal; lia. }
    (* enter the loop *)
    rewrite <- Hip in Hnull.
    pose proof (hstep_null orc prog s [] Hnull) as Hstep0.
    assert (sethm s (VNull :: v_stack s) (v_slen s + 1) (v_ip s + 1) (hst_of s)
            = seth s (VNull :: stk) (n + 1) start (hst_of s) (v_final s)) as Es0.
    { unfold sethm, seth, hst_of. vmcbnh. rewrite L1, Hip. reflexivity. }
    rewrite Es0 in Hstep0.
    specialize (Hloop f VNull (hst_of s) (v_final s)). rewrite L'.
    destruct (hwhile orc pl f names c body VNull (hst_of s)) as [v3 m3|m3|m3|e eo|y yo|]; cbn [hloop_post simh] in *;
      try contradiction; try exact I.
    - destruct Hloop as [fin3 Hloop]. exists fin3.
      exact (reaches_trans orc prog _ _ _ (reaches_step orc prog _ _ Hstep0) Hloop).
    - exact (reaches_stops orc prog _ _ _ _ (reaches_step orc prog _ _ Hstep0) Hloop).
    - exact (reaches_stops orc prog _ _ _ _ (reaches_step orc prog _ _ Hstep0) Hloop).
  Qed.


  (** ** Operand lists: elements of an array literal, arguments of a call *)

  Lemma heval_list_length : forall fuel names l m xs m',
    heval_list orc pl fuel names l m = HOk xs m' -> length xs = length l.
  Proof.
    intros fuel names l. induction l as [|x r IH]; intros m xs m' H.
    - rewrite hl_nil in H. inversion H; reflexivity.
    - rewrite hl_cons in H. destruct (heval orc pl fuel names x m) as [v m1| | | | |]; try discriminate H.
      cbn [hbind] in H. destruct (heval_list orc pl fuel names r m1) as [vs m2| | | | |] eqn:E; try discriminate H.
      cbn [hbind] in H. inversion H; subst. cbn [length]. rewrite (IH m1 vs m' E). reflexivity.
  Qed.

  Lemma seth_self : forall s, seth s (v_stack s) (v_slen s) (v_ip s) (hst_of s) (v_final s) = s.
  Proof. destruct s; reflexivity. Qed.

  Lemma helsim_of_forall : forall l, Forall hesim l -> helsim l.
  Proof.
    intros l H. induction H as [|x r Hx Hr IH].
    - intros st st' k outer cur HF Hs Hc. cbn [c_exprs] in Hc. inversion Hc; subst st'; clear Hc.
      exists [], []. split; [apply (cfactsh_emit _ _ outer cur k); auto; rewrite app_nil_r; reflexivity|].
      intros prog lexit _ _ _ fuel s Hip. rewrite hl_nil. cbn [simh_list rev app].
      exists (v_final s). change (zlength (@nil val)) with 0. rewrite Z.add_0_r, <- Hip, seth_self.
      apply reaches_refl.
    - intros st st' k outer cur HF Hs Hc. rewrite f2hl_cons in HF. apply andb_prop in HF. destruct HF as [HFx HFr].
      cbn [c_exprs] in Hc. apply bind_ok in Hc. destruct Hc as [st1 [H1 Hc]].
      destruct (Hx false st st1 k outer cur HFx Hs H1) as [ce1 [nb1 [CF1 Hsim1]]].
      destruct (cfh_syms _ _ _ _ _ _ CF1) as [k1 Hs1].
      destruct (IH st1 st' k1 outer cur HFr Hs1 Hc) as [ce2 [nb2 [CF2 Hsim2]]].
      pose proof (cfactsh_trans _ _ _ _ _ _ _ _ _ _ CF1 CF2) as CF.
      eexists; eexists. split; [exact CF|].
      intros prog lexit E Hle Hst fuel s Hip. rewrite hl_cons.
      pose proof (envh_left _ _ _ _ _ _ _ _ _ _ _ _ CF1 CF2 E) as EL.
      pose proof (envh_right _ _ _ _ _ _ _ _ _ _ _ _ CF1 CF2 E) as ER.
      specialize (Hsim1 prog lexit EL Hle Hst fuel s Hip).
      pose proof (proj1 (heval_nosig orc pl fuel) x (flat outer cur) (hst_of s) HFx) as Hns.
      destruct (heval orc pl fuel (flat outer cur) x (hst_of s)) as [v m1|m1|m1|e eo|y yo|] eqn:E1;
        cbn [hbind hnosig] in *; try contradiction; try exact Hsim1.
      destruct Hsim1 as [fin1 Hsim1].
      set (sa := seth s (v :: v_stack s) (v_slen s + 1) (code_len st1) m1 fin1) in *.
      assert (0 <= cur_start (c_loops st1)) as Hst1.
      { rewrite (cfh_loops _ _ _ _ _ _ CF1), cur_start_add. exact Hst. }
      specialize (Hsim2 prog lexit ER Hle Hst1 fuel sa eq_refl).
      unfold sa in Hsim2 at 2. rewrite hst_of_seth in Hsim2.
      destruct (heval_list orc pl fuel (flat outer cur) r m1) as [vs m2|m2|m2|e eo|y yo|] eqn:E2;
        cbn [hbind simh_list] in *; try contradiction;
        try (apply (reaches_stops orc prog s sa _ _ Hsim1); exact Hsim2); try exact I.
      destruct Hsim2 as [fin2 Hsim2]. exists fin2.
      apply (reaches_trans orc prog s sa _ Hsim1).
      replace (seth s (rev (v :: vs) ++ v_stack s) (v_slen s + zlength (v :: vs)) (code_len st') m2 fin2)
        with (seth sa (rev vs ++ v_stack sa) (v_slen sa + zlength vs) (code_len st') m2 fin2); [exact Hsim2|].
      subst sa. unfold seth. vmcbnh. cbn [rev]. rewrite <- app_assoc, zlength_cons. cbn [app]. f_equal. lia.
  Qed.

  (** ** Array literals *)

  Lemma hesim_array : forall vs, helsim vs -> hesim (EArray vs).
  Proof.
    intros vs IH lp st st' k outer cur HF Hs Hc. rewrite f2he_array in HF.
    rewrite ce_array in Hc. apply bind_ok in Hc. destruct Hc as [st1 [H1 Hc]].
    apply bind_ok in Hc. destruct Hc as [n [Hn Hc]]. inversion Hc; subst st'; clear Hc.
    destruct (operand16_ok _ _ (zlength_nonneg _ vs) Hn) as [-> Hr]. clear Hn.
    destruct (IH st st1 k outer cur HF Hs H1) as [ce1 [nb1 [CF1 Hsim1]]].
    destruct (cfh_syms _ _ _ _ _ _ CF1) as [k1 Hs1].
    pose proof (cfactsh_emit_u16op OArray (zlength vs) st1 outer cur k1 Hs1) as CF2.
    pose proof (cfactsh_trans _ _ _ _ _ _ _ _ _ _ CF1 CF2) as CF.
    eexists; eexists. split; [exact CF|].
    intros prog lexit E Hle Hst fuel s Hip. destruct fuel as [|f]; [exact I|].
    rewrite he_array.
    pose proof (envh_left _ _ _ _ _ _ _ _ _ _ _ _ CF1 CF2 E) as EL.
    pose proof (envh_right _ _ _ _ _ _ _ _ _ _ _ _ CF1 CF2 E) as ER.
    specialize (Hsim1 prog lexit EL Hle Hst f s Hip).
    destruct (heval_list orc pl f (flat outer cur) vs (hst_of s)) as [xs m1|m1|m1|e eo|y yo|] eqn:E1;
      cbn [hbind simh_list] in *; try contradiction; try exact Hsim1.
    destruct Hsim1 as [fin1 Hsim1].
    set (sa := seth s (rev xs ++ v_stack s) (v_slen s + zlength xs) (code_len st1) m1 fin1) in *.
    destruct ER as [ERc _ _]. cbn [brk_holes flat_map] in ERc.
    pose proof (code_x_at3 _ _ _ _ _ _ _ ERc (holes_free_nil _ _)) as Hat.
    assert (zlength xs = zlength vs) as Hlen.
    { unfold zlength. rewrite (heval_list_length _ _ _ _ _ _ E1). reflexivity. }
    pose proof (hstep_array orc prog sa (zlength vs) xs (v_stack s) [] Hat Hr eq_refl Hlen) as Hstep.
    rewrite (hst_of_seth _ _ _ _ m1 _ : hst_of sa = m1) in Hstep.
    cbn [stepped] in Hstep. rewrite (surjective_pairing (h_array m1 xs)) in Hstep.
    cbn [hlift_o simh]. exists fin1. apply (reaches_trans orc prog s sa _ Hsim1). apply reaches_step.
    rewrite Hstep. f_equal. f_equal.
    pose proof (cfactsh_len _ _ _ _ _ _ CF2) as L2. rewrite zlength3 in L2.
    subst sa. unfold sethm, seth. vmcbnh. rewrite L2. f_equal; lia.
  Qed.

  (** ** Indexing *)

  Lemma f2he_index' : forall lp l i, f2he lp (EIndex l i) = f2he false l && f2he false i.
  Proof. reflexivity. Qed.

  Lemma hesim_index : forall l i, hesim l -> hesim i -> hesim (EIndex l i).
  Proof.
    intros l i IHl IHi lp st st' k outer cur HF Hs Hc. rewrite f2he_index in HF.
    apply andb_prop in HF. destruct HF as [Hl Hi].
    rewrite ce_index in Hc. apply bind_ok in Hc. destruct Hc as [st1 [H1 Hc]].
    apply bind_ok in Hc. destruct Hc as [st2 [H2 Hc]]. inversion Hc; subst st'; clear Hc.
    destruct (IHl false st st1 k outer cur Hl Hs H1) as [ce1 [nb1 [CF1 Hsim1]]].
    destruct (cfh_syms _ _ _ _ _ _ CF1) as [k1 Hs1].
    destruct (IHi false st1 st2 k1 outer cur Hi Hs1 H2) as [ce2 [nb2 [CF2 Hsim2]]].
    destruct (cfh_syms _ _ _ _ _ _ CF2) as [k2 Hs2].
    pose proof (cfactsh_emit_opcode OIndexGet st2 outer cur k2 Hs2) as CF3.
    pose proof (cfactsh_trans _ _ _ _ _ _ _ _ _ _ CF2 CF3) as CF23.
    pose proof (cfactsh_trans _ _ _ _ _ _ _ _ _ _ CF1 CF23) as CF.
    eexists; eexists. split; [exact CF|].
    intros prog lexit E Hle Hst fuel s Hip. destruct fuel as [|f]; [exact I|].
    rewrite he_index.
    pose proof (envh_left _ _ _ _ _ _ _ _ _ _ _ _ CF1 CF23 E) as EL.
    pose proof (envh_right _ _ _ _ _ _ _ _ _ _ _ _ CF1 CF23 E) as ER.
    pose proof (envh_left _ _ _ _ _ _ _ _ _ _ _ _ CF2 CF3 ER) as ERL.
    pose proof (envh_right _ _ _ _ _ _ _ _ _ _ _ _ CF2 CF3 ER) as ERR.
    specialize (Hsim1 prog lexit EL Hle Hst f s Hip).
    destruct (heval orc pl f (flat outer cur) l (hst_of s)) as [a m1|m1|m1|e eo|y yo|] eqn:E1; cbn [hbind];
      try exact Hsim1; try (hnosig_contra f l (flat outer cur) (hst_of s) Hl E1).
    cbn [simh] in Hsim1. destruct Hsim1 as [fin1 Hsim1].
    set (sa := seth s (a :: v_stack s) (v_slen s + 1) (code_len st1) m1 fin1) in *.
    assert (0 <= cur_start (c_loops st1)) as Hst1.
    { rewrite (cfh_loops _ _ _ _ _ _ CF1), cur_start_add. exact Hst. }
    specialize (Hsim2 prog lexit ERL Hle Hst1 f sa eq_refl).
    rewrite (cfh_loops _ _ _ _ _ _ CF1), cur_start_add in Hsim2.
    unfold sa in Hsim2 at 2. rewrite hst_of_seth in Hsim2.
    destruct (heval orc pl f (flat outer cur) i m1) as [b m2|m2|m2|e eo|y yo|] eqn:E2; cbn [hbind];
      try (hnosig_contra f i (flat outer cur) m1 Hi E2);
      try (cbn [simh] in *; apply (reaches_stops orc prog s sa _ _ Hsim1); exact Hsim2); try exact I.
    cbn [simh] in Hsim2. destruct Hsim2 as [fin2 Hsim2].
    set (sb := seth sa (b :: v_stack sa) (v_slen sa + 1) (code_len st2) m2 fin2) in *.
    destruct ERR as [ERc _ _]. cbn [brk_holes flat_map] in ERc.
    pose proof (code_x_at1 _ _ _ _ _ ERc (fun x => x)) as Hat.
    pose proof (code_len_emit_opcode OIndexGet st2) as L3.
    pose proof (hstep_index_get orc prog sb b a (v_stack s) [] Hat eq_refl) as Hstep.
    rewrite (hst_of_seth _ _ _ _ m2 _ : hst_of sb = m2) in Hstep.
    destruct (h_index_get m2 a b) as [[x m3]| | |]; cbn [stepped] in Hstep; cbn [hlift_o simh fst snd].
    - exists fin2. apply (reaches_trans orc prog s sa _ Hsim1). apply (reaches_trans orc prog sa sb _ Hsim2).
      apply reaches_step. rewrite Hstep. f_equal. f_equal. subst sb sa. unfold sethm, seth. vmcbnh.
      rewrite L3. f_equal; lia.
    - apply (reaches_stops orc prog s sa _ _ Hsim1). apply (reaches_stops orc prog sa sb _ _ Hsim2).
      apply (stops_now orc prog sb _ Hstep).
    - apply (reaches_stops orc prog s sa _ _ Hsim1). apply (reaches_stops orc prog sa sb _ _ Hsim2).
      apply (stops_now orc prog sb _ Hstep).
    - exact I.
  Qed.

  Lemma hesim_assign_index : forall l i r, hesim l -> hesim i -> hesim r -> hesim (EAssign (EIndex l i) r).
  Proof.
    intros l i r IHl IHi IHr lp st st' k outer cur HF Hs Hc. rewrite f2he_assign_index in HF.
    apply andb_prop in HF. destruct HF as [HF Hr]. apply andb_prop in HF. destruct HF as [Hl Hi].
    rewrite ce_assign_index in Hc. apply bind_ok in Hc. destruct Hc as [st1 [H1 Hc]].
    apply bind_ok in Hc. destruct Hc as [st2 [H2 Hc]].
    apply bind_ok in Hc. destruct Hc as [st3 [H3 Hc]]. inversion Hc; subst st'; clear Hc.
    destruct (IHl false st st1 k outer cur Hl Hs H1) as [ce1 [nb1 [CF1 Hsim1]]].
    destruct (cfh_syms _ _ _ _ _ _ CF1) as [k1 Hs1].
    destruct (IHi false st1 st2 k1 outer cur Hi Hs1 H2) as [ce2 [nb2 [CF2 Hsim2]]].
    destruct (cfh_syms _ _ _ _ _ _ CF2) as [k2 Hs2].
    destruct (IHr false st2 st3 k2 outer cur Hr Hs2 H3) as [ce3 [nb3 [CF3 Hsim3]]].
    destruct (cfh_syms _ _ _ _ _ _ CF3) as [k3 Hs3].
    pose proof (cfactsh_emit_opcode OIndexSet st3 outer cur k3 Hs3) as CF4.
    pose proof (cfactsh_trans _ _ _ _ _ _ _ _ _ _ CF3 CF4) as CF34.
    pose proof (cfactsh_trans _ _ _ _ _ _ _ _ _ _ CF2 CF34) as CF24.
    pose proof (cfactsh_trans _ _ _ _ _ _ _ _ _ _ CF1 CF24) as CF.
    eexists; eexists. split; [exact CF|].
    intros prog lexit E Hle Hst fuel s Hip. destruct fuel as [|f]; [exact I|].
    rewrite he_assign_index.
    pose proof (envh_left _ _ _ _ _ _ _ _ _ _ _ _ CF1 CF24 E) as EL.
    pose proof (envh_right _ _ _ _ _ _ _ _ _ _ _ _ CF1 CF24 E) as ER.
    pose proof (envh_left _ _ _ _ _ _ _ _ _ _ _ _ CF2 CF34 ER) as ERL.
    pose proof (envh_right _ _ _ _ _ _ _ _ _ _ _ _ CF2 CF34 ER) as ERR.
    pose proof (envh_left _ _ _ _ _ _ _ _ _ _ _ _ CF3 CF4 ERR) as ERRL.
    pose proof (envh_right _ _ _ _ _ _ _ _ _ _ _ _ CF3 CF4 ERR) as ERRR.
    specialize (Hsim1 prog lexit EL Hle Hst f s Hip).
    destruct (heval orc pl f (flat outer cur) l (hst_of s)) as [a m1|m1|m1|e eo|y yo|] eqn:E1; cbn [hbind];
      try exact Hsim1; try (hnosig_contra f l (flat outer cur) (hst_of s) Hl E1).
    cbn [simh] in Hsim1. destruct Hsim1 as [fin1 Hsim1].
    set (sa := seth s (a :: v_stack s) (v_slen s + 1) (code_len st1) m1 fin1) in *.
    assert (cur_start (c_loops st1) = cur_start (c_loops st)) as Cs1.
    { rewrite (cfh_loops _ _ _ _ _ _ CF1), cur_start_add. reflexivity. }
    assert (cur_start (c_loops st2) = cur_start (c_loops st)) as Cs2.
    { rewrite (cfh_loops _ _ _ _ _ _ CF2), cur_start_add. exact Cs1. }
    specialize (Hsim2 prog lexit ERL Hle ltac:(rewrite Cs1; exact Hst) f sa eq_refl).
    rewrite Cs1 in Hsim2. unfold sa in Hsim2 at 2. rewrite hst_of_seth in Hsim2.
    destruct (heval orc pl f (flat outer cur) i m1) as [b m2|m2|m2|e eo|y yo|] eqn:E2; cbn [hbind];
      try (hnosig_contra f i (flat outer cur) m1 Hi E2);
      try (cbn [simh] in *; apply (reaches_stops orc prog s sa _ _ Hsim1); exact Hsim2); try exact I.
    cbn [simh] in Hsim2. destruct Hsim2 as [fin2 Hsim2].
    set (sb := seth sa (b :: v_stack sa) (v_slen sa + 1) (code_len st2) m2 fin2) in *.
    specialize (Hsim3 prog lexit ERRL Hle ltac:(rewrite Cs2; exact Hst) f sb eq_refl).
    rewrite Cs2 in Hsim3. unfold sb in Hsim3 at 2. rewrite hst_of_seth in Hsim3.
    destruct (heval orc pl f (flat outer cur) r m2) as [c m3|m3|m3|e eo|y yo|] eqn:E3; cbn [hbind];
      try (hnosig_contra f r (flat outer cur) m2 Hr E3);
      try (cbn [simh] in *; apply (reaches_stops orc prog s sa _ _ Hsim1);
           apply (reaches_stops orc prog sa sb _ _ Hsim2); exact Hsim3); try exact I.
    cbn [simh] in Hsim3. destruct Hsim3 as [fin3 Hsim3].
    set (sc := seth sb (c :: v_stack sb) (v_slen sb + 1) (code_len st3) m3 fin3) in *.
    destruct ERRR as [ERc _ _]. cbn [brk_holes flat_map] in ERc.
    pose proof (code_x_at1 _ _ _ _ _ ERc (fun x => x)) as Hat.
    pose proof (code_len_emit_opcode OIndexSet st3) as L4.
    pose proof (hstep_index_set orc prog sc c b a (v_stack s) [] Hat eq_refl) as Hstep.
    rewrite (hst_of_seth _ _ _ _ m3 _ : hst_of sc = m3) in Hstep.
    destruct (h_index_set m3 a b c) as [[x m4]| | |]; cbn [stepped] in Hstep; cbn [hlift_o simh fst snd].
    - exists fin3. apply (reaches_trans orc prog s sa _ Hsim1). apply (reaches_trans orc prog sa sb _ Hsim2).
      apply (reaches_trans orc prog sb sc _ Hsim3).
      apply reaches_step. rewrite Hstep. f_equal. f_equal. subst sc sb sa. unfold sethm, seth. vmcbnh.
      rewrite L4. f_equal; lia.
    - apply (reaches_stops orc prog s sa _ _ Hsim1). apply (reaches_stops orc prog sa sb _ _ Hsim2).
      apply (reaches_stops orc prog sb sc _ _ Hsim3). apply (stops_now orc prog sc _ Hstep).
    - apply (reaches_stops orc prog s sa _ _ Hsim1). apply (reaches_stops orc prog sa sb _ _ Hsim2).
      apply (reaches_stops orc prog sb sc _ _ Hsim3). apply (stops_now orc prog sc _ Hstep).
    - exact I.
  Qed.

  (** ** Calls of builtins *)

  Lemma hesim_call : forall x args, helsim args -> hesim (ECall (EIdent x) args).
  Proof.
    intros x args IH lp st st' k outer cur HF Hs Hc. rewrite f2he_call in HF.
    apply andb_prop in HF. destruct HF as [Hb HF]. unfold is_builtin_name in Hb.
    destruct (assoc_text x builtin_names) as [b|] eqn:Eb; [|discriminate Hb]. clear Hb.
    rewrite (ce_call_builtin x b args st Eb) in Hc. apply bind_ok in Hc. destruct Hc as [st1 [H1 Hc]].
    apply bind_ok in Hc. destruct Hc as [n [Hn Hc]]. inversion Hc; subst st'; clear Hc.
    destruct (operand8_ok _ _ (zlength_nonneg _ args) Hn) as [-> Hr]. clear Hn.
    destruct (IH st st1 k outer cur HF Hs H1) as [ce1 [nb1 [CF1 Hsim1]]].
    destruct (cfh_syms _ _ _ _ _ _ CF1) as [k1 Hs1].
    set (n := zlength args) in *.
    set (st2 := emit_u8 n (emit_u8 (byte_of_builtin b) (emit_opcode OCallBuiltin st1))) in *.
    assert (cfactsh st1 st2 outer cur [byte_of_opcode OCallBuiltin; byte_of_builtin b; n] []) as CF2.
    { apply (cfactsh_emit _ _ outer cur k1); auto. unfold st2. cbn [emit_u8 emit_opcode c_code].
      rewrite <- !app_assoc. reflexivity. }
    pose proof (cfactsh_trans _ _ _ _ _ _ _ _ _ _ CF1 CF2) as CF.
    eexists; eexists. split; [exact CF|].
    intros prog lexit E Hle Hst fuel s Hip. destruct fuel as [|f]; [exact I|].
    rewrite (he_call orc pl f (flat outer cur) x b args (hst_of s) Eb).
    pose proof (envh_left _ _ _ _ _ _ _ _ _ _ _ _ CF1 CF2 E) as EL.
    pose proof (envh_right _ _ _ _ _ _ _ _ _ _ _ _ CF1 CF2 E) as ER.
    specialize (Hsim1 prog lexit EL Hle Hst f s Hip).
    destruct (heval_list orc pl f (flat outer cur) args (hst_of s)) as [xs m1|m1|m1|e eo|y yo|] eqn:E1;
      cbn [hbind simh_list] in *; try contradiction; try exact Hsim1.
    destruct Hsim1 as [fin1 Hsim1].
    set (sa := seth s (rev xs ++ v_stack s) (v_slen s + zlength xs) (code_len st1) m1 fin1) in *.
    destruct ER as [ERc _ _]. cbn [brk_holes flat_map] in ERc.
    pose proof (code_x_at3 _ _ _ _ _ _ _ ERc (holes_free_nil _ _)) as Hat.
    assert (zlength xs = n) as Hlen.
    { unfold n, zlength. rewrite (heval_list_length _ _ _ _ _ _ E1). reflexivity. }
    pose proof (hstep_builtin orc prog sa b n xs (v_stack s) [] Hat eq_refl Hlen) as Hstep.
    rewrite (hst_of_seth _ _ _ _ m1 _ : hst_of sa = m1) in Hstep.
    pose proof (cfactsh_len _ _ _ _ _ _ CF2) as L2. rewrite zlength3 in L2.
    destruct (h_builtin orc m1 b xs) as [[v m2]| | |]; cbn [stepped] in Hstep; cbn [hlift_o simh fst snd].
    - exists fin1. apply (reaches_trans orc prog s sa _ Hsim1). apply reaches_step.
      rewrite Hstep. f_equal. f_equal. subst sa. unfold sethm, seth. vmcbnh. rewrite L2. f_equal; lia.
    - apply (reaches_stops orc prog s sa _ _ Hsim1). apply (stops_now orc prog sa _ Hstep).
    - apply (reaches_stops orc prog s sa _ _ Hsim1). apply (stops_now orc prog sa _ Hstep).
    - exact I.
  Qed.

  (** ** All expressions and statements of the fragment *)

  Lemma hlsim_of_forall : forall l, Forall hssim l -> hlsim l.
  Proof. intros l H. induction H as [|s r Hs Hr IH]; [exact hlsim_nil|exact (Hs r IH)]. Qed.

  Lemma hesim_outside : forall e, (forall lp, f2he lp e = false) -> hesim e.
  Proof. intros e H lp st st' k outer cur HF. rewrite H in HF. discriminate HF. Qed.

  (* the induction also needs the components of an index expression on the left of `=` *)
  Definition hesim2 (e : expr) : Prop :=
    hesim e /\ match e with EIndex b i => hesim b /\ hesim i | _ => True end.

  Theorem hsim_all2 : (forall e, hesim2 e) /\ (forall s, hssim s).
  Proof.
    apply expr_stmt_ind.
    - intros l o r [Hl _] [Hr _]. split; [exact (hesim_infix l o r Hl Hr)|exact I].
    - intros o r [Hr _]. split; [exact (hesim_prefix o r Hr)|exact I].
    - intros z. split; [exact (hesim_int z)|exact I].
    - intros x. split; [exact (hesim_float x)|exact I].
    - intros b. split; [exact (hesim_bool b)|exact I].
    - intros c t alt [Hc _] Ht Ha. split; [|exact I]. apply (hesim_if c t alt Hc (hlsim_of_forall t Ht)).
      destruct alt as [b|]; [exact (hlsim_of_forall b Ha)|exact I].
    - intros x. split; [exact (hesim_ident x)|exact I].
    - intros n ps body _. split; [|exact I]. apply hesim_outside. reflexivity.
    - intros h args _ Hargs. split; [|exact I].
      assert (Forall hesim args) as Ha.
      { apply Forall_forall. intros e Hin. exact (proj1 (proj1 (Forall_forall _ _) Hargs e Hin)). }
      destruct h; try (apply hesim_outside; reflexivity).
      exact (hesim_call s args (helsim_of_forall args Ha)).
    - intros l r [_ Hl] [Hr _]. split; [|exact I].
      destruct l; try (apply hesim_outside; reflexivity).
      + exact (hesim_assign s r Hr).
      + destruct Hl as [Hb Hi]. exact (hesim_assign_index l1 l2 r Hb Hi Hr).
    - intros s. split; [exact (hesim_string s)|exact I].
    - intros vs Hvs. split; [|exact I].
      assert (Forall hesim vs) as Ha.
      { apply Forall_forall. intros e Hin. exact (proj1 (proj1 (Forall_forall _ _) Hvs e Hin)). }
      exact (hesim_array vs (helsim_of_forall vs Ha)).
    - intros b i [Hb _] [Hi _]. split; [exact (hesim_index b i Hb Hi)|split; assumption].
    - intros c b [Hc _] Hb. split; [exact (hesim_while c b Hc (hlsim_of_forall b Hb))|exact I].
    - intros n e [He _]. exact (hssim_let n e He).
    - intros e _ r _ lp st st' k outer cur HF. rewrite f2hb_cons in HF. discriminate HF.
    - intros e [He _]. exact (hssim_expr e He).
    - intros b Hb. exact (hssim_block b (hlsim_of_forall b Hb)).
    - exact hssim_break.
    - exact hssim_continue.
  Qed.

  Theorem hsim_all : (forall e, hesim e) /\ (forall s, hssim s).
  Proof. split; [intros e; exact (proj1 (proj1 hsim_all2 e))|exact (proj2 hsim_all2)]. Qed.

  Theorem hlsim_all : forall l, hlsim l.
  Proof. intros l. apply hlsim_of_forall. apply Forall_forall. intros s _. apply (proj2 hsim_all). Qed.

  Theorem helsim_all : forall l, helsim l.
  Proof. intros l. apply helsim_of_forall. apply Forall_forall. intros e _. apply (proj1 hsim_all). Qed.
End SimH.

Print Assumptions hsim_all.
Print Assumptions hlsim_all.
Print Assumptions helsim_all.
