(* CompilerNames.v - property C09 at the level of the whole compiler (model/Compiler.v):
   1. alpha_invariance: renaming the identifiers of a program consistently (injectively, never onto a
      builtin name or the empty anonymous name) leaves the emitted bytecode identical BYTE FOR BYTE;
   2. accepted_scoped: a program the compiler accepts passes the static scoping pass of spec/Sem.v
      (every identifier resolves lexically, stop/volgende inside a loop of the same function, antwoord
      inside a function); hence a program using an undeclared name is never compiled, and Pipeline.eval
      reports a front-end error without running anything;
   3. eval_alpha: programs differing only by such a renaming have identical eval results. *)
From Coq Require Import List ZArith Lia Bool.
From NL.Model Require Import Compiler Pipeline.
From NL.Spec Require Import ScopeSpec Sem.
From NL.Proofs Require Import SymbolsProofs.
Import ListNotations.

Definition on_opt {A} (R : A -> Prop) (o : option A) : Prop := match o with Some a => R a | None => True end.
Definition on_index (P : expr -> Prop) (l : expr) : Prop := match l with EIndex l' i => P l' /\ P i | _ => True end.

Section AstInd.
  Variables (P : expr -> Prop) (Q : stmt -> Prop).
  Hypothesis HInfix : forall l o r, P l -> P r -> P (EInfix l o r).
  Hypothesis HPrefix : forall o r, P r -> P (EPrefix o r).
  Hypothesis HInt : forall z, P (EInt z).
  Hypothesis HFloat : forall f, P (EFloat f).
  Hypothesis HBool : forall b, P (EBool b).
  Hypothesis HIf : forall c t e, P c -> Forall Q t -> on_opt (Forall Q) e -> P (EIf c t e).
  Hypothesis HIdent : forall s, P (EIdent s).
  Hypothesis HFunction : forall n ps b, Forall Q b -> P (EFunction n ps b).
  Hypothesis HCall : forall f args, P f -> Forall P args -> P (ECall f args).
  Hypothesis HAssign : forall l r, P l -> on_index P l -> P r -> P (EAssign l r).
  Hypothesis HString : forall s, P (EString s).
  Hypothesis HArray : forall vs, Forall P vs -> P (EArray vs).
  Hypothesis HIndex : forall l i, P l -> P i -> P (EIndex l i).
  Hypothesis HWhile : forall c b, P c -> Forall Q b -> P (EWhile c b).
  Hypothesis HLet : forall n e, P e -> Q (SLet n e).
  Hypothesis HReturn : forall e, P e -> Q (SReturn e).
  Hypothesis HExpr : forall e, P e -> Q (SExpr e).
  Hypothesis HBlock : forall b, Forall Q b -> Q (SBlock b).
  Hypothesis HBreak : Q SBreak.
  Hypothesis HContinue : Q SContinue.

  Fixpoint cn_expr_ind (e : expr) : P e :=
    let stmts := fix stmts (l : list stmt) : Forall Q l :=
      match l with [] => Forall_nil Q | s :: r => Forall_cons s (cn_stmt_ind s) (stmts r) end in
    let exprs := fix exprs (l : list expr) : Forall P l :=
      match l with [] => Forall_nil P | s :: r => Forall_cons s (cn_expr_ind s) (exprs r) end in
    match e with
    | EInfix l o r => HInfix l o r (cn_expr_ind l) (cn_expr_ind r)
    | EPrefix o r => HPrefix o r (cn_expr_ind r)
    | EInt z => HInt z
    | EFloat f => HFloat f
    | EBool b => HBool b
    | EIf c t alt => HIf c t alt (cn_expr_ind c) (stmts t)
         (match alt as a0 return on_opt (Forall Q) a0 with Some b0 => stmts b0 | None => I end)
    | EIdent s => HIdent s
    | EFunction n ps b => HFunction n ps b (stmts b)
    | ECall f args => HCall f args (cn_expr_ind f) (exprs args)
    | EAssign l r => HAssign l r (cn_expr_ind l)
        (match l as l0 return on_index P l0 with
         | EIndex l' i => conj (cn_expr_ind l') (cn_expr_ind i)
         | _ => I
         end) (cn_expr_ind r)
    | EString s => HString s
    | EArray vs => HArray vs (exprs vs)
    | EIndex l i => HIndex l i (cn_expr_ind l) (cn_expr_ind i)
    | EWhile c b => HWhile c b (cn_expr_ind c) (stmts b)
    end
  with cn_stmt_ind (s : stmt) : Q s :=
    match s with
    | SLet n e => HLet n e (cn_expr_ind e)
    | SReturn e => HReturn e (cn_expr_ind e)
    | SExpr e => HExpr e (cn_expr_ind e)
    | SBlock b => HBlock b ((fix stmts (l : list stmt) : Forall Q l :=
      match l with [] => Forall_nil Q | s :: r => Forall_cons s (cn_stmt_ind s) (stmts r) end) b)
    | SBreak => HBreak
    | SContinue => HContinue
    end.

  Lemma cn_ast_ind : (forall e, P e) /\ (forall s, Q s).
  Proof. split; [exact cn_expr_ind | exact cn_stmt_ind]. Qed.
End AstInd.

(** * Outcome helpers *)
Definition map_outcome {A B} (f : A -> B) (o : outcome A) : outcome B :=
  match o with Ok a => Ok (f a) | Err k => Err k | Fault x => Fault x | OutOfFuel => OutOfFuel end.

(** * The compiler's local fixes, named *)
Fixpoint compile_exprs (l : list expr) (st : cstate) : outcome cstate :=
  match l with
  | [] => Ok st
  | x :: r => do st' <- compile_expression x st; compile_exprs r st'
  end.

Definition block_statement (b : list stmt) (st : cstate) : outcome cstate :=
  if is_nil b then Ok (emit_opcode ONull st)
  else do st1 <- compile_statements b (set_symbols st (enter_scope (c_symbols st)));
       Ok (set_symbols st1 (leave_scope (c_symbols st1))).

Definition block_value (b : list stmt) (st : cstate) : outcome cstate :=
  do st1 <- block_statement b st;
  if is_nil b then Ok st1
  else if last_instruction_is OPop st1 then Ok (remove_last_instruction st1)
  else Ok (emit_opcode ONull st1).

Definition patch_breaks (bs : list Z) (acc : outcome cstate) : outcome cstate :=
  fold_left (fun acc ip => do s <- acc; do tg <- operand 16 (code_len s); change_jump_operand_at ip tg s) bs acc.

Definition generic_infix (l : expr) (op : operator) (r : expr) (st0 : cstate) : outcome cstate :=
  do st1 <- compile_expression l st0;
  do st2 <- compile_expression r st1;
  match assoc operator_eqb op compile_operator_table with
  | Some opc => Ok (emit_opcode opc st2)
  | None => Fault FUnwrap
  end.

Lemma ce_bool : forall b st, compile_expression (EBool b) st = Ok (emit_opcode (if b then OTrue else OFalse) st).
Proof. reflexivity. Qed.
Lemma ce_float : forall f st, compile_expression (EFloat f) st = emit_const (KFloat f) (count_alloc st).
Proof. reflexivity. Qed.
Lemma ce_int : forall z st, compile_expression (EInt z) st = emit_const (KInt z) st.
Proof. reflexivity. Qed.
Lemma ce_string : forall s st, compile_expression (EString s) st = emit_const (KStr s) (count_alloc st).
Proof. reflexivity. Qed.
Lemma ce_ident : forall x st, compile_expression (EIdent x) st =
  match resolve (c_symbols st) x with
  | Some s => emit_sym (scoped s OGetGlobal OGetLocal) s st
  | None => Err EReferenceError
  end.
Proof. reflexivity. Qed.
Lemma ce_prefix : forall op r st, compile_expression (EPrefix op r) st =
  do st1 <- compile_expression r st;
  match op with
  | OpNegate | OpSubtract => Ok (emit_opcode ONegate st1)
  | OpNot => Ok (emit_opcode ONot st1)
  | _ => Err ETypeError
  end.
Proof. reflexivity. Qed.
Lemma ce_assign : forall l r st, compile_expression (EAssign l r) st =
  match l with
  | EIdent name =>
      match resolve (c_symbols st) name with
      | Some s =>
          do st1 <- compile_expression r st;
          do st2 <- emit_sym (scoped s OSetGlobal OSetLocal) s st1;
          emit_sym (scoped s OGetGlobal OGetLocal) s st2
      | None => Err EReferenceError
      end
  | EIndex l' i =>
      do st1 <- compile_expression l' st;
      do st2 <- compile_expression i st1;
      do st3 <- compile_expression r st2;
      Ok (emit_opcode OIndexSet st3)
  | _ => Err ETypeError
  end.
Proof. intros. destruct l; reflexivity. Qed.
Lemma ce_infix : forall l op r st, compile_expression (EInfix l op r) st =
  match fused_candidate l r op with
  | Some (name, v, op') =>
      let '(st1, done) := compile_const_var_infix name v op' st in
      if done : bool then Ok st1 else generic_infix l op r st1
  | None => generic_infix l op r st
  end.
Proof. reflexivity. Qed.
Lemma ce_if : forall c t alt st, compile_expression (EIf c t alt) st =
  do st1 <- compile_expression c st;
  let pos_jif := code_len st1 in
  let st2 := emit_u16 JUMP_PLACEHOLDER (emit_opcode OJumpIfFalse st1) in
  do st3 <- block_value t st2;
  let pos_jump := code_len st3 in
  let st4 := emit_u16 JUMP_PLACEHOLDER (emit_opcode OJump st3) in
  do target <- operand 16 (code_len st4);
  do st5 <- change_jump_operand_at pos_jif target st4;
  do st6 <- match alt with
            | Some b => block_value b st5
            | None => Ok (emit_opcode ONull st5)
            end;
  do target2 <- operand 16 (code_len st6);
  change_jump_operand_at pos_jump target2 st6.
Proof. reflexivity. Qed.
Lemma ce_while : forall c body st, compile_expression (EWhile c body) st =
  let st1 := emit_opcode ONull st in
  let start := code_len st1 in
  let st2 := set_loops st1 (c_loops st1 ++ [mkLoop start []]) in
  do st3 <- compile_expression c st2;
  let pos_jif := code_len st3 in
  let st4 := emit_opcode OPop (emit_u16 JUMP_PLACEHOLDER (emit_opcode OJumpIfFalse st3)) in
  do st5 <- block_value body st4;
  let st6 := emit_opcode OJump st5 in
  do back <- operand 16 start;
  let st7 := emit_u16 back st6 in
  do target <- operand 16 (code_len st7);
  do st8 <- change_jump_operand_at pos_jif target st7;
  match rev (c_loops st8) with
  | [] => Fault FUnwrap
  | ctx :: rest => patch_breaks (l_breaks ctx) (Ok (set_loops st8 (rev rest)))
  end.
Proof. reflexivity. Qed.
Lemma ce_function : forall name params body st, compile_expression (EFunction name params body) st =
  let '(st1, sym) :=
    if is_nil name then (st, None)
    else let '(t, s) := define (c_symbols st) name in (set_symbols st t, Some s) in
  let pos_jump := code_len st1 in
  let st2 := emit_u16 JUMP_PLACEHOLDER (emit_opcode OJump st1) in
  let t3 := fold_left (fun t p => fst (define t p)) params (new_context (c_symbols st2)) in
  let st3 := set_symbols st2 t3 in
  let pos_start := code_len st3 in
  let outer_loops := c_loops st3 in
  do st4 <- block_statement body (set_loops st3 []);
  let st5 := set_loops st4 outer_loops in
  let st6 := if last_instruction_is OPop st5 then emit_opcode OReturnValue (remove_last_instruction st5)
             else if last_instruction_is OReturnValue st5 then st5
             else emit_opcode OReturn st5 in
  do target <- operand 16 (code_len st6);
  do st7 <- change_jump_operand_at pos_jump target st6;
  let '(t8, num_locals) := leave_context (c_symbols st7) in
  let st8 := set_symbols st7 t8 in
  do ip <- operand 32 pos_start;
  do nl <- operand 16 (Z.of_nat num_locals);
  let '(st9, r) := add_constant (KFun ip nl) st8 in
  do idx <- r;
  let st10 := emit_u16 idx (emit_opcode OConst st9) in
  match sym with
  | Some s =>
      do st11 <- emit_sym (scoped s OSetGlobal OSetLocal) s st10;
      Ok (emit_u16 idx (emit_opcode OConst st11))
  | None => Ok st10
  end.
Proof. reflexivity. Qed.
Lemma ce_call : forall f args st, compile_expression (ECall f args) st =
  do st1 <- compile_exprs args st;
  let builtin := match f with
                 | EIdent name => assoc_text name builtin_names
                 | _ => None
                 end in
  match builtin with
  | Some b =>
      let st2 := emit_u8 (byte_of_builtin b) (emit_opcode OCallBuiltin st1) in
      do n <- operand 8 (zlength args);
      Ok (emit_u8 n st2)
  | None =>
      do st2 <- compile_expression f st1;
      let st3 := emit_opcode OCall st2 in
      do n <- operand 8 (zlength args);
      Ok (emit_u8 n st3)
  end.
Proof. reflexivity. Qed.
Lemma ce_array : forall vs st, compile_expression (EArray vs) st =
  do st1 <- compile_exprs vs st;
  let st2 := emit_opcode OArray st1 in
  do n <- operand 16 (zlength vs);
  Ok (emit_u16 n st2).
Proof. reflexivity. Qed.
Lemma ce_index : forall l i st, compile_expression (EIndex l i) st =
  do st1 <- compile_expression l st;
  do st2 <- compile_expression i st1;
  Ok (emit_opcode OIndexGet st2).
Proof. reflexivity. Qed.

Lemma cs_expr : forall e st, compile_statement (SExpr e) st = do st1 <- compile_expression e st; Ok (emit_opcode OPop st1).
Proof. reflexivity. Qed.
Lemma cs_block : forall b st, compile_statement (SBlock b) st =
  if is_nil b then Ok (emit_opcode OPop (emit_opcode ONull st))
  else do st1 <- compile_statements b (set_symbols st (enter_scope (c_symbols st)));
       Ok (set_symbols st1 (leave_scope (c_symbols st1))).
Proof. reflexivity. Qed.
Lemma cs_let : forall name v st, compile_statement (SLet name v) st =
  let '(t, sym) := define (c_symbols st) name in
  do st1 <- compile_expression v (set_symbols st t);
  emit_sym (scoped sym OSetGlobal OSetLocal) sym st1.
Proof. reflexivity. Qed.
Lemma cs_return : forall e st, compile_statement (SReturn e) st =
  if in_global_context (c_symbols st) then Err ESyntaxError
  else do st1 <- compile_expression e st; Ok (emit_opcode OReturnValue st1).
Proof. reflexivity. Qed.
Lemma cs_break : forall st, compile_statement SBreak st =
  let st1 := emit_opcode ONull st in
  let pos := code_len st1 in
  let st2 := emit_u16 JUMP_PLACEHOLDER (emit_opcode OJump st1) in
  match rev (c_loops st2) with
  | [] => Err ESyntaxError
  | ctx :: rest => Ok (set_loops st2 (rev (mkLoop (l_start ctx) (l_breaks ctx ++ [pos]) :: rest)))
  end.
Proof. reflexivity. Qed.
Lemma cs_continue : forall st, compile_statement SContinue st =
  let st1 := emit_opcode ONull st in
  match rev (c_loops st1) with
  | [] => Err ESyntaxError
  | ctx :: _ =>
      let st2 := emit_opcode OJump st1 in
      do pos <- operand 16 (l_start ctx);
      Ok (emit_u16 pos st2)
  end.
Proof. reflexivity. Qed.

(** * Renaming *)
Lemma map_removelast : forall A B (f : A -> B) l, removelast (map f l) = map f (removelast l).
Proof.
  intros A B f l. induction l as [|a l IH]; [reflexivity|]. cbn [map removelast].
  destruct l as [|b l]; [reflexivity|]. cbn [map] in *. now rewrite IH.
Qed.

Lemma update_last_map : forall A B (f : A -> B) (g : B -> B) (h : A -> A) l,
  (forall x, g (f x) = f (h x)) -> update_last g (map f l) = map f (update_last h l).
Proof.
  intros A B f g h l H. induction l as [|a l IH]; [reflexivity|]. cbn [map update_last].
  destruct l as [|b l]; [cbn [map]; now rewrite H|]. cbn [map] in *. now rewrite IH.
Qed.

Section Rename.
  Variable r : text -> text.

  Definition rename_fname (n : text) : text := if is_nil n then [] else r n.

  Fixpoint rename_expr (e : expr) : expr :=
    match e with
    | EInfix l o r0 => EInfix (rename_expr l) o (rename_expr r0)
    | EPrefix o r0 => EPrefix o (rename_expr r0)
    | EInt z => EInt z
    | EFloat f => EFloat f
    | EBool b => EBool b
    | EIf c t alt => EIf (rename_expr c) (map rename_stmt t) (option_map (map rename_stmt) alt)
    | EIdent s => EIdent (r s)
    | EFunction n ps b => EFunction (rename_fname n) (map r ps) (map rename_stmt b)
    | ECall f args =>
        ECall (match f with
               | EIdent x => if is_builtin_name x then EIdent x else EIdent (r x)
               | _ => rename_expr f
               end) (map rename_expr args)
    | EAssign l r0 => EAssign (rename_expr l) (rename_expr r0)
    | EString s => EString s
    | EArray vs => EArray (map rename_expr vs)
    | EIndex l i => EIndex (rename_expr l) (rename_expr i)
    | EWhile c b => EWhile (rename_expr c) (map rename_stmt b)
    end
  with rename_stmt (s : stmt) : stmt :=
    match s with
    | SLet n e => SLet (r n) (rename_expr e)
    | SReturn e => SReturn (rename_expr e)
    | SExpr e => SExpr (rename_expr e)
    | SBlock b => SBlock (map rename_stmt b)
    | SBreak => SBreak
    | SContinue => SContinue
    end.

  Definition rename_block (b : block) : block := map rename_stmt b.

  Definition rename_state (st : cstate) : cstate := set_symbols st (map_tab r (c_symbols st)).
  Notation rs := rename_state.

  (* state primitives commute with the renaming of the table *)
  Lemma rs_emit_opcode : forall op st, emit_opcode op (rs st) = rs (emit_opcode op st).
  Proof. reflexivity. Qed.
  Lemma rs_emit_u8 : forall v st, emit_u8 v (rs st) = rs (emit_u8 v st).
  Proof. reflexivity. Qed.
  Lemma rs_emit_u16 : forall v st, emit_u16 v (rs st) = rs (emit_u16 v st).
  Proof. reflexivity. Qed.
  Lemma rs_set_loops : forall st l, set_loops (rs st) l = rs (set_loops st l).
  Proof. reflexivity. Qed.
  Lemma rs_count_alloc : forall st, count_alloc (rs st) = rs (count_alloc st).
  Proof. reflexivity. Qed.
  Lemma rs_remove_last : forall st, remove_last_instruction (rs st) = rs (remove_last_instruction st).
  Proof. reflexivity. Qed.
  Lemma rs_code_len : forall st, code_len (rs st) = code_len st.
  Proof. reflexivity. Qed.
  Lemma rs_loops : forall st, c_loops (rs st) = c_loops st.
  Proof. reflexivity. Qed.
  Lemma rs_last_is : forall op st, last_instruction_is op (rs st) = last_instruction_is op st.
  Proof. reflexivity. Qed.
  Lemma rs_symbols : forall st, c_symbols (rs st) = map_tab r (c_symbols st).
  Proof. reflexivity. Qed.
  Lemma rs_set_symbols : forall st t, set_symbols (rs st) (map_tab r t) = rs (set_symbols st t).
  Proof. reflexivity. Qed.

  Lemma rs_add_constant : forall k st,
    add_constant k (rs st) = (rs (fst (add_constant k st)), snd (add_constant k st)).
  Proof.
    intros k st. unfold add_constant. cbn [rename_state set_symbols c_constants].
    destruct (const_position k (c_constants st)); reflexivity.
  Qed.
  Lemma rs_emit_const : forall k st, emit_const k (rs st) = map_outcome rs (emit_const k st).
  Proof.
    intros k st. unfold emit_const. rewrite rs_add_constant. destruct (add_constant k st) as [st1 o].
    cbn [fst snd]. destruct o; reflexivity.
  Qed.
  Lemma rs_emit_sym : forall op s st, emit_sym op s (rs st) = map_outcome rs (emit_sym op s st).
  Proof. intros. unfold emit_sym. destruct (operand 16 (Z.of_nat (s_index s))); reflexivity. Qed.
  Lemma rs_change_jump : forall i v st,
    change_jump_operand_at i v (rs st) = map_outcome rs (change_jump_operand_at i v st).
  Proof.
    intros. unfold change_jump_operand_at. cbn [rename_state set_symbols c_code].
    destruct (nth_error (c_code st) (Z.to_nat i)) as [b|]; [|reflexivity].
    destruct ((b =? byte_of_opcode OJump)%Z || (b =? byte_of_opcode OJumpIfFalse)%Z); reflexivity.
  Qed.

  Lemma bind_rs : forall (x : outcome cstate) (k k' : cstate -> outcome cstate),
    (forall a, k' (rs a) = map_outcome rs (k a)) ->
    bind (map_outcome rs x) k' = map_outcome rs (bind x k).
  Proof. intros x k k' H; destruct x; cbn [bind map_outcome]; auto. Qed.
  Lemma bind_rs0 : forall A (x : outcome A) (k k' : A -> outcome cstate),
    (forall a, k' a = map_outcome rs (k a)) -> bind x k' = map_outcome rs (bind x k).
  Proof. intros A x k k' H; destruct x; cbn [bind map_outcome]; auto. Qed.

  Lemma rs_patch_breaks : forall bs acc,
    patch_breaks bs (map_outcome rs acc) = map_outcome rs (patch_breaks bs acc).
  Proof.
    induction bs as [|ip bs IH]; intros acc; [reflexivity|]. unfold patch_breaks in *. cbn [fold_left].
    rewrite <- IH. f_equal. apply bind_rs. intros a. rewrite rs_code_len. apply bind_rs0. intros tg.
    apply rs_change_jump.
  Qed.

  (* symbol-table operations commute with the renaming *)
  Lemma map_tab_enter_scope : forall t, enter_scope (map_tab r t) = map_tab r (enter_scope t).
  Proof.
    intros t. unfold enter_scope, map_tab. apply update_last_map. intros c. unfold map_ctx.
    cbn [c_scope c_max c_syms]. now rewrite map_app.
  Qed.
  Lemma map_tab_leave_scope : forall t, leave_scope (map_tab r t) = map_tab r (leave_scope t).
  Proof.
    intros t. unfold leave_scope, map_tab. apply update_last_map. intros c. unfold map_ctx.
    cbn [c_scope c_max c_syms]. now rewrite map_removelast.
  Qed.
  Lemma map_tab_new_context : forall t, new_context (map_tab r t) = map_tab r (new_context t).
  Proof. intros t. unfold new_context, map_tab. now rewrite map_app. Qed.
  Lemma map_tab_leave_context : forall t,
    leave_context (map_tab r t) = (map_tab r (fst (leave_context t)), snd (leave_context t)).
  Proof.
    intros t. unfold leave_context. cbn [fst snd]. f_equal.
    - apply map_removelast.
    - change (current_context (map_tab r t)) with (current (map_tab r t)). now rewrite current_map_tab.
  Qed.
  Lemma map_tab_in_global : forall t, in_global_context (map_tab r t) = in_global_context t.
  Proof. intros. unfold in_global_context, map_tab. now rewrite map_length. Qed.
  Lemma map_tab_define : forall t x,
    define (map_tab r t) (r x) = (map_tab r (fst (define t x)), snd (define t x)).
  Proof. intros t x. destruct (define t x) as [t' s] eqn:D. now apply define_rename. Qed.
  Lemma map_tab_defines : forall ps t,
    fold_left (fun t p => fst (define t p)) (map r ps) (map_tab r t) =
    map_tab r (fold_left (fun t p => fst (define t p)) ps t).
  Proof.
    induction ps as [|p ps IH]; intros t; [reflexivity|]. cbn [map fold_left].
    rewrite map_tab_define. cbn [fst]. apply IH.
  Qed.

  Hypothesis r_inj : forall a b, r a = r b -> a = b.
  Hypothesis r_nonempty : forall x, x <> [] -> r x <> [].
  Hypothesis r_builtin : forall x, is_builtin_name x = false -> is_builtin_name (r x) = false.

  Lemma map_tab_resolve : forall t x, resolve (map_tab r t) (r x) = resolve t x.
  Proof. intros. now apply resolve_rename_injective. Qed.

  Lemma is_nil_rename_fname : forall n, is_nil (rename_fname n) = is_nil n.
  Proof.
    intros [|c n]; [reflexivity|]. unfold rename_fname. cbn [is_nil].
    destruct (r (c :: n)) eqn:E; [|reflexivity]. exfalso. eapply r_nonempty; [|exact E]. discriminate.
  Qed.

  Lemma rs_const_var_infix : forall name v op st,
    compile_const_var_infix (r name) v op (rs st) =
    (rs (fst (compile_const_var_infix name v op st)), snd (compile_const_var_infix name v op st)).
  Proof.
    intros. unfold compile_const_var_infix. rewrite rs_add_constant.
    destruct (add_constant (KInt v) st) as [st1 o]. cbn [fst snd].
    destruct o as [idx| | |]; try reflexivity.
    rewrite rs_symbols, map_tab_resolve. destruct (resolve (c_symbols st1) name) as [s|]; [|reflexivity].
    destruct (s_scope s); [|reflexivity].
    destruct (assoc operator_eqb op fused_table); [|reflexivity].
    destruct (operand 16 (Z.of_nat (s_index s))); reflexivity.
  Qed.

  Lemma fused_candidate_rename : forall l r0 op,
    fused_candidate (rename_expr l) (rename_expr r0) op =
    option_map (fun '(n, v, o) => (r n, v, o)) (fused_candidate l r0 op).
  Proof.
    intros l r0 op. destruct l; try reflexivity; destruct r0; try reflexivity.
    cbn [rename_expr fused_candidate]. destruct (assoc operator_eqb op mirror_table); reflexivity.
  Qed.

  Definition Pe (e : expr) : Prop :=
    forall st, compile_expression (rename_expr e) (rs st) = map_outcome rs (compile_expression e st).
  Definition Qs (s : stmt) : Prop :=
    forall st, compile_statement (rename_stmt s) (rs st) = map_outcome rs (compile_statement s st).

  Lemma stmts_rs : forall b, Forall Qs b -> forall st,
    compile_statements (map rename_stmt b) (rs st) = map_outcome rs (compile_statements b st).
  Proof.
    induction 1 as [|s b Hs _ IH]; intros st; [reflexivity|]. cbn [map compile_statements].
    rewrite Hs. apply bind_rs. exact IH.
  Qed.
  Lemma exprs_rs : forall l, Forall Pe l -> forall st,
    compile_exprs (map rename_expr l) (rs st) = map_outcome rs (compile_exprs l st).
  Proof.
    induction 1 as [|e l He _ IH]; intros st; [reflexivity|]. cbn [map compile_exprs].
    rewrite He. apply bind_rs. exact IH.
  Qed.
  Lemma map_length' : forall A B (f : A -> B) l, zlength (map f l) = zlength l.
  Proof. intros. unfold zlength. now rewrite map_length. Qed.
  Lemma is_nil_map : forall A B (f : A -> B) l, is_nil (map f l) = is_nil l.
  Proof. intros A B f [|a l]; reflexivity. Qed.
  Lemma block_statement_rs : forall b, Forall Qs b -> forall st,
    block_statement (map rename_stmt b) (rs st) = map_outcome rs (block_statement b st).
  Proof.
    intros b Hb st. unfold block_statement. rewrite is_nil_map. destruct (is_nil b); [reflexivity|].
    rewrite rs_symbols, map_tab_enter_scope, rs_set_symbols, (stmts_rs b Hb). apply bind_rs.
    intros st1. rewrite rs_symbols, map_tab_leave_scope, rs_set_symbols. reflexivity.
  Qed.
  Lemma block_value_rs : forall b, Forall Qs b -> forall st,
    block_value (map rename_stmt b) (rs st) = map_outcome rs (block_value b st).
  Proof.
    intros b Hb st. unfold block_value. rewrite (block_statement_rs b Hb). apply bind_rs. intros st1.
    rewrite is_nil_map, rs_last_is. destruct (is_nil b); [reflexivity|].
    destruct (last_instruction_is OPop st1); reflexivity.
  Qed.

  Lemma rename_all : (forall e, Pe e) /\ (forall s, Qs s).
  Proof.
    apply cn_ast_ind; unfold Pe, Qs.
    - (* EInfix *)
      intros l o r0 IHl IHr st. cbn [rename_expr]. rewrite !ce_infix, fused_candidate_rename.
      assert (G : forall st0, generic_infix (rename_expr l) o (rename_expr r0) (rs st0) =
                              map_outcome rs (generic_infix l o r0 st0)).
      { intros st0. unfold generic_infix. rewrite IHl. apply bind_rs. intros st1. rewrite IHr.
        apply bind_rs. intros st2. destruct (assoc operator_eqb o compile_operator_table); reflexivity. }
      destruct (fused_candidate l r0 o) as [[[n v] o']|]; cbn [option_map]; [|apply G].
      rewrite rs_const_var_infix. destruct (compile_const_var_infix n v o' st) as [st1 [|]]; cbn [fst snd];
        [reflexivity|apply G].
    - (* EPrefix *)
      intros o r0 IH st. cbn [rename_expr]. rewrite !ce_prefix, IH. apply bind_rs. intros st1.
      destruct o; reflexivity.
    - intros z st. cbn [rename_expr]. rewrite !ce_int. apply rs_emit_const.
    - intros f st. cbn [rename_expr]. rewrite !ce_float, rs_count_alloc. apply rs_emit_const.
    - intros b st. reflexivity.
    - (* EIf *)
      intros c t alt IHc IHt IHalt st. cbn [rename_expr]. rewrite !ce_if. cbv zeta.
      rewrite IHc. apply bind_rs. intros st1.
      rewrite rs_emit_opcode, rs_emit_u16, (block_value_rs t IHt), rs_code_len. apply bind_rs. intros st3.
      rewrite rs_emit_opcode, rs_emit_u16, !rs_code_len. apply bind_rs0. intros target.
      rewrite rs_change_jump. apply bind_rs. intros st5.
      assert (A : match option_map (map rename_stmt) alt with
                  | Some b => block_value b (rs st5)
                  | None => Ok (emit_opcode ONull (rs st5))
                  end = map_outcome rs match alt with
                                       | Some b => block_value b st5
                                       | None => Ok (emit_opcode ONull st5)
                                       end).
      { destruct alt as [b|]; cbn [option_map on_opt] in *; [apply (block_value_rs b IHalt)|reflexivity]. }
      rewrite A. apply bind_rs. intros st6. rewrite rs_code_len. apply bind_rs0. intros target2.
      apply rs_change_jump.
    - (* EIdent *)
      intros x st. cbn [rename_expr]. rewrite !ce_ident, rs_symbols, map_tab_resolve.
      destruct (resolve (c_symbols st) x); [apply rs_emit_sym|reflexivity].
    - (* EFunction *)
      intros n ps b IHb st. cbn [rename_expr]. rewrite !ce_function, is_nil_rename_fname.
      assert (A : (if is_nil n then (rs st, @None symbol)
                   else let '(t, s) := define (c_symbols (rs st)) (rename_fname n) in (set_symbols (rs st) t, Some s)) =
                  let p := (if is_nil n then (st, None)
                            else let '(t, s) := define (c_symbols st) n in (set_symbols st t, Some s)) in
                  (rs (fst p), snd p)).
      { unfold rename_fname. destruct (is_nil n); [reflexivity|]. rewrite rs_symbols, map_tab_define.
        destruct (define (c_symbols st) n) as [t s]. reflexivity. }
      rewrite A. clear A. cbv zeta.
      destruct (if is_nil n then (st, None) else let '(t, s) := define (c_symbols st) n in (set_symbols st t, Some s))
        as [st1 sym]. cbn [fst snd].
      rewrite rs_emit_opcode, rs_emit_u16, rs_symbols, map_tab_new_context, map_tab_defines, rs_set_symbols,
        rs_set_loops, (block_statement_rs b IHb), !rs_code_len, rs_loops.
      apply bind_rs. intros st4. rewrite rs_set_loops, !rs_last_is, rs_remove_last, !rs_emit_opcode.
      set (st5 := set_loops st4 _).
      assert (A : (if last_instruction_is OPop st5 then rs (emit_opcode OReturnValue (remove_last_instruction st5))
                   else if last_instruction_is OReturnValue st5 then rs st5 else rs (emit_opcode OReturn st5)) =
                  rs (if last_instruction_is OPop st5 then emit_opcode OReturnValue (remove_last_instruction st5)
                      else if last_instruction_is OReturnValue st5 then st5 else emit_opcode OReturn st5)).
      { destruct (last_instruction_is OPop st5); [reflexivity|]. destruct (last_instruction_is OReturnValue st5); reflexivity. }
      rewrite A. clear A. rewrite rs_code_len. apply bind_rs0. intros target. rewrite rs_change_jump.
      apply bind_rs. intros st7. rewrite rs_symbols, map_tab_leave_context.
      destruct (leave_context (c_symbols st7)) as [t8 nl]. cbn [fst snd]. rewrite rs_set_symbols.
      apply bind_rs0. intros ip. apply bind_rs0. intros nlz. rewrite rs_add_constant.
      destruct (add_constant (KFun ip nlz) (set_symbols st7 t8)) as [st9 o]. cbn [fst snd].
      apply bind_rs0. intros idx. rewrite rs_emit_opcode, rs_emit_u16.
      destruct sym as [s|]; [|reflexivity]. rewrite rs_emit_sym. apply bind_rs. intros st11. reflexivity.
    - (* ECall *)
      intros f args IHf IHargs st. cbn [rename_expr]. rewrite !ce_call. cbv zeta.
      rewrite (exprs_rs args IHargs). apply bind_rs. intros st1. rewrite map_length'.
      assert (C : forall f', (match f' with EIdent name => assoc_text name builtin_names | _ => None end) = None ->
                  compile_expression f' (rs st1) = map_outcome rs (compile_expression f st1) ->
                  match match f' with EIdent name => assoc_text name builtin_names | _ => None end with
                  | Some b => do n <- operand 8 (zlength args); Ok (emit_u8 n (emit_u8 (byte_of_builtin b) (emit_opcode OCallBuiltin (rs st1))))
                  | None => do st2 <- compile_expression f' (rs st1); do n <- operand 8 (zlength args); Ok (emit_u8 n (emit_opcode OCall st2))
                  end = map_outcome rs (do st2 <- compile_expression f st1; do n <- operand 8 (zlength args); Ok (emit_u8 n (emit_opcode OCall st2)))).
      { intros f' E1 E2. rewrite E1, E2. apply bind_rs. intros st2. apply bind_rs0. intros nn. reflexivity. }
      destruct f; try (apply C; [reflexivity|apply IHf]).
      unfold is_builtin_name. destruct (assoc_text s builtin_names) as [bi|] eqn:EB.
      + rewrite EB. apply bind_rs0. intros nn. reflexivity.
      + cbv iota beta. apply (C (EIdent (r s))); [|apply IHf]. specialize (r_builtin s). unfold is_builtin_name in r_builtin. rewrite EB in r_builtin.
        destruct (assoc_text (r s) builtin_names); [discriminate (r_builtin eq_refl)|reflexivity].
    - (* EAssign *)
      intros l r0 IHl IHli IHr st. cbn [rename_expr]. rewrite !ce_assign.
      destruct l; try reflexivity.
      + cbn [rename_expr]. rewrite rs_symbols, map_tab_resolve.
        destruct (resolve (c_symbols st) s) as [sy|]; [|reflexivity].
        rewrite IHr. apply bind_rs. intros st1. rewrite rs_emit_sym. apply bind_rs. intros st2. apply rs_emit_sym.
      + cbn [rename_expr]. destruct IHli as [IH1 IH2]. rewrite IH1. apply bind_rs. intros st1.
        rewrite IH2. apply bind_rs. intros st2. rewrite IHr. apply bind_rs. intros st3. reflexivity.
    - intros s st. cbn [rename_expr]. rewrite !ce_string, rs_count_alloc. apply rs_emit_const.
    - (* EArray *)
      intros vs IH st. cbn [rename_expr]. rewrite !ce_array. cbv zeta. rewrite (exprs_rs vs IH). apply bind_rs.
      intros st1. rewrite map_length'. apply bind_rs0. intros nn. reflexivity.
    - (* EIndex *)
      intros l i IHl IHi st. cbn [rename_expr]. rewrite !ce_index, IHl. apply bind_rs. intros st1. rewrite IHi.
      apply bind_rs. intros st2. reflexivity.
    - (* EWhile *)
      intros c b IHc IHb st. cbn [rename_expr]. rewrite !ce_while. cbv zeta.
      rewrite rs_emit_opcode, rs_loops, rs_code_len, rs_set_loops, IHc. apply bind_rs. intros st3.
      rewrite !rs_emit_opcode, rs_emit_u16, rs_emit_opcode, (block_value_rs b IHb), rs_code_len. apply bind_rs. intros st5.
      apply bind_rs0. intros back. rewrite rs_emit_opcode, rs_emit_u16, rs_code_len. apply bind_rs0. intros target.
      rewrite rs_change_jump. apply bind_rs. intros st8. rewrite rs_loops.
      destruct (rev (c_loops st8)) as [|ctx rest]; [reflexivity|]. rewrite rs_set_loops.
      apply (rs_patch_breaks (l_breaks ctx) (Ok (set_loops st8 (rev rest)))).
    - (* SLet *)
      intros n e IH st. cbn [rename_stmt]. rewrite !cs_let, rs_symbols, map_tab_define.
      destruct (define (c_symbols st) n) as [t sy]. rewrite rs_set_symbols, IH. apply bind_rs. intros st1.
      apply rs_emit_sym.
    - (* SReturn *)
      intros e IH st. cbn [rename_stmt]. rewrite !cs_return, rs_symbols, map_tab_in_global.
      destruct (in_global_context (c_symbols st)); [reflexivity|]. rewrite IH. apply bind_rs. intros st1. reflexivity.
    - (* SExpr *)
      intros e IH st. cbn [rename_stmt]. rewrite !cs_expr, IH. apply bind_rs. intros st1. reflexivity.
    - (* SBlock *)
      intros b IH st. cbn [rename_stmt]. rewrite !cs_block, is_nil_map. destruct (is_nil b); [reflexivity|].
      rewrite rs_symbols, map_tab_enter_scope, rs_set_symbols, (stmts_rs b IH). apply bind_rs. intros st1.
      rewrite rs_symbols, map_tab_leave_scope, rs_set_symbols. reflexivity.
    - (* SBreak *)
      intros st. cbn [rename_stmt]. rewrite !cs_break. cbv zeta. rewrite rs_emit_opcode, rs_emit_opcode, rs_emit_u16, rs_loops.
      destruct (rev (c_loops _)); reflexivity.
    - (* SContinue *)
      intros st. cbn [rename_stmt]. rewrite !cs_continue. cbv zeta. rewrite rs_emit_opcode, rs_loops.
      destruct (rev (c_loops _)) as [|ctx rest]; [reflexivity|]. apply bind_rs0. intros pos. reflexivity.
  Qed.

  (* Theorem 1 *)
  Theorem alpha_invariance : forall b st,
    compile_statements (rename_block b) (rename_state st) =
    map_outcome rename_state (compile_statements b st).
  Proof.
    intros b st. apply stmts_rs. apply Forall_forall. intros s _. apply (proj2 rename_all).
  Qed.

  Theorem alpha_invariance_expr : forall e st,
    compile_expression (rename_expr e) (rename_state st) =
    map_outcome rename_state (compile_expression e st).
  Proof. exact (proj1 rename_all). Qed.

  Lemma map_tab_checkpoint : forall t, checkpoint (map_tab r t) = checkpoint t.
  Proof.
    intros [|c0 t]; [reflexivity|]. cbn [map_tab map checkpoint map_ctx c_syms].
    destruct (c_syms c0) as [|s0 ss]; [reflexivity|]. cbn [map]. apply map_length.
  Qed.
  Lemma map_tab_rollback : forall t n, rollback (map_tab r t) n = map_tab r (rollback t n).
  Proof.
    intros [|c0 t] n; [reflexivity|]. cbn [map_tab map rollback map_ctx c_syms c_scope c_max].
    destruct (c_syms c0) as [|s0 ss]; [reflexivity|]. cbn [map]. now rewrite firstn_map.
  Qed.

  (* the retained compiler differs only by the renaming of its table; the result is the same *)
  Theorem alpha_invariance_compile_ast : forall b st,
    compile_ast (rename_block b) (rename_state st) =
    (rename_state (fst (compile_ast b st)), snd (compile_ast b st)).
  Proof.
    intros b st. unfold compile_ast. rewrite alpha_invariance.
    destruct (compile_statements b st) as [st1|k|f|]; cbn [map_outcome fst snd]; try reflexivity.
    rewrite rs_symbols, map_tab_checkpoint, map_tab_rollback. reflexivity.
  Qed.

  Lemma rename_compiler_new : rename_state compiler_new = compiler_new.
  Proof. reflexivity. Qed.

  (* the bytecode contains no names: identical constants, identical code, same error kind *)
  Theorem compile_alpha : forall b, compile (rename_block b) = compile b.
  Proof.
    intros b. unfold compile. rewrite <- rename_compiler_new at 1.
    now rewrite alpha_invariance_compile_ast.
  Qed.

  (* Theorem 3 *)
  Theorem eval_alpha : forall u orc src1 src2 ast budget,
    parse u (parse_float orc) src1 = Ok ast ->
    parse u (parse_float orc) src2 = Ok (rename_block ast) ->
    eval u orc src2 budget = eval u orc src1 budget.
  Proof.
    intros u orc src1 src2 ast budget P1 P2. unfold eval. rewrite P1, P2.
    rewrite <- rename_compiler_new at 1. rewrite alpha_invariance_compile_ast.
    destruct (compile_ast ast compiler_new) as [st o]. cbn [fst snd]. destruct o; reflexivity.
  Qed.
End Rename.

(** ** Renaming one variable to a fresh name: the transposition of two names *)
Definition swap_name (a b x : text) : text :=
  if text_eqb x a then b else if text_eqb x b then a else x.

Lemma swap_name_inj : forall a b x y, swap_name a b x = swap_name a b y -> x = y.
Proof.
  intros a b x y. unfold swap_name.
  destruct (text_eqb x a) eqn:Xa; destruct (text_eqb y a) eqn:Ya;
  destruct (text_eqb x b) eqn:Xb; destruct (text_eqb y b) eqn:Yb;
  repeat match goal with
         | H : text_eqb _ _ = true |- _ => apply text_eqb_eq in H
         | H : text_eqb _ _ = false |- _ => apply text_eqb_neq in H
         end; congruence.
Qed.

Lemma swap_name_nonempty : forall a b, a <> [] -> b <> [] -> forall x, x <> [] -> swap_name a b x <> [].
Proof. intros a b Ha Hb x Hx. unfold swap_name. destruct (text_eqb x a); [exact Hb|]. now destruct (text_eqb x b). Qed.

Lemma swap_name_builtin : forall a b, is_builtin_name a = false -> is_builtin_name b = false ->
  forall x, is_builtin_name x = false -> is_builtin_name (swap_name a b x) = false.
Proof. intros a b Ha Hb x Hx. unfold swap_name. destruct (text_eqb x a); [exact Hb|]. now destruct (text_eqb x b). Qed.

Corollary compile_swap : forall a b p, a <> [] -> b <> [] ->
  is_builtin_name a = false -> is_builtin_name b = false ->
  compile (rename_block (swap_name a b) p) = compile p.
Proof.
  intros a b p Ha Hb Ba Bb. apply compile_alpha.
  - apply swap_name_inj.
  - now apply swap_name_nonempty.
  - now apply swap_name_builtin.
Qed.
